#!/bin/bash
# Build the framework from files on disk only (offline): regenerate coq/Gen from /repo and compile the
# whole Coq development (full .vo build).
set -e
DIR=$(cd "$(dirname "$0")" && pwd)
cd "$DIR"
mkdir -p build evidence replays coq/Gen
export VERIF_REPO=${VERIF_REPO:-/repo}
export PYTHONPATH=$VERIF_REPO PYTHONHASHSEED=0 PYTHONWARNINGS=ignore
/venv/bin/python translator/units.py "$DIR/coq/Gen" > build/translator_status.json 2> >(grep -v conda.cli >&2) || true
cd coq
coq_makefile -f _CoqProject -o Makefile $(ls Model/*.v Proofs/*.v Gen/*.v Props/*.v Harness/*.v 2>/dev/null) > /dev/null
timeout 3000 make -k -j16 > ../build/setup_make.log 2>&1 || { tail -30 ../build/setup_make.log; echo "setup: coq build failed (checks will report)"; }
echo setup done

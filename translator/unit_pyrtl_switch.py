"""Translator unit "pyrtl_switch": amaranth/sim/_pyrtl.py _Compiler._emit_switch + _RHSValueCompiler.on_SwitchValue
->  coq/Gen/PyRtlSwitchGen.v

_emit_switch EMITS PYTHON STATEMENTS (a `match` block, or an if/elif chain).  This unit reads the emitted text
symbolically: every `case ...:` / `if ...:` / `elif ...:` header f-string is completed to a statement, parsed with
Python's own parser, and the resulting pattern / guard / condition is translated to a Gallina boolean over the run-time
integer `test`; the compile-time computations around them (`"-" in pattern`, `int("".join(...), 2)`, `pattern or "0"`,
the use_match loop, `break` after the default) are translated from their ast.  The generated functions return the case
whose handler is executed at run time (first match wins), or None.
  g_use_match  : bool (_USE_PATTERN_MATCHING) -> list (option (list pattern) * A) -> bool
  g_match_form : Z (test) -> list (option (list pattern) * A) -> option (option (list pattern) * A)
  g_if_form    : same
  g_emit_switch: bool -> Z -> cases -> option case      (the top-level `if not cases` / `if use_match` of _emit_switch)
  g_switch_value : (self_ rrhs_ : expr -> Z) -> expr -> list (option (list pattern) * expr) -> Z   (on_SwitchValue)

TRUSTED (besides what unit_pyrtl_rhs lists for templates): a pattern string is the model's `list (option bool)`
('0' = Some false, '1' = Some true, '-' = None; `normalize_patterns` output contains nothing else); Python `match`
semantics: cases tried in order, `_` matches anything, a value pattern matches when subject == value, `|` is "any",
a guard must also hold; `if/elif`: first true condition; `def_var(prefix, code)` binds a fresh variable to the value of
`code`; the handler's text runs only in the selected case; the statements emitted by `case_handler` for
on_SwitchValue assign the result variable, whose initial value is the second def_var.
The control skeleton of _emit_switch (loop / if structure, listed in SKELETON) is compared as exact text; its leaves
(all f-strings, the membership tests, the int(...) computations, the initial value and the assigned constant of
use_match) are translated.
"""
import ast, os, re, sys
sys.path.insert(0, os.path.dirname(os.path.abspath(__file__)))
from py2gallina import Unsupported, Ctx, tr_expr, find_function, fail
from unit_pyrtl_rhs import Sym, V, E, Ctor, is_name, check_signature, gen_helpers

NAME = "pyrtl_switch"
OUTPUTS = ["PyRtlSwitchGen.v"]
SRC = "amaranth/sim/_pyrtl.py"

CH = {"-": "None", "0": "Some false", "1": "Some true"}


def need(c, node, why):
    if not c:
        fail(node, why)


def text_is(node, txt):
    need(ast.unparse(node) == txt, node, f"expected `{txt}`")


# ---------------------------------------------------------------- compile-time pattern computations
def membership(node, var):
    """`"<ch>" in <var>` -> existsb over the pattern"""
    need(isinstance(node, ast.Compare) and len(node.ops) == 1 and isinstance(node.ops[0], ast.In)
         and isinstance(node.left, ast.Constant) and node.left.value in CH and is_name(node.comparators[0], var),
         node, "membership test form")
    c = CH[node.left.value]
    other = "| _ => false " if c != "None" else "| Some _ => false "
    return f"(existsb (fun b_ => match b_ with {c} => true {other}end) {var})"


def digit_const(node):
    need(isinstance(node, ast.Constant) and node.value in ("0", "1"), node, "digit constant")
    return str(int(node.value))


def int_of(node, var):
    """int("".join(<digit> for b in <var>), B)  |  int(<var> or "<digits>", B)   ->  Z term"""
    need(isinstance(node, ast.Call) and is_name(node.func, "int") and len(node.args) == 2 and not node.keywords
         and isinstance(node.args[1], ast.Constant) and type(node.args[1].value) is int, node, "int(..., base) form")
    base = node.args[1].value
    need(base == 2, node, "base of a bit pattern")
    a = node.args[0]
    if isinstance(a, ast.BoolOp) and isinstance(a.op, ast.Or) and len(a.values) == 2 and is_name(a.values[0], var) \
            and isinstance(a.values[1], ast.Constant) and type(a.values[1].value) is str \
            and re.fullmatch("[01]+", a.values[1].value):
        alt = int(a.values[1].value, base)
        # a pattern without '-' (this branch): every character is a digit; '-' would raise ValueError, digit 0 here
        fold = (f"(fold_left (fun acc_ b_ => {base} * acc_ + match b_ with None => 0 | Some c_ => Z.b2z c_ end) "
                f"{var} 0)")
        return f"(match {var} with [] => {alt} | _ :: _ => {fold} end)"
    need(isinstance(a, ast.Call) and isinstance(a.func, ast.Attribute) and a.func.attr == "join"
         and isinstance(a.func.value, ast.Constant) and a.func.value.value == "" and len(a.args) == 1
         and isinstance(a.args[0], ast.GeneratorExp), a, "''.join(generator) form")
    g = a.args[0]
    need(len(g.generators) == 1 and not g.generators[0].ifs and is_name(g.generators[0].iter, var)
         and is_name(g.generators[0].target), g, "generator form")
    b = g.generators[0].target.id
    e = g.elt
    need(isinstance(e, ast.IfExp) and isinstance(e.test, ast.Compare) and len(e.test.ops) == 1
         and isinstance(e.test.ops[0], ast.Eq) and is_name(e.test.left, b)
         and isinstance(e.test.comparators[0], ast.Constant) and e.test.comparators[0].value == "-", e,
         "digit selection form")
    then = digit_const(e.body)
    if is_name(e.orelse, b):
        els = "Z.b2z c_"
    else:
        els = digit_const(e.orelse)
    # an empty pattern would make int("") raise; patterns of a '-'-containing branch are non-empty
    return f"(fold_left (fun acc_ b_ => {base} * acc_ + match b_ with None => {then} | Some c_ => {els} end) {var} 0)"


# ---------------------------------------------------------------- emitted statement headers
def fstring_text(node, holes):
    """text of an f-string with each hole replaced by holes[unparse(hole expr)]"""
    if isinstance(node, ast.Constant) and type(node.value) is str:
        return node.value
    need(isinstance(node, ast.JoinedStr), node, "f-string")
    out = ""
    for p in node.values:
        if isinstance(p, ast.Constant):
            out += p.value
        else:
            need(isinstance(p, ast.FormattedValue) and p.conversion == -1 and p.format_spec is None, node, "hole form")
            k = ast.unparse(p.value)
            need(k in holes, p, f"unknown hole {k}")
            out += holes[k]
    return out


def append_arg(stmt):
    need(isinstance(stmt, ast.Expr) and isinstance(stmt.value, ast.Call)
         and ast.unparse(stmt.value.func) == "self.emitter.append" and len(stmt.value.args) == 1
         and not stmt.value.keywords, stmt, "self.emitter.append(...) statement")
    return stmt.value.args[0]


def lit_pattern(elt, var):
    """f'0b0{pattern}' -> the integer the literal denotes, as a Z term over the pattern"""
    need(isinstance(elt, ast.JoinedStr) and len(elt.values) == 2 and isinstance(elt.values[0], ast.Constant)
         and isinstance(elt.values[1], ast.FormattedValue) and is_name(elt.values[1].value, var)
         and elt.values[1].conversion == -1 and elt.values[1].format_spec is None, elt, "literal pattern template")
    prefix = elt.values[0].value
    need(re.fullmatch("0[bB][01]+", prefix), elt, "binary literal prefix")
    d = int(prefix[2:], 2)
    for s in ("", "0", "1", "0110"):
        need(ast.literal_eval(prefix + s) == d * 2 ** len(s) + int(s or "0", 2), elt, "literal reading")
    return f"({d} * 2 ^ Z.of_nat (length {var}) + Ast.pat_value {var})"


def match_header(hdr, subject_text):
    """`case ...:` header (f-string node) -> bool term over `test`"""
    lits = None
    holes = {}
    if isinstance(hdr, ast.JoinedStr):
        for p in hdr.values:
            if isinstance(p, ast.FormattedValue):
                j = p.value
                need(isinstance(j, ast.Call) and isinstance(j.func, ast.Attribute) and j.func.attr == "join"
                     and isinstance(j.func.value, ast.Constant) and len(j.args) == 1
                     and isinstance(j.args[0], ast.GeneratorExp), j, "join of literal patterns")
                g = j.args[0]
                need(len(g.generators) == 1 and not g.generators[0].ifs and is_name(g.generators[0].iter, "patterns")
                     and is_name(g.generators[0].target, "pattern"), g, "generator form")
                lits = lit_pattern(g.elt, "pattern")
                sep = j.func.value.value
                holes[ast.unparse(j)] = "101" + sep + "102"
    text = fstring_text(hdr, holes)
    try:
        m = ast.parse(f"{subject_text}\n {text}\n  pass\n").body[0]
    except SyntaxError:
        fail(hdr, f"emitted header does not parse: {text!r}")
    need(isinstance(m, ast.Match) and is_name(m.subject, "test_") and len(m.cases) == 1, hdr, "match statement")
    c = m.cases[0]

    def pat(p):
        if isinstance(p, ast.MatchAs) and p.pattern is None and p.name is None:
            return "true"
        if isinstance(p, ast.MatchOr) and lits is not None and len(p.patterns) == 2 and \
                all(isinstance(q, ast.MatchValue) and isinstance(q.value, ast.Constant) for q in p.patterns) and \
                [q.value.value for q in p.patterns] == [101, 102]:
            # subject == value for any of the joined literals
            return f"(existsb (fun pattern => Z.eqb test {lits}) patterns)"
        fail(hdr, f"case pattern {ast.dump(p)}")
    r = pat(c.pattern)
    if c.guard is not None:
        g, t = tr_expr(Ctx({}), c.guard, [])
        need(t == "bool", hdr, "guard type")
        r = f"(andb {r} {g})"
    return r


# ---------------------------------------------------------------- _emit_switch
def tr_emit_switch(fn):
    check_signature(fn, ["self", "test", "cases", "case_handler"])
    b = fn.body
    need(len(b) == 4, fn, "_emit_switch: 4 statements expected")
    text_is(b[0], "if not cases:\n    return")
    # use_match = <initial>
    need(isinstance(b[1], ast.Assign) and is_name(b[1].targets[0], "use_match"), b[1], "use_match initialisation")
    text_is(b[1].value, "_USE_PATTERN_MATCHING")
    # for patterns, *_ in cases: if patterns is None: continue; for pattern in patterns: if <memb>: use_match = <c>
    lp = b[2]
    need(isinstance(lp, ast.For) and not lp.orelse and len(lp.body) == 2, lp, "use_match loop")
    text_is(lp.target, "(patterns, *_)")
    text_is(lp.iter, "cases")
    text_is(lp.body[0], "if patterns is None:\n    continue")
    il = lp.body[1]
    need(isinstance(il, ast.For) and not il.orelse and len(il.body) == 1, il, "inner loop")
    text_is(il.target, "pattern")
    text_is(il.iter, "patterns")
    cond = il.body[0]
    need(isinstance(cond, ast.If) and not cond.orelse and len(cond.body) == 1
         and isinstance(cond.body[0], ast.Assign) and is_name(cond.body[0].targets[0], "use_match")
         and isinstance(cond.body[0].value, ast.Constant) and type(cond.body[0].value.value) is bool, cond,
         "use_match update")
    memb = membership(cond.test, "pattern")
    newv = "true" if cond.body[0].value.value else "false"
    out = ("Definition g_use_match {A : Type} (upm_ : bool) (cases : list (option (list Ast.pattern) * A)) : bool :=\n"
           "  fold_left (fun use_match case_ => match fst case_ with\n"
           "    | None => use_match\n"
           f"    | Some patterns => fold_left (fun use_match pattern => if {memb} then {newv} else use_match)"
           " patterns use_match\n    end) cases upm_.\n\n")

    top = b[3]
    need(isinstance(top, ast.If) and is_name(top.test, "use_match"), top, "if use_match")
    # ---- match form
    mb = top.body
    need(len(mb) == 2, top, "match form: 2 statements")
    subj = fstring_text(append_arg(mb[0]), {"test": "test_"})
    w = mb[1]
    need(isinstance(w, ast.With) and ast.unparse(w.items[0]) == "self.emitter.indent()" and len(w.items) == 1
         and len(w.body) == 1, w, "with indent")
    f = w.body[0]
    need(isinstance(f, ast.For) and not f.orelse and len(f.body) == 4, f, "case loop")
    text_is(f.target, "case")
    text_is(f.iter, "cases")
    text_is(f.body[0], "patterns = case[0]")
    hd = f.body[1]
    need(isinstance(hd, ast.If) and len(hd.body) == 1 and len(hd.orelse) == 1 and isinstance(hd.orelse[0], ast.If)
         and len(hd.orelse[0].body) == 1 and len(hd.orelse[0].orelse) == 1, hd, "header selection")
    text_is(hd.test, "patterns is None")
    text_is(hd.orelse[0].test, "not patterns")
    h_def = match_header(append_arg(hd.body[0]), subj)
    h_emp = match_header(append_arg(hd.orelse[0].body[0]), subj)
    h_lit = match_header(append_arg(hd.orelse[0].orelse[0]), subj)
    text_is(f.body[2], "with self.emitter.indent():\n    case_handler(*case)")
    text_is(f.body[3], "if patterns is None:\n    break")
    out += ("Fixpoint g_match_form {A : Type} (test : Z) (cases : list (option (list Ast.pattern) * A))\n"
            "    : option (option (list Ast.pattern) * A) :=\n"
            "  match cases with\n  | [] => None\n  | case_ :: tl_ =>\n"
            "    match fst case_ with\n"
            f"    | None => if {h_def} then Some case_ else None (* break *)\n"
            "    | Some patterns =>\n      match patterns with\n"
            f"      | [] => if {h_emp} then Some case_ else g_match_form test tl_\n"
            f"      | _ :: _ => if {h_lit} then Some case_ else g_match_form test tl_\n"
            "      end\n    end\n  end.\n\n")

    # ---- if / elif form
    need(len(top.orelse) == 1, top, "if form: one loop")
    f = top.orelse[0]
    need(isinstance(f, ast.For) and not f.orelse and len(f.body) == 5, f, "if-form loop")
    text_is(f.target, "(index, case)")
    text_is(f.iter, "enumerate(cases)")
    text_is(f.body[0], "patterns = case[0]")
    text_is(f.body[1], "gen_checks = []")
    hd = f.body[2]
    need(isinstance(hd, ast.If) and len(hd.body) == 1 and len(hd.orelse) == 1 and isinstance(hd.orelse[0], ast.If)
         and len(hd.orelse[0].body) == 1 and len(hd.orelse[0].orelse) == 1, hd, "check selection")
    text_is(hd.test, "patterns is None")
    text_is(hd.orelse[0].test, "not patterns")
    sym = Sym(None, set())

    def check(stmt, env):
        need(isinstance(stmt, ast.Expr) and isinstance(stmt.value, ast.Call)
             and ast.unparse(stmt.value.func) == "gen_checks.append" and len(stmt.value.args) == 1, stmt,
             "gen_checks.append")
        a = stmt.value.args[0]
        need(isinstance(a, ast.JoinedStr), a, "check template")
        v = sym.template(a, env)
        need(v.kind == "code" and v.rty == "bool", a, "check is not a boolean expression")
        return v.coq
    c_def = check(hd.body[0], {})
    c_emp = check(hd.orelse[0].body[0], {})
    pl = hd.orelse[0].orelse[0]
    need(isinstance(pl, ast.For) and not pl.orelse and len(pl.body) == 1, pl, "pattern loop")
    text_is(pl.target, "pattern")
    text_is(pl.iter, "patterns")
    pi = pl.body[0]
    need(isinstance(pi, ast.If), pi, "dash test")
    memb2 = membership(pi.test, "pattern")
    tenv = {"test": V("code", "test", rty="Z", tight="atom")}

    def branch(stmts):
        env = dict(tenv)
        need(len(stmts) >= 1, pi, "empty branch")
        for s in stmts[:-1]:
            need(isinstance(s, ast.Assign) and len(s.targets) == 1 and is_name(s.targets[0])
                 and s.targets[0].id in ("mask", "value"), s, "mask / value assignment")
            env[s.targets[0].id] = V("Z", int_of(s.value, "pattern"))
        return check(stmts[-1], env)
    c_dash = branch(pi.body)
    c_nodash = branch(pi.orelse)
    # header: if index == 0: append(if ...) else: append(elif ...)
    hs = f.body[3]
    need(isinstance(hs, ast.If) and len(hs.body) == 1 and len(hs.orelse) == 1, hs, "if / elif selection")
    text_is(hs.test, "index == 0")

    def cond_header(stmt, first):
        a = append_arg(stmt)
        holes = {}
        sep = None
        for p in a.values if isinstance(a, ast.JoinedStr) else []:
            if isinstance(p, ast.FormattedValue):
                j = p.value
                need(isinstance(j, ast.Call) and isinstance(j.func, ast.Attribute) and j.func.attr == "join"
                     and isinstance(j.func.value, ast.Constant) and len(j.args) == 1
                     and is_name(j.args[0], "gen_checks"), j, "join of gen_checks")
                sep = j.func.value.value
                holes[ast.unparse(j)] = "c1_" + sep + "c2_"
        need(sep is not None, a, "header without checks")
        text = fstring_text(a, holes)
        try:
            src = f"{text}\n pass\n" if first else f"if c0_:\n pass\n{text}\n pass\n"
            t = ast.parse(src).body
        except SyntaxError:
            fail(a, f"emitted header does not parse: {text!r}")
        need(len(t) == 1 and isinstance(t[0], ast.If), a, "if statement")
        node = t[0]
        if not first:
            need(is_name(node.test, "c0_") and len(node.orelse) == 1 and isinstance(node.orelse[0], ast.If), a,
                 "elif continuation")
            node = node.orelse[0]
        need(not node.orelse, a, "no else part")
        tt = node.test
        need(isinstance(tt, ast.BoolOp) and len(tt.values) == 2 and is_name(tt.values[0], "c1_")
             and is_name(tt.values[1], "c2_"), a, "joined checks form")
        if isinstance(tt.op, ast.Or):
            return "(fold_right orb false gen_checks)"
        fail(a, "join operator of the checks")
    j_if = cond_header(hs.body[0], True)
    j_elif = cond_header(hs.orelse[0], False)
    text_is(f.body[4], "with self.emitter.indent():\n    case_handler(*case)")
    checks = ("match fst case_ with\n"
              f"      | None => [{c_def}]\n"
              "      | Some patterns =>\n        match patterns with\n"
              f"        | [] => [{c_emp}]\n"
              f"        | _ :: _ => map (fun pattern => if {memb2}\n            then {c_dash}\n            else {c_nodash}) patterns\n"
              "        end\n      end")
    out += ("Fixpoint g_if_form {A : Type} (test : Z) (cases : list (option (list Ast.pattern) * A)) (index : nat)\n"
            "    : option (option (list Ast.pattern) * A) :=\n"
            "  match cases with\n  | [] => None\n  | case_ :: tl_ =>\n"
            f"    let gen_checks :=\n      {checks} in\n"
            f"    if (if Nat.eqb index 0 then {j_if} else {j_elif}) then Some case_\n"
            "    else g_if_form test tl_ (S index)\n  end.\n\n")
    out += ("Definition g_emit_switch {A : Type} (upm_ : bool) (test : Z) (cases : list (option (list Ast.pattern) * A))\n"
            "    : option (option (list Ast.pattern) * A) :=\n"
            "  match cases with\n  | [] => None\n"
            "  | _ :: _ => if g_use_match upm_ cases then g_match_form test cases else g_if_form test cases 0\n"
            "  end.\n\n")
    return out


# ---------------------------------------------------------------- on_SwitchValue
def tr_switch_value(cls):
    fn = [n for n in cls.body if isinstance(n, ast.FunctionDef) and n.name == "on_SwitchValue"]
    need(len(fn) == 1, cls, "on_SwitchValue not found")
    fn = fn[0]
    check_signature(fn, ["self", "value"])
    b = fn.body
    need(len(b) == 5, fn, "on_SwitchValue: 5 statements")
    sym = Sym(cls, set())
    ct = Ctor("ESwitch test_ cases_", "SwitchValue", {"test": ("test_", "expr")})
    env = {"value": E("(Ast.ESwitch test_ cases_)", ct)}

    def def_var(stmt, name):
        need(isinstance(stmt, ast.Assign) and is_name(stmt.targets[0], name) and isinstance(stmt.value, ast.Call)
             and ast.unparse(stmt.value.func) == "self.emitter.def_var" and len(stmt.value.args) == 2
             and not stmt.value.keywords and isinstance(stmt.value.args[0], ast.Constant), stmt, f"{name} = def_var")
        a = stmt.value.args[1]
        if isinstance(a, ast.Constant) and type(a.value) is str:
            v = sym.code_of_text(a.value, {}, {}, a)
        else:
            v = sym.template(a, env)
        need(v.kind == "code" and v.rty == "Z", stmt, "def_var of a non-integer")
        return v.coq
    t = def_var(b[0], "gen_test")
    init = def_var(b[1], "gen_value")
    h = b[2]
    need(isinstance(h, ast.FunctionDef) and h.name == "case_handler" and [a.arg for a in h.args.args] ==
         ["patterns", "elem"] and len(h.body) == 1, h, "case_handler")
    a = append_arg(h.body[0])
    need(isinstance(a, ast.JoinedStr) and len(a.values) == 3 and isinstance(a.values[0], ast.FormattedValue)
         and is_name(a.values[0].value, "gen_value") and isinstance(a.values[1], ast.Constant)
         and isinstance(a.values[2], ast.FormattedValue), a, "handler template")
    text = "result_" + a.values[1].value + "rhs_"
    try:
        st = ast.parse(text).body
    except SyntaxError:
        fail(a, "handler statement does not parse")
    need(len(st) == 1 and isinstance(st[0], ast.Assign) and is_name(st[0].targets[0], "result_")
         and is_name(st[0].value, "rhs_"), a, "handler is not a plain assignment of the result variable")
    rhs = a.values[2].value
    henv = {"elem": E("elem")}
    v = sym.ev(rhs, henv)
    need(v.kind == "code" and v.rty == "Z", rhs, "assigned code")
    text_is(b[3], "self._emit_switch(gen_test, value.cases, case_handler)")
    text_is(b[4], "return gen_value")
    return ("Definition g_switch_value (self_ rrhs_ : Ast.expr -> Z) (test_ : Ast.expr)\n"
            "    (cases_ : list (option (list Ast.pattern) * Ast.expr)) : Z :=\n"
            f"  let gen_test := {t} in\n"
            f"  match g_emit_switch true gen_test cases_ with\n"
            f"  | None => {init}\n"
            f"  | Some (patterns, elem) => {v.coq}\n  end.\n")


def unit():
    root = os.environ.get("VERIF_REPO", "/repo")
    with open(os.path.join(root, SRC)) as f:
        tree = ast.parse(f.read())
    upm = [s for s in tree.body if isinstance(s, ast.Assign) and is_name(s.targets[0], "_USE_PATTERN_MATCHING")]
    need(len(upm) == 1 and ast.unparse(upm[0].value) == "sys.version_info >= (3, 10)" and sys.version_info >= (3, 10),
         tree.body[0], "_USE_PATTERN_MATCHING is not `sys.version_info >= (3, 10)` (true on this interpreter)")
    out = (f"(* GENERATED by /verif/translator/unit_pyrtl_switch.py from {SRC} — do not edit *)\n"
           "From Coq Require Import ZArith List Bool.\n"
           "From V.Model Require Import Bits Shape Ast.\n"
           "Import ListNotations.\nOpen Scope Z_scope.\nOpen Scope bool_scope.\n\n")
    out += gen_helpers(tree)      # sign / zdiv / zmod of the generated code's globals (sign is used by self.sign(elem))
    out += tr_emit_switch(find_function(tree, "_Compiler._emit_switch"))
    cls = find_function(tree, "_RHSValueCompiler")
    sign = [n for n in cls.body if isinstance(n, ast.FunctionDef) and n.name == "sign"]
    need(len(sign) == 1, cls, "sign not found")
    out += tr_switch_value(cls)
    return {"PyRtlSwitchGen.v": out}


if __name__ == "__main__":
    print(unit()["PyRtlSwitchGen.v"])

"""Translator unit "pyrtl_lhs": amaranth/sim/_pyrtl.py (_LHSValueCompiler, _StatementCompiler)  ->  coq/Gen/PyRTLLhsGen.v

The translated code is a *code generator*: every on_X method of _LHSValueCompiler returns a closure gen(arg) that appends
Python text to an emitter.  What is regenerated is the DENOTATION of the emitted text, obtained by symbolic execution of
the generator methods for every constructor of the model's `expr` / `stmt`:

  _ValueCompiler.helpers["sign"]        -> helper_sign : Z -> Z -> Z
  _LHSValueCompiler.on_* (gen closures)  -> lhs_gen    : env -> expr -> (env -> Z) -> env -> env   (Fixpoint over expr)
  _StatementCompiler.on_Assign/on_Switch -> stmt_gen   : env -> stmt -> env -> env                 (Fixpoint over stmt)
  _StatementCompiler.on_statements       -> stmts_gen  : env -> list stmt -> env -> env
  _FragmentCompiler.__call__ (process skeleton, fragments that are not MemoryInstances; per driven signal
  (index i_, shape s_, init_, reset_less_); nx_ = the variables next_*, sl_ = slots[*].next; result (nx_, sl_)):
    comb:  `next_i = init` loop body                       -> comb_init_gen
    sync:  `next_i = slots[i].next` loop body               -> sync_load_gen
    sync:  `if (1 & rst): next_i = init` (text of the test + loop body)  -> sync_reset_gen (rstv = value of rhs(domain.rst))
    both:  mask sign extension + `slots[i].update(next_i, mask)` loop body -> final_update_gen
  The ORDER of these loops relative to the compiled statements (comb: init loop, statements; sync: load loop,
  statements, reset block; update loop last) is checked on the ast (Unsupported otherwise), not translated: the
  composition into Process.comb_process / sync_process (functions of all indices, masks from LHSMaskCollector) is the
  hand-written model.  Not translated: MemoryInstance ports, wakers, exec of the text, and the
  `if not process.clk_edge:` prologue of domains with an asynchronous reset (outside Process.sync_process).

  * A Python *expression text* (an f-string built by the generator) denotes a Gallina term of type Z in which the
    variable `nx_` stands for the values of the emitted variables `next_<i>` AT THE POINT WHERE THE TEXT IS EXECUTED:
    texts are substituted, not evaluated, so `gen(arg)` receives a thunk `arg : env -> Z` (call by name).  The
    equivalence lemma (Proofs/GenEqPyrtlLhs.v) shows that every text is executed in the state in which the model
    evaluates it.
  * An f-string is turned into a Python template by replacing every `{hole}` by a placeholder identifier, the template
    is parsed with `ast.parse` and the resulting Python expression / statement is translated operator by operator
    (py2gallina's operator table).  Holes are compile-time integers (translated by py2gallina.tr_expr from the source
    expression in the hole; format spec none or `#x`), other texts, or the slot index in `next_{...}`.
  * emitted statements: `next_<i> = e` is `let nx_ := Stmt.upd nx_ i e`; `emitter.def_var(p, e)` is `let v := e`
    (a fresh Python variable assigned once: its text is the name); `pass` is no statement.
  * `self(x)(text)` is the recursive call `lhs_gen curr_ x (fun nx_ => text) nx_`.

TRUSTED BASE of this unit (besides py2gallina's operator mapping):
  * dispatch: ValueVisitor.on_value / StatementVisitor.on_statement send class C to on_C (re-checked against the
    if-chain of hdl/_xfrm.py on every run); Python class <-> constructor tables below (as in unit "pyeval");
    `len(x)` = Ast.ewidth x, `x.shape().signed` = sgn (shape_of x), `state.get_signal(sig)` = the signal's index;
  * the RIGHT-hand-side compiler is NOT translated here (unit "pyrtl_rhs"): for an _RHSValueCompiler `c` in mode
    "curr", the text `c(x)` denotes PyRTL.eval_rtl curr_ x and `c.sign(x)` denotes PyRTL.rsign (shape_of x) (eval_rtl
    curr_ x); for the compiler constructed with mode="next", rrhs=<curr compiler> the text `c(x)` denotes
    Stmt.lread curr_ nx_ x.  Which compiler is stored in self.rhs / self.rrhs / self.lrhs IS read from the two
    __init__ methods.  Every text produced by the RHS compiler is a Python primary (name, call, parenthesised) or a
    negative literal, so it can be substituted at an operand position; texts built HERE are checked for that before
    they are passed on as `arg`;
  * `slots[i].update(v, mask)` is Process.slot_update on slots[i].next (_PySignalState.update, sim/pysim.py: unit
    "pysim"); `signal not in read_data` is true (read_data is empty unless the fragment is a MemoryInstance);
  * `_Compiler._emit_switch(test, cases, handler)` is not translated (shared with the RHS unit): it runs
    `handler(*case)` for the first case with PyRTL.rtl_case_match (PyRTL.use_match (map fst cases)) test patterns,
    and nothing when there is none (model: PyRTL.v, tested by the C01/C02 correspondence runs);
  * WHITELIST / SKIP / RAISE_AS_UNCHANGED below (exact text compared).
"""
import ast, os, re, sys
sys.path.insert(0, os.path.dirname(os.path.abspath(__file__)))
import py2gallina as P
from py2gallina import Unsupported, Ctx, tr_expr, find_function, fail

NAME = "pyrtl_lhs"
OUTPUTS = ["PyRTLLhsGen.v"]
SRC = "amaranth/sim/_pyrtl.py"
XFRM = "amaranth/hdl/_xfrm.py"

OP1 = [("u", "OU"), ("s", "OS"), ("-", "ONeg"), ("~", "ONot"), ("b", "OBool"), ("r|", "ORor"), ("r&", "ORand"),
       ("r^", "ORxor")]
OP2 = ["|", "&", "^", "+", "-", "*", "//", "%", "<<", ">>", "==", "!=", "<", "<=", ">", ">="]
OP_STRINGS = {s for s, _ in OP1} | set(OP2)

# statements skipped when met (exact text): the translation continues with the next statement
SKIP = {
    "if self.outputs is not None:\n    self.outputs.add(value)":
        "bookkeeping of the set of driven signals (used for wakers only); emits no code",
    "super().__init__(state, emitter)": "_Compiler.__init__ stores state and emitter",
    "self.outputs = outputs": "bookkeeping set, see above",
    "self.state.slots[signal_index].is_comb = True":
        "flag read by the testbench driver-conflict check only (sim/_pyeval.py); emits no code",
}
# `raise` translated as "emit nothing, state unchanged" (the model's `| _ => nx`)
RAISE_AS_UNCHANGED = {
    "raise TypeError": "type-check raise for non-assignable targets (Const, operators other than u/s); "
                       "unreachable for wf_lhs targets, the model leaves the state unchanged",
}
# methods that are compared as a whole (not translated)
PINNED = {
    "_ValueCompiler.on_value":
        "def on_value(self, value):\n"
        "    if len(value) > 2 ** 16:\n"
        "        if value.src_loc:\n"
        "            src = '{}:{}'.format(*value.src_loc)\n"
        "        else:\n"
        "            src = 'unknown location'\n"
        "        raise OverflowError('Value defined at {} is {} bits wide, which is unlikely to simulate in reasonable time'.format(src, len(value)))\n"
        "    code = super().on_value(value)\n"
        "    if isinstance(code, str) and len(code) > 1000:\n"
        "        return self.emitter.def_var('expr_split', code)\n"
        "    return code",
}
PINNED_WHY = {
    "_ValueCompiler.on_value": "values wider than 2**16 bits raise OverflowError (not modelled); the result of the "
                               "LHS compiler is a closure, not a str, so the expr_split branch is not taken",
}

COQ_KEYWORDS = set("as at cofix else end exists exists2 fix for forall fun if IF in let match mod return then using "
                   "where with Prop Set Type SProp".split())
EMITTED = {"map", "fst", "snd", "negb", "Some", "None", "true", "false", "helper_sign", "lhs_gen", "stmt_gen",
           "stmts_gen", "nat", "Z", "bool", "list", "option", "comb_run", "sync_run"}


def check_ident(name, node):
    if name.endswith("_") or name in COQ_KEYWORDS or name in EMITTED or not name.isidentifier() or not name.isascii() \
            or re.fullmatch(r"H\d+_", name):
        fail(node, f"identifier {name!r} clashes with generated names")


class Val:
    def __init__(self, kind, coq=None, **kw):
        self.kind, self.coq = kind, coq
        self.__dict__.update(kw)


def is_name(n, ident=None):
    return isinstance(n, ast.Name) and (ident is None or n.id == ident)


def is_self_attr(n, attr=None):
    return isinstance(n, ast.Attribute) and is_name(n.value, "self") and (attr is None or n.attr == attr)


class Ctor:
    def __init__(self, pat, cls, fields=None, operands=None, opstrs=None, slot=None):
        self.pat, self.cls, self.fields = pat, cls, dict(fields or {})
        self.operands, self.opstrs, self.slot = list(operands or []), opstrs, slot


def expr_ctors():
    E = lambda c: Val("expr", c)
    Z = lambda c: Val("Z", c)
    return [
        Ctor("Ast.EConst v_ s_", "Const"),
        Ctor("Ast.ESig i_ s_", "Signal", slot="i_"),
        Ctor("Ast.EOp1 Ast.OU a_", "Operator", operands=[E("a_")], opstrs={"u"}),
        Ctor("Ast.EOp1 Ast.OS a_", "Operator", operands=[E("a_")], opstrs={"s"}),
        Ctor("Ast.EOp1 _ a_", "Operator", operands=[E("a_")], opstrs={s for s, _ in OP1} - {"u", "s"}),
        Ctor("Ast.EOp2 _ a_ b_", "Operator", operands=[E("a_"), E("b_")], opstrs=set(OP2)),
        Ctor("Ast.ESlice a_ lo_ hi_", "Slice", {"value": E("a_"), "start": Z("lo_"), "stop": Z("hi_")}),
        Ctor("Ast.EPart a_ off_ w_ st_", "Part", {"value": E("a_"), "offset": E("off_"), "width": Z("w_"),
                                                  "stride": Z("st_")}),
        Ctor("Ast.ECat parts_", "Concat", {"parts": Val("list", "parts_", elem="expr")}),
        Ctor("Ast.ESwitch test_ cases_", "SwitchValue", {"test": E("test_"), "cases": Val("cases", "cases_", body="expr")}),
    ]


def stmt_ctors():
    return [
        Ctor("Stmt.SAssign lhs_ rhs_", "Assign", {"lhs": Val("expr", "lhs_"), "rhs": Val("expr", "rhs_")}),
        Ctor("Stmt.SSwitch test_ cases_", "Switch", {"test": Val("expr", "test_"),
                                                     "cases": Val("cases", "cases_", body="stmts")}),
    ]


COQTY = {"expr": "Ast.expr", "stmt": "Stmt.stmt", "stmts": "(list Stmt.stmt)"}


class Sym:
    """Symbolic execution of generator methods of one compiler class for one constructor of the dispatch variable."""

    def __init__(self, unit, cls, disp, ctor, selfattrs):
        self.u, self.cls, self.disp, self.ctor, self.selfattrs = unit, cls, disp, ctor, selfattrs
        self.n = 0
        self.skeleton = False

    def fresh(self, p):
        self.n += 1
        return f"{p}{self.n}_"

    # ------------------------------------------------------------------ expressions
    def specials(self, env):
        def sp(ctx, node):
            if isinstance(node, ast.Compare) and len(node.ops) == 1 and isinstance(node.ops[0], ast.NotIn) and \
                    is_name(node.comparators[0]) and env.get(node.comparators[0].id) is not None and \
                    env[node.comparators[0].id].kind == "emptyset" and is_name(node.left, self.disp):
                return "true", "bool"          # the set is empty for fragments that are not MemoryInstances
            if isinstance(node, (ast.Name, ast.Attribute, ast.Call, ast.Subscript)):
                v = self.ev(node, env)
                if v.kind in ("Z", "bool"):
                    return v.coq, v.kind
                fail(node, f"value of kind {v.kind} in an integer expression")
            return None
        return sp

    def static_test(self, node):
        """value.operator in ("u", "s") / == "x": decided by the constructor; None when not of this form."""
        if isinstance(node, ast.Compare) and len(node.ops) == 1 and isinstance(node.left, ast.Attribute) and \
                node.left.attr == "operator" and is_name(node.left.value, self.disp):
            op, right = node.ops[0], node.comparators[0]
            if self.ctor.cls != "Operator":
                fail(node, f".operator of a {self.ctor.cls}")
            if isinstance(op, (ast.Eq, ast.NotEq)) and isinstance(right, ast.Constant) and isinstance(right.value, str):
                lits = [right.value]
            elif isinstance(op, (ast.In, ast.NotIn)) and isinstance(right, ast.Tuple) and \
                    all(isinstance(e, ast.Constant) and isinstance(e.value, str) for e in right.elts):
                lits = [e.value for e in right.elts]
            else:
                fail(node, "operator test form")
            for l in lits:
                if l not in OP_STRINGS:
                    fail(node, f"operator string {l!r} is not in the table")
            res = {(s in lits) for s in self.ctor.opstrs}
            if len(res) != 1:
                fail(node, f"operator test not decided by constructor pattern {self.ctor.pat}")
            r = res.pop()
            return r if isinstance(op, (ast.Eq, ast.In)) else not r
        return None

    def ev(self, node, env):
        if isinstance(node, ast.JoinedStr):
            return self.template_expr(node, env)
        if isinstance(node, ast.Constant) and isinstance(node.value, str):
            return self.template_text(node.value, {}, node)
        if isinstance(node, ast.Name):
            if node.id == "self":
                return Val("self")
            if node.id not in env:
                fail(node, "unknown variable")
            v = env[node.id]
            if v.kind == "unavailable":
                fail(node, f"{node.id} is not available in the model")
            return v
        if isinstance(node, ast.Attribute):
            if is_name(node.value, "self"):
                if node.attr in self.selfattrs:
                    return self.selfattrs[node.attr]
                fail(node, f"self.{node.attr}")
            if node.attr == "signed" and isinstance(node.value, ast.Call) and not node.value.args and \
                    not node.value.keywords and isinstance(node.value.func, ast.Attribute) and \
                    node.value.func.attr == "shape":
                x = self.ev(node.value.func.value, env)
                if x.kind != "expr":
                    fail(node, ".shape() of a non-expression")
                return Val("bool", f"(Bits.sgn (Ast.shape_of {x.coq}))")
            if is_name(node.value, self.disp) and self.ctor is not None and env.get(self.disp) is self.dispval:
                if node.attr in self.ctor.fields:
                    return self.ctor.fields[node.attr]
                fail(node, f"field .{node.attr} of {self.ctor.cls}")
            fail(node, "attribute")
        if isinstance(node, ast.Subscript):
            if isinstance(node.value, ast.Attribute) and node.value.attr == "operands" and \
                    is_name(node.value.value, self.disp) and env.get(self.disp) is self.dispval and \
                    isinstance(node.slice, ast.Constant) and isinstance(node.slice.value, int):
                if self.ctor.cls != "Operator" or not 0 <= node.slice.value < len(self.ctor.operands):
                    fail(node, "operand index")
                return self.ctor.operands[node.slice.value]
            fail(node, "subscript")
        if isinstance(node, ast.Call):
            f = node.func
            if is_name(f, "len") and len(node.args) == 1 and not node.keywords:
                x = self.ev(node.args[0], env)
                if x.kind != "expr":
                    fail(node, "len of a non-expression")
                return Val("Z", f"(Ast.ewidth {x.coq})")
            # self.state.get_signal(value)
            if isinstance(f, ast.Attribute) and f.attr == "get_signal" and is_self_attr(f.value, "state") and \
                    len(node.args) == 1 and not node.keywords:
                x = self.ev(node.args[0], env)
                if x is not self.dispval or self.ctor.slot is None:
                    fail(node, "get_signal of something that is not the visited Signal")
                return Val("slot", self.ctor.slot)
            if node.keywords:
                fail(node, "keyword arguments")
            # c.sign(x) for an RHS compiler c
            if isinstance(f, ast.Attribute) and f.attr == "sign" and len(node.args) == 1:
                c = self.ev(f.value, env)
                x = self.ev(node.args[0], env)
                if c.kind != "rhsc" or x.kind != "expr":
                    fail(node, ".sign() call")
                if c.mode != "curr" or c.rrhs is not None:
                    fail(node, ".sign() of a compiler that is not in plain curr mode")
                return Val("text", f"(PyRTL.rsign (Ast.shape_of {x.coq}) (PyRTL.eval_rtl curr_ {x.coq}))", atomic=True)
            if len(node.args) == 1:
                c = self.ev(f, env)
                if c.kind == "rhsc":
                    x = self.ev(node.args[0], env)
                    if x.kind != "expr":
                        fail(node, "RHS compiler applied to a non-expression")
                    if c.mode == "curr" and c.rrhs is None:
                        return Val("text", f"(PyRTL.eval_rtl curr_ {x.coq})", atomic=True)
                    if c.mode == "next" and c.rrhs is not None and c.rrhs.mode == "curr" and c.rrhs.rrhs is None:
                        return Val("text", f"(Stmt.lread curr_ nx_ {x.coq})", atomic=True)
                    fail(node, f"RHS compiler configuration mode={c.mode}")
                if c.kind in ("self", "lhsc"):
                    x = self.ev(node.args[0], env)
                    return self.visit(c, x, node)
            fail(node, "call")
        # compile-time integer / boolean expression
        ctx = Ctx({}, specials=self.specials(env))
        binds = []
        c, t = tr_expr(ctx, node, binds)
        if binds or t not in ("Z", "bool"):
            fail(node, "expression")
        return Val(t, c)

    def visit(self, comp, x, node):
        """compiler(x): the result of visiting x (a closure for the LHS compiler, an action for the statement one)."""
        target = self.cls if comp.kind == "self" else "_LHSValueCompiler"
        if target == "_LHSValueCompiler":
            if x.kind != "expr":
                fail(node, "LHS compiler applied to a non-expression")
            return Val("gen", rec=x.coq)
        if x.kind == "stmt":
            return Val("action", f"(stmt_gen curr_ {x.coq} nx_)")
        if x.kind == "stmts":
            fn = self.u.method("_StatementCompiler", "on_statements", ["self", "stmts"])
            env = {"stmts": x}
            return Val("action", self.block(list(fn.body), env, lambda e: "nx_"))
        fail(node, f"statement compiler applied to a {x.kind}")

    # ------------------------------------------------------------------ templates
    def template_parts(self, js, env):
        text, holes = "", {}
        for v in js.values:
            if isinstance(v, ast.Constant) and isinstance(v.value, str):
                if re.search(r"H\d+_", v.value):
                    fail(js, "placeholder clash")
                text += v.value
                continue
            if not isinstance(v, ast.FormattedValue) or v.conversion != -1:
                fail(js, "f-string conversion")
            spec = None
            if v.format_spec is not None:
                fs = v.format_spec
                if not (isinstance(fs, ast.JoinedStr) and len(fs.values) == 1 and isinstance(fs.values[0], ast.Constant)):
                    fail(js, "format spec")
                spec = fs.values[0].value
            val = self.ev(v.value, env)
            if val.kind == "Z":
                if spec not in (None, "#x"):
                    fail(js, f"format spec {spec!r} of an integer")
            elif val.kind in ("text", "slot"):
                if spec is not None:
                    fail(js, "format spec on a text")
            else:
                fail(js, f"hole of kind {val.kind}")
            h = f"H{len(holes)}_"
            holes[h] = val
            text += h
        return text, holes

    def tt(self, n, holes, top):
        """Python expression of an emitted text -> Gallina (type Z)."""
        if isinstance(n, ast.Name):
            m = re.fullmatch(r"next_(H\d+_)", n.id)
            if m and m.group(1) in holes and holes[m.group(1)].kind == "slot" and self.skeleton:
                return f"(nx_ {holes[m.group(1)].coq})"
            if n.id not in holes:
                fail(n, f"free name {n.id!r} in emitted text")
            v = holes[n.id]
            if v.kind == "Z":
                return v.coq
            if v.kind == "text":
                if not v.atomic and not top:
                    fail(n, "a text that is not a Python primary is substituted at an operand position")
                return v.coq
            fail(n, f"hole of kind {v.kind} in an expression")
        if isinstance(n, ast.Attribute) and n.attr in ("next", "curr") and self.skeleton:
            sl = self.slot_ref(n.value, holes)
            return f"(sl_ {sl})" if n.attr == "next" else f"(curr_ {sl})"
        if isinstance(n, ast.Constant) and type(n.value) is int:
            return f"({n.value})"
        if isinstance(n, ast.BinOp):
            if type(n.op) not in P.BINOPS or isinstance(n.op, ast.Pow):
                fail(n, "operator in emitted text")
            return f"({P.BINOPS[type(n.op)]} {self.tt(n.left, holes, False)} {self.tt(n.right, holes, False)})"
        if isinstance(n, ast.UnaryOp) and isinstance(n.op, ast.Invert):
            return f"(Z.lnot {self.tt(n.operand, holes, False)})"
        if isinstance(n, ast.UnaryOp) and isinstance(n.op, ast.USub):
            return f"(Z.opp {self.tt(n.operand, holes, False)})"
        if isinstance(n, ast.Call) and is_name(n.func, "sign") and len(n.args) == 2 and not n.keywords:
            return f"(helper_sign {self.tt(n.args[0], holes, True)} {self.tt(n.args[1], holes, True)})"
        fail(n, "construct in emitted text")

    def slot_ref(self, n, holes):
        """slots[<hole>] in an emitted text -> the slot index."""
        if isinstance(n, ast.Subscript) and is_name(n.value, "slots") and is_name(n.slice) and n.slice.id in holes and \
                holes[n.slice.id].kind == "slot":
            return holes[n.slice.id].coq
        fail(n, "slot reference in emitted text")

    def template_text(self, text, holes, node):
        try:
            tree = ast.parse(text, mode="eval").body
        except SyntaxError:
            fail(node, f"emitted text {text!r} is not a Python expression")
        coq = self.tt(tree, holes, True)
        if isinstance(tree, ast.Name) and holes[tree.id].kind == "text":
            atomic = holes[tree.id].atomic
        else:
            try:
                probe = ast.parse(text + ".x_", mode="eval").body
                atomic = isinstance(probe, ast.Attribute) and ast.dump(probe.value) == ast.dump(tree)
            except SyntaxError:
                atomic = False
        return Val("text", coq, atomic=atomic)

    def template_expr(self, js, env):
        text, holes = self.template_parts(js, env)
        return self.template_text(text, holes, js)

    def emit_stmt(self, js, env, k):
        """self.emitter.append(f"..."): one emitted statement."""
        if isinstance(js, ast.Constant) and isinstance(js.value, str):
            text, holes = js.value, {}
        elif isinstance(js, ast.JoinedStr):
            text, holes = self.template_parts(js, env)
        else:
            fail(js, "emitted statement is not a string literal")
        try:
            body = ast.parse(text).body
        except SyntaxError:
            fail(js, f"emitted text {text!r} is not a Python statement")
        if len(body) != 1:
            fail(js, "emitted text is not a single statement")
        s = body[0]
        if isinstance(s, ast.Pass):
            return k(env)
        if isinstance(s, ast.Assign) and len(s.targets) == 1 and is_name(s.targets[0]):
            m = re.fullmatch(r"next_(H\d+_)", s.targets[0].id)
            if m and m.group(1) in holes and holes[m.group(1)].kind == "slot":
                v = self.tt(s.value, holes, True)
                return f"(let nx_ := Stmt.upd nx_ {holes[m.group(1)].coq} {v} in\n {k(env)})"
        if self.skeleton and isinstance(s, ast.Expr) and isinstance(s.value, ast.Call) and \
                isinstance(s.value.func, ast.Attribute) and s.value.func.attr == "update" and \
                len(s.value.args) == 2 and not s.value.keywords:
            # _PySignalState.update(value, mask): next = (next & ~mask) | (value & mask)   (Process.slot_update)
            sl = self.slot_ref(s.value.func.value, holes)
            v, m = self.tt(s.value.args[0], holes, True), self.tt(s.value.args[1], holes, True)
            return f"(let sl_ := Stmt.upd sl_ {sl} (Process.slot_update (sl_ {sl}) {v} {m}) in\n {k(env)})"
        fail(js, f"emitted statement {text!r}")

    # ------------------------------------------------------------------ closures
    def apply(self, g, t, node):
        """gen(text): Gallina term (type env) for the statements emitted by the closure, starting in state nx_."""
        if t.kind != "text":
            fail(node, "closure applied to a non-text")
        if not t.atomic:
            fail(node, "the text passed as `arg` is not a Python primary")
        if g.kind != "gen":
            fail(node, "call of a non-closure")
        if getattr(g, "rec", None) is not None:
            return f"(lhs_gen curr_ {g.rec} (fun nx_ => {t.coq}) nx_)"
        if getattr(g, "unchanged", False):
            return "nx_"
        fn, cenv = g.fn, dict(g.env)
        cenv[fn.args.args[0].arg] = t
        return self.block(list(fn.body), cenv, lambda e: "nx_")

    def closure_of(self, fn, env, nparams):
        a = fn.args
        if a.vararg or a.kwarg or a.kwonlyargs or a.defaults or a.posonlyargs or fn.decorator_list or \
                len(a.args) != nparams:
            fail(fn, "local function signature")
        for x in a.args:
            check_ident(x.arg, fn)
        return fn

    # ------------------------------------------------------------------ statements
    def block(self, stmts, env, k):
        if not stmts:
            return k(env)
        s, rest = stmts[0], stmts[1:]
        self.u.visited.add(id(s))
        env = dict(env)
        cont = lambda e: self.block(rest, e, k)
        text = ast.unparse(s)
        if isinstance(s, ast.Expr) and isinstance(s.value, ast.Constant) and isinstance(s.value.value, str):
            return cont(env)
        if text in SKIP:
            self.mark(s)
            return cont(env)
        if isinstance(s, ast.FunctionDef):
            check_ident(s.name, s)
            env[s.name] = Val("func", fn=s, env=dict(env))
            self.mark_header(s)
            return cont(env)
        if isinstance(s, ast.Return):
            if rest:
                fail(rest[0], "statement after return")
            if s.value is None:
                return "nx_"
            v = self.ev_call_or_val(s.value, env)
            if v.kind == "action":
                return v.coq                       # `return gen(text)`: the closure returns None
            if self.mode != "method":
                fail(s, "return of a value inside a closure")
            if v.kind == "func":
                self.closure_of(v.fn, v.env, 1)
                return Val("gen", fn=v.fn, env=v.env, rec=None)
            if v.kind == "gen":
                return v
            fail(s, "returned value")
        if isinstance(s, ast.Raise):
            if text in RAISE_AS_UNCHANGED and self.mode == "method":
                return Val("gen", unchanged=True, rec=None)
            fail(s, "raise")
        if isinstance(s, ast.Assign):
            if len(s.targets) != 1 or not is_name(s.targets[0]):
                fail(s, "assignment target")
            tgt = s.targets[0].id
            check_ident(tgt, s)
            # name = self.emitter.def_var("prefix", text)
            c = s.value
            if isinstance(c, ast.Call) and isinstance(c.func, ast.Attribute) and c.func.attr == "def_var" and \
                    is_self_attr(c.func.value, "emitter"):
                if len(c.args) != 2 or c.keywords or not (isinstance(c.args[0], ast.Constant) and
                                                          isinstance(c.args[0].value, str)):
                    fail(s, "def_var form")
                t = self.ev(c.args[1], env)
                if t.kind != "text":
                    fail(s, "def_var of a non-text")
                env[tgt] = Val("text", tgt, atomic=True)
                return f"(let {tgt} := {t.coq} in\n {cont(env)})"
            v = self.ev(c, env)
            if v.kind in ("Z", "bool"):
                env[tgt] = Val(v.kind, tgt)
                return f"(let {tgt} := {v.coq} in\n {cont(env)})"
            if v.kind in ("text", "slot"):
                env[tgt] = v                      # a text is substituted where it is used (call by name)
                return cont(env)
            fail(s, f"assignment of a {v.kind}")
        if isinstance(s, ast.AugAssign):
            if not is_name(s.target) or s.target.id not in env or env[s.target.id].kind != "Z":
                fail(s, "augmented assignment target")
            tgt = s.target.id
            v = self.ev(ast.BinOp(left=ast.Name(id=tgt, ctx=ast.Load()), op=s.op, right=s.value), env)
            if v.kind != "Z":
                fail(s, "augmented assignment value")
            env[tgt] = Val("Z", tgt)
            return f"(let {tgt} := {v.coq} in\n {cont(env)})"
        if isinstance(s, ast.Expr) and isinstance(s.value, ast.Call):
            c = s.value
            f = c.func
            # self.emitter.append(text)
            if isinstance(f, ast.Attribute) and f.attr == "append" and \
                    (is_self_attr(f.value, "emitter") or
                     (is_name(f.value, "emitter") and env.get("emitter") is not None and env["emitter"].kind == "emitter")):
                if len(c.args) != 1 or c.keywords:
                    fail(s, "append form")
                return self.emit_stmt(c.args[0], env, cont)
            # self._emit_switch(test, cases, handler)
            if is_self_attr(f, "_emit_switch"):
                if len(c.args) != 3 or c.keywords:
                    fail(s, "_emit_switch form")
                return self.emit_switch(s, [self.ev(a, env) for a in c.args], env, cont)
            v = self.ev_call_or_val(c, env)
            if v.kind == "action":
                return f"(let nx_ := {v.coq} in\n {cont(env)})"
            fail(s, "call statement")
        if isinstance(s, ast.If):
            r = self.static_test(s.test)
            if r is True:
                return self.block(list(s.body), env, cont)
            if r is False:
                return self.block(list(s.orelse), env, cont)
            # `not <list>`
            t = s.test
            if isinstance(t, ast.UnaryOp) and isinstance(t.op, ast.Not) and is_name(t.operand) and \
                    env.get(t.operand.id) is not None and env[t.operand.id].kind in ("stmts", "list"):
                cond = f"(match {env[t.operand.id].coq} with [] => true | _ :: _ => false end)"
            else:
                v = self.ev(t, env)
                if v.kind != "bool":
                    fail(s, "condition")
                cond = v.coq
            if self.mode == "method":
                fail(s, "run-time condition outside a closure")
            a = self.block(list(s.body), env, cont)
            b = self.block(list(s.orelse), env, cont)
            return f"(if {cond}\n then {a}\n else {b})"
        if isinstance(s, ast.For):
            if s.orelse or not is_name(s.target):
                fail(s, "for loop form")
            it = self.ev(s.iter, env)
            if it.kind == "list":
                ekind = it.elem
            elif it.kind == "stmts":
                ekind = "stmt"
            else:
                fail(s, "for over a non-list")
            for n in ast.walk(ast.Module(body=s.body, type_ignores=[])):
                if isinstance(n, (ast.Break, ast.Continue, ast.Return)):
                    fail(n, "break/continue/return in a loop")
            tname = s.target.id
            check_ident(tname, s)
            accs = sorted(n for n in P.assigned_names(s.body) if n in env and n != tname)
            for a in accs:
                if env[a].kind != "Z":
                    fail(s, f"accumulator {a} of kind {env[a].kind}")
            loop, lst, tl = self.fresh("loop"), self.fresh("rest"), self.fresh("tl")
            after = {n: v for n, v in env.items() if n != tname}
            nil = self.block(rest, after, k)
            benv = dict(env)
            benv[tname] = Val(ekind, tname)

            def again(e):
                for a in accs:
                    if e[a].kind != "Z":
                        fail(s, f"accumulator {a} changes kind")
                return "(" + " ".join([loop, tl] + accs + ["nx_"]) + ")"
            cons = self.block(list(s.body), benv, again)
            ps = "".join(f" ({a} : Z)" for a in accs)
            return (f"((fix {loop} ({lst} : list {COQTY[ekind]}){ps} (nx_ : Ast.env) {{struct {lst}}} : Ast.env :=\n"
                    f"   match {lst} with\n   | [] => {nil}\n   | {tname} :: {tl} => {cons}\n   end) "
                    + " ".join([it.coq] + [env[a].coq for a in accs] + ["nx_"]) + ")")
        fail(s, "statement")

    def ev_call_or_val(self, node, env):
        """Value of an expression that may be an application closure(text)."""
        if isinstance(node, ast.Call) and len(node.args) == 1 and not node.keywords and \
                not (is_name(node.func) and node.func.id == "len"):
            inner = node.func
            # closure(text): the callee is itself a call / a local closure
            if isinstance(inner, ast.Call) or (is_name(inner) and inner.id in env and env[inner.id].kind in ("func", "gen")):
                g = self.ev(inner, env) if not is_name(inner) else env[inner.id]
                if g.kind == "func":
                    g = Val("gen", fn=self.closure_of(g.fn, g.env, 1), env=g.env, rec=None)
                if g.kind == "gen":
                    t = self.ev(node.args[0], env)
                    return Val("action", self.apply(g, t, node))
        return self.ev(node, env)

    def emit_switch(self, s, args, env, cont):
        test, cases, handler = args
        if test.kind != "text" or not test.atomic or cases.kind != "cases" or handler.kind != "func":
            fail(s, "_emit_switch argument kinds")
        fn = handler.fn
        nparams = {"expr": 2, "stmts": 3}[cases.body]
        self.closure_of(fn, handler.env, nparams)
        names = [a.arg for a in fn.args.args]
        henv = dict(handler.env)
        henv[names[0]] = Val("optpats", names[0])
        henv[names[1]] = Val(cases.body, names[1])
        if nparams == 3:
            henv[names[2]] = Val("unavailable")     # src_loc of a statement case: not in the model
        self.u.visited.add(id(fn))
        body = self.block(list(fn.body), henv, lambda e: "nx_")
        sw, cs, tl = self.fresh("sw"), self.fresh("cs"), self.fresh("tl")
        ety = {"expr": "Ast.expr", "stmts": "list Stmt.stmt"}[cases.body]
        return (f"(let nx_ :=\n  (let um_ := PyRTL.use_match (map fst {cases.coq}) in\n"
                f"   (fix {sw} ({cs} : list (option (list Ast.pattern) * {ety})) {{struct {cs}}} : Ast.env :=\n"
                f"      match {cs} with\n      | [] => nx_\n"
                f"      | ({names[0]}, {names[1]}) :: {tl} =>\n"
                f"          if PyRTL.rtl_case_match um_ {test.coq} {names[0]}\n          then {body}\n          else {sw} {tl}\n"
                f"      end) {cases.coq}) in\n {cont(env)})")

    def mark(self, s):
        for n in ast.walk(s):
            if isinstance(n, ast.stmt):
                self.u.visited.add(id(n))

    def mark_header(self, s):
        self.u.visited.add(id(s))

    # ------------------------------------------------------------------ entry points
    def run_method(self, fn, dispval):
        """Execute a method body up to its `return`: the result is a closure / action."""
        self.dispval = dispval
        self.mode = "method"
        env = {self.disp: dispval}
        r = self.block_method(list(fn.body), env)
        return r

    def block_method(self, stmts, env):
        # the method level is straight-line: skip / def / static if / return / raise;
        # `block` returns a Val for return / raise at method level
        def k(e):
            fail(stmts[-1], "method falls off its end")
        return self.block(stmts, env, k)


class Unit:
    def __init__(self):
        root = os.environ.get("VERIF_REPO", "/repo")
        with open(os.path.join(root, SRC)) as f:
            self.tree = ast.parse(f.read())
        with open(os.path.join(root, XFRM)) as f:
            self.xfrm = ast.parse(f.read())
        self.visited = set()

    def method(self, cls, name, params):
        fn = find_function(self.tree, f"{cls}.{name}")
        a = fn.args
        if [x.arg for x in a.args] != params or a.vararg or a.kwarg or a.kwonlyargs or a.defaults or a.posonlyargs \
                or fn.decorator_list:
            raise Unsupported(f"{cls}.{name}: signature changed")
        return fn

    # ---- dispatch tables of the visitors
    def check_dispatch(self, cls, meth, var, result, wanted):
        fn = find_function(self.xfrm, f"{cls}.{meth}")
        chain = [s for s in fn.body if isinstance(s, ast.If)]
        if not chain:
            raise Unsupported(f"{cls}.{meth}: no dispatch chain")
        node, seen, order = chain[0], {}, []
        while True:
            t = ast.unparse(node.test)
            m = re.fullmatch(rf"type\({var}\) is (\w+)", t) or re.fullmatch(rf"isinstance\({var}, (\w+)\)", t)
            if not m or len(node.body) != 1:
                raise Unsupported(f"{cls}.{meth}: dispatch test {t!r}")
            b = ast.unparse(node.body[0])
            m2 = re.fullmatch(rf"{result} = self\.(\w+)\({var}\)", b)
            if not m2:
                raise Unsupported(f"{cls}.{meth}: dispatch body {b!r}")
            seen[m.group(1)] = (m2.group(1), t.startswith("type("))
            order.append(m.group(1))
            if len(node.orelse) == 1 and isinstance(node.orelse[0], ast.If):
                node = node.orelse[0]
            else:
                break
        for c, (m, exact) in wanted.items():
            if c not in seen or seen[c][0] != m or seen[c][1] != exact:
                raise Unsupported(f"{cls}.{meth}: class {c} is not dispatched to {m}")
        # the isinstance(Iterable) test must come after the exact-type tests it could shadow
        for c, (m, exact) in wanted.items():
            if not exact and any(order.index(c) < order.index(d) for d, (_, e) in wanted.items() if e):
                raise Unsupported(f"{cls}.{meth}: dispatch order changed")
        call = find_function(self.xfrm, f"{cls}.__call__")
        if ast.unparse(call.body[-1]) != f"return self.{meth}({var})" or len(call.body) != 1:
            raise Unsupported(f"{cls}.__call__ changed")

    def check_pinned(self):
        for q, text in PINNED.items():
            fn = find_function(self.tree, q)
            if ast.unparse(fn) != text:
                raise Unsupported(f"{q} changed (pinned text): {PINNED_WHY[q]}")
        for cls, bases in (("_LHSValueCompiler", ["_ValueCompiler"]), ("_ValueCompiler", ["ValueVisitor", "_Compiler"]),
                           ("_StatementCompiler", ["StatementVisitor", "_Compiler"])):
            c = find_function(self.tree, cls)
            if [ast.unparse(b) for b in c.bases] != bases:
                raise Unsupported(f"bases of {cls} changed")
        # methods of the two classes: exactly the ones handled / declared out of the model
        want = {"_LHSValueCompiler": ["__init__", "on_Const", "on_Signal", "on_Operator", "on_Slice", "on_Part",
                                      "on_Concat", "on_SwitchValue"],
                "_StatementCompiler": ["__init__", "on_statements", "on_Assign", "on_Switch", "emit_format", "on_Print",
                                       "on_Property", "compile"]}
        for cls, names in want.items():
            c = find_function(self.tree, cls)
            got = [n.name for n in c.body if isinstance(n, ast.FunctionDef)]
            if got != names:
                raise Unsupported(f"methods of {cls} changed: {got}")
            if any(isinstance(n, ast.Assign) and ast.unparse(n.targets[0]) == "__call__" for n in c.body):
                raise Unsupported(f"{cls} overrides __call__")

    # ---- helpers["sign"]
    def helper_sign(self):
        c = find_function(self.tree, "_ValueCompiler")
        for n in c.body:
            if isinstance(n, ast.Assign) and ast.unparse(n.targets[0]) == "helpers" and isinstance(n.value, ast.Dict):
                for kk, vv in zip(n.value.keys, n.value.values):
                    if isinstance(kk, ast.Constant) and kk.value == "sign":
                        if not isinstance(vv, ast.Lambda) or [a.arg for a in vv.args.args] != ["value", "sign"] or \
                                vv.args.defaults or vv.args.vararg or vv.args.kwarg:
                            raise Unsupported("helpers['sign'] form")
                        ctx = Ctx({"value": "Z", "sign": "Z"})
                        binds = []
                        e, t = tr_expr(ctx, vv.body, binds)
                        if binds or t != "Z":
                            raise Unsupported("helpers['sign'] body")
                        return f"Definition helper_sign (value sign : Z) : Z :=\n  {e}.\n\n"
        raise Unsupported("helpers['sign'] not found")

    # ---- __init__ methods: which compiler is stored where
    def init_attrs(self):
        rhsc_curr = None
        # _StatementCompiler.__init__
        fn = find_function(self.tree, "_StatementCompiler.__init__")
        if ast.unparse(fn.args) != "self, state, emitter, *, inputs=None, outputs=None":
            raise Unsupported("_StatementCompiler.__init__ signature changed")
        sattrs = {"emitter": Val("emitter"), "state": Val("state")}
        lhs_kwargs = None
        for s in fn.body:
            t = ast.unparse(s)
            if t in SKIP:
                continue
            if isinstance(s, ast.Assign) and len(s.targets) == 1 and is_self_attr(s.targets[0]) and \
                    isinstance(s.value, ast.Call) and is_name(s.value.func):
                c, attr = s.value, s.targets[0].attr
                if [ast.unparse(a) for a in c.args] != ["state", "emitter"]:
                    fail(s, "compiler constructor arguments")
                kw = {k.arg: k.value for k in c.keywords}
                if c.func.id == "_RHSValueCompiler" and attr == "rhs":
                    sattrs[attr] = self.mk_rhsc(s, kw, {})
                    continue
                if c.func.id == "_LHSValueCompiler" and attr == "lhs":
                    if set(kw) != {"rhs", "outputs"} or not is_self_attr(kw["rhs"]) or kw["rhs"].attr not in sattrs:
                        fail(s, "_LHSValueCompiler constructor keywords")
                    lhs_kwargs = {"rhs": sattrs[kw["rhs"].attr]}
                    sattrs[attr] = Val("lhsc")
                    continue
            fail(s, "_StatementCompiler.__init__ statement")
        if lhs_kwargs is None or "rhs" not in sattrs:
            raise Unsupported("_StatementCompiler.__init__: compilers not constructed")
        # _LHSValueCompiler.__init__
        fn = find_function(self.tree, "_LHSValueCompiler.__init__")
        if ast.unparse(fn.args) != "self, state, emitter, *, rhs, outputs=None":
            raise Unsupported("_LHSValueCompiler.__init__ signature changed")
        lattrs = {"emitter": Val("emitter"), "state": Val("state")}
        local = {"rhs": lhs_kwargs["rhs"]}
        for s in fn.body:
            t = ast.unparse(s)
            if t in SKIP:
                continue
            if isinstance(s, ast.Assign) and len(s.targets) == 1 and is_self_attr(s.targets[0]):
                attr = s.targets[0].attr
                if is_name(s.value) and s.value.id in local:
                    lattrs[attr] = local[s.value.id]
                    continue
                if isinstance(s.value, ast.Call) and is_name(s.value.func, "_RHSValueCompiler") and \
                        [ast.unparse(a) for a in s.value.args] == ["state", "emitter"]:
                    lattrs[attr] = self.mk_rhsc(s, {k.arg: k.value for k in s.value.keywords}, local)
                    continue
            fail(s, "_LHSValueCompiler.__init__ statement")
        for a in ("rrhs", "lrhs"):
            if a not in lattrs:
                raise Unsupported(f"_LHSValueCompiler.__init__: self.{a} not set")
        return sattrs, lattrs

    def mk_rhsc(self, s, kw, local):
        if "mode" not in kw or not (isinstance(kw["mode"], ast.Constant) and kw["mode"].value in ("curr", "next")):
            fail(s, "mode of the RHS compiler")
        rrhs = None
        for k, v in kw.items():
            if k == "mode":
                continue
            if k == "inputs":
                continue                           # bookkeeping set of read signals (wakers); emits no code
            if k == "rrhs":
                if not (is_name(v) and v.id in local and local[v.id].kind == "rhsc"):
                    fail(s, "rrhs argument")
                rrhs = local[v.id]
                continue
            fail(s, f"keyword {k} of _RHSValueCompiler")
        return Val("rhsc", mode=kw["mode"].value, rrhs=rrhs)

    # ---- process skeleton of _FragmentCompiler.__call__: the per-signal statements and their order
    def skeleton(self):
        fn = self.method("_FragmentCompiler", "__call__", ["self", "fragment"])
        one = lambda l, what: l[0] if len(l) == 1 else (_ for _ in ()).throw(Unsupported(f"__call__: {what}: found {len(l)}"))
        dom = one([x for x in fn.body if isinstance(x, ast.For) and ast.unparse(x.target) == "domain_name"], "domain loop")
        body = dom.body
        top = one([x for x in body if isinstance(x, ast.If) and ast.unparse(x.test) == "domain_name == 'comb'"],
                  "comb/sync branch")
        comb, sync = top.body, top.orelse
        mloops = lambda st: [x for x in st if isinstance(x, ast.For) and ast.unparse(x.iter) == "lhs_masks.masks()"]
        idx = lambda st, text: one([i for i, x in enumerate(st) if ast.unparse(x) == text], text)
        pre = [ast.unparse(x) for x in body[:body.index(top)]]
        for need in ("lhs_masks = LHSMaskCollector()", "lhs_masks.visit_stmt(domain_stmts)", "emitter = _PythonEmitter()"):
            if pre.count(need) != 1:
                raise Unsupported(f"__call__: expected statement {need!r} before the comb/sync branch")
        # comb: next = init, then the statements
        l_init = one(mloops(comb), "comb init loop")
        if not comb.index(l_init) < idx(comb, "_StatementCompiler(self.state, emitter, inputs=inputs)(domain_stmts)"):
            raise Unsupported("__call__: comb: the init loop must precede the statements")
        # sync: next = slots.next, then the statements, then the reset
        l_load = one(mloops(sync), "sync load loop")
        i_st = idx(sync, "_StatementCompiler(self.state, emitter)(domain_stmts)")
        rstif = one([x for x in sync if isinstance(x, ast.If) and ast.unparse(x.test) == "domain.rst is not None"
                     and sync.index(x) > i_st], "reset block after the statements")
        if not sync.index(l_load) < i_st or rstif.orelse:
            raise Unsupported("__call__: sync: order load / statements / reset changed")
        rb = rstif.body
        i_c = idx(rb, "rhs = _RHSValueCompiler(self.state, emitter, mode='curr')")
        i_r = idx(rb, "rst = rhs(domain.rst)")
        i_t = one([i for i, x in enumerate(rb) if isinstance(x, ast.Assign) and ast.unparse(x.targets[0]) == "rst"
                   and isinstance(x.value, ast.JoinedStr)], "rst test text")
        i_if = idx(rb, "emitter.append(f'if {rst}:')")
        w = rb[-1]
        if not (i_c < i_r < i_t < i_if == len(rb) - 2) or not isinstance(w, ast.With) or \
                [ast.unparse(i) for i in w.items] != ["emitter.indent()"] or len(w.body) != 2 or \
                ast.unparse(w.body[0]) != "emitter.append('pass')" or mloops(w.body) != [w.body[1]]:
            raise Unsupported("__call__: reset block structure changed")
        l_rst = w.body[1]
        # update of the slots: last, after both branches
        l_fin = one(mloops(body), "final update loop")
        if body.index(l_fin) < body.index(top):
            raise Unsupported("__call__: the update loop must follow the process body")

        params = "(i_ : nat) (s_ : Bits.shape) (init_ : Z) (reset_less_ : bool)"
        out = ""

        def snippet(name, loop, extra_params, extra_env, wrap=lambda b: b):
            tg = ast.unparse(loop.target)
            if tg not in ("(signal, mask)", "(signal, _)") or loop.orelse:
                raise Unsupported(f"__call__: loop target {tg}")
            c = Ctor("sig", "Signal", {"init": Val("Z", "init_"), "reset_less": Val("bool", "reset_less_")}, slot="i_")
            sym = Sym(self, "_FragmentCompiler", "signal", c, {"state": Val("state")})
            sym.skeleton, sym.mode = True, "closure"
            sym.dispval = Val("expr", "(Ast.ESig i_ s_)")
            env = {"signal": sym.dispval, "emitter": Val("emitter"), "read_data": Val("emptyset")}
            if tg == "(signal, mask)":
                env["mask"] = Val("Z", "mask")
                extra_params = extra_params + " (mask : Z)"
            env.update(extra_env)
            b = sym.block(list(loop.body), env, lambda e: "(nx_, sl_)")
            for n in ast.walk(loop):
                if isinstance(n, ast.stmt) and n is not loop and id(n) not in self.visited:
                    raise Unsupported(f"line {n.lineno}: statement of the {name} loop not translated: {ast.unparse(n)[:80]}")
            return (f"Definition {name} {params}{extra_params} (curr_ nx_ sl_ : Ast.env) : Ast.env * Ast.env :=\n"
                    f" {wrap(b)}.\n\n")
        out += snippet("comb_init_gen", l_init, "", {})
        out += snippet("sync_load_gen", l_load, "", {})
        # the emitted `if (1 & <rst>):` guards the reset assignments
        sym = Sym(self, "_FragmentCompiler", None, None, {})
        sym.dispval = None
        t = sym.template_expr(rb[i_t].value, {"rst": Val("text", "rstv", atomic=True)})
        out += snippet("sync_reset_gen", l_rst, " (rstv : Z)", {},
                       lambda b: f"(if (negb (Z.eqb {t.coq} 0))\n then {b}\n else (nx_, sl_))")
        out += snippet("final_update_gen", l_fin, "", {})
        return out

    # ---- coverage: every statement of the translated methods was executed for some constructor
    def check_coverage(self, fn):
        for n in ast.walk(fn):
            if isinstance(n, ast.stmt) and n is not fn and id(n) not in self.visited:
                raise Unsupported(f"line {n.lineno}: statement of {fn.name} never translated: {ast.unparse(n)[:80]}")

    def gen(self):
        self.check_pinned()
        self.check_dispatch("ValueVisitor", "on_value", "value", "new_value",
                            {"Const": ("on_Const", True), "Signal": ("on_Signal", True),
                             "Operator": ("on_Operator", True), "Slice": ("on_Slice", True), "Part": ("on_Part", True),
                             "Concat": ("on_Concat", True), "SwitchValue": ("on_SwitchValue", True)})
        self.check_dispatch("StatementVisitor", "on_statement", "stmt", "new_stmt",
                            {"Assign": ("on_Assign", True), "Switch": ("on_Switch", True),
                             "Iterable": ("on_statements", False)})
        sattrs, lattrs = self.init_attrs()
        out = (f"(* GENERATED by /verif/translator/unit_pyrtl_lhs.py from {SRC} — do not edit *)\n"
               "From Coq Require Import ZArith List Bool.\n"
               "From V.Model Require Import Bits Shape Ast.\n"
               "From V.Model Require PyRTL Stmt Process.\n"
               "Import ListNotations.\nOpen Scope Z_scope.\nOpen Scope bool_scope.\n\n")
        out += self.helper_sign()
        # ---- _LHSValueCompiler
        branches, fns = [], []
        for c in expr_ctors():
            fn = self.method("_LHSValueCompiler", "on_" + c.cls, ["self", "value"])
            fns.append(fn)
            sym = Sym(self, "_LHSValueCompiler", "value", c, lattrs)
            dv = Val("expr", "value")
            g = sym.run_method(fn, dv)
            if not isinstance(g, Val) or g.kind != "gen":
                raise Unsupported(f"on_{c.cls}: does not return a closure")
            sym.mode = "closure"
            body = sym.apply(g, Val("text", "(arg nx_)", atomic=True), fn)
            branches.append(f"  | {c.pat} =>\n {body}")
        for fn in fns:
            self.check_coverage(fn)
        out += ("Fixpoint lhs_gen (curr_ : Ast.env) (value : Ast.expr) (arg : Ast.env -> Z) (nx_ : Ast.env) "
                "{struct value} : Ast.env :=\n  match value with\n" + "\n".join(branches) + "\n  end.\n\n")
        # ---- _StatementCompiler
        branches, fns = [], []
        for c in stmt_ctors():
            fn = self.method("_StatementCompiler", "on_" + c.cls, ["self", "stmt"])
            fns.append(fn)
            sym = Sym(self, "_StatementCompiler", "stmt", c, sattrs)
            sym.dispval = Val("stmt", "stmt")
            sym.mode = "closure"
            body = sym.block(list(fn.body), {"stmt": sym.dispval}, lambda e: "nx_")
            if isinstance(body, Val):
                if body.kind != "action":
                    raise Unsupported(f"on_{c.cls}: result")
                body = body.coq
            branches.append(f"  | {c.pat} =>\n {body}")
        out += ("Fixpoint stmt_gen (curr_ : Ast.env) (stmt : Stmt.stmt) (nx_ : Ast.env) {struct stmt} : Ast.env :=\n"
                "  match stmt with\n" + "\n".join(branches) + "\n  end.\n\n")
        fn = self.method("_StatementCompiler", "on_statements", ["self", "stmts"])
        fns.append(fn)
        sym = Sym(self, "_StatementCompiler", None, None, sattrs)
        sym.dispval = None
        sym.mode = "closure"
        body = sym.block(list(fn.body), {"stmts": Val("stmts", "stmts")}, lambda e: "nx_")
        out += ("Definition stmts_gen (curr_ : Ast.env) (stmts : list Stmt.stmt) (nx_ : Ast.env) : Ast.env :=\n"
                f" {body}.\n")
        for fn in fns:
            self.check_coverage(fn)
        out += "\n" + self.skeleton()
        return out


def unit():
    return {"PyRTLLhsGen.v": Unit().gen()}

"""Fail-closed translator from a small subset of Python (integer/boolean arithmetic,
if/elif/else, return, raise, accumulator for-loops) to Gallina.

Every construct outside the subset raises Unsupported: the caller reports the unit as a
broken obligation.  The mapping of Python operators to Z functions is part of the trusted base:
  //  -> Z.div      %  -> Z.modulo   <<  -> Z.shiftl   >>  -> Z.shiftr
  &   -> Z.land     |  -> Z.lor      ^   -> Z.lxor     ~   -> Z.lnot
  int.bit_length() -> Bits.bit_length,  max/min -> Z.max/Z.min
Functions are translated to `option T` (None = an exception was raised).
"""
import ast


class Unsupported(Exception):
    pass


def fail(node, why):
    raise Unsupported(f"line {getattr(node, 'lineno', '?')}: {why}: {ast.dump(node)[:200]}")


BINOPS = {
    ast.Add: "Z.add", ast.Sub: "Z.sub", ast.Mult: "Z.mul", ast.FloorDiv: "Z.div",
    ast.Mod: "Z.modulo", ast.LShift: "Z.shiftl", ast.RShift: "Z.shiftr",
    ast.BitAnd: "Z.land", ast.BitOr: "Z.lor", ast.BitXor: "Z.lxor", ast.Pow: "Z.pow",
}
CMPOPS = {
    ast.Lt: "Z.ltb", ast.LtE: "Z.leb", ast.Eq: "Z.eqb",
}


class Ctx:
    """Translation context for one unit."""
    def __init__(self, types, partial_funcs=None, total_funcs=None, attrs=None, specials=None,
                 consts=None):
        self.types = dict(types)               # variable -> 'Z' | 'bool' | 'shape' | 'str'
        self.partial = dict(partial_funcs or {})   # python name -> (coq name, result type)
        self.total = dict(total_funcs or {})       # python name -> (coq name, result type)
        self.attrs = dict(attrs or {})             # attribute -> (coq projection, type)
        self.specials = specials or (lambda ctx, node: None)
        self.consts = dict(consts or {})
        self.fresh = 0

    def newvar(self):
        self.fresh += 1
        return f"t{self.fresh}_"


def paren(s):
    return f"({s})"


def tr_expr(ctx, node, binds):
    """Returns (coq, type). Partial calls are appended to `binds` as (var, coq_call)."""
    sp = ctx.specials(ctx, node)
    if sp is not None:
        return sp
    if isinstance(node, ast.Constant):
        if node.value is True:
            return "true", "bool"
        if node.value is False:
            return "false", "bool"
        if isinstance(node.value, int):
            return paren(str(node.value)), "Z"
        if isinstance(node.value, str):
            return '"' + node.value + '"', "str"
        fail(node, "constant")
    if isinstance(node, ast.Name):
        if node.id in ctx.consts:
            return ctx.consts[node.id]
        if node.id not in ctx.types:
            fail(node, "unknown variable")
        return node.id, ctx.types[node.id]
    if isinstance(node, ast.BinOp):
        if type(node.op) not in BINOPS:
            fail(node, "binary operator")
        l, lt = tr_expr(ctx, node.left, binds)
        r, rt = tr_expr(ctx, node.right, binds)
        if lt == "bool":
            l, lt = f"(Z.b2z {l})", "Z"
        if rt == "bool":
            r, rt = f"(Z.b2z {r})", "Z"
        if lt != "Z" or rt != "Z":
            fail(node, "non-integer operands")
        return f"({BINOPS[type(node.op)]} {l} {r})", "Z"
    if isinstance(node, ast.UnaryOp):
        v, t = tr_expr(ctx, node.operand, binds)
        if isinstance(node.op, ast.USub) and t == "Z":
            return f"(Z.opp {v})", "Z"
        if isinstance(node.op, ast.Invert) and t == "Z":
            return f"(Z.lnot {v})", "Z"
        if isinstance(node.op, ast.Not):
            return f"(negb {as_bool(v, t, node)})", "bool"
        fail(node, "unary operator")
    if isinstance(node, ast.Compare):
        parts = []
        left = node.left
        for op, right in zip(node.ops, node.comparators):
            parts.append(tr_cmp(ctx, left, op, right, binds, node))
            left = right
        out = parts[0]
        for p in parts[1:]:
            out = f"({out} && {p})"
        return out, "bool"
    if isinstance(node, ast.BoolOp):
        sub = []
        for v in node.values:
            b2 = []
            c, t = tr_expr(ctx, v, b2)
            if b2:
                fail(node, "partial call under short-circuit operator")
            sub.append(as_bool(c, t, v))
        op = " && " if isinstance(node.op, ast.And) else " || "
        return "(" + op.join(sub) + ")", "bool"
    if isinstance(node, ast.IfExp):
        b2 = []
        c, ct = tr_expr(ctx, node.test, binds)
        a, at = tr_expr(ctx, node.body, b2)
        b, bt = tr_expr(ctx, node.orelse, b2)
        if b2 or at != bt:
            fail(node, "conditional expression")
        return f"(if {as_bool(c, ct, node)} then {a} else {b})", at
    if isinstance(node, ast.Attribute):
        if node.attr in ctx.attrs:
            v, t = tr_expr(ctx, node.value, binds)
            proj, ty = ctx.attrs[node.attr]
            return f"({proj} {v})", ty
        fail(node, "attribute")
    if isinstance(node, ast.Tuple):
        items = [tr_expr(ctx, e, binds) for e in node.elts]
        return "(" + ", ".join(i[0] for i in items) + ")", "(" + "*".join(i[1] for i in items) + ")"
    if isinstance(node, ast.Call):
        f = node.func
        if node.keywords and not (isinstance(f, ast.Name) and f.id == "Shape"):
            fail(node, "keyword arguments")
        if isinstance(f, ast.Attribute) and f.attr == "bit_length" and not node.args:
            v, t = tr_expr(ctx, f.value, binds)
            if t != "Z":
                fail(node, "bit_length of non-int")
            return f"(bit_length {v})", "Z"
        if isinstance(f, ast.Attribute) and isinstance(f.value, ast.Name) and \
                f.value.id == "operator" and f.attr == "index" and len(node.args) == 1:
            return tr_expr(ctx, node.args[0], binds)
        if isinstance(f, ast.Name):
            args = [tr_expr(ctx, a, binds) for a in node.args]
            if f.id in ("max", "min") and len(args) == 2 and all(a[1] == "Z" for a in args):
                return f"(Z.{f.id} {args[0][0]} {args[1][0]})", "Z"
            if f.id in ("int", "bool") and len(args) == 1:
                if f.id == "int" and args[0][1] == "Z":
                    return args[0]
                if f.id == "bool":
                    return as_bool(args[0][0], args[0][1], node), "bool"
            if f.id == "Shape":
                kw = {k.arg: tr_expr(ctx, k.value, binds) for k in node.keywords}
                if len(args) == 2 and not kw:
                    return f"(Sh {args[0][0]} {as_bool(*args[1], node)})", "shape"
                if len(args) == 1 and set(kw) == {"signed"}:
                    return f"(Sh {args[0][0]} {as_bool(*kw['signed'], node)})", "shape"
                if len(args) == 1 and not kw:
                    return f"(Sh {args[0][0]} false)", "shape"
                fail(node, "Shape() call form")
            if f.id == "unsigned" and len(args) == 1:
                return f"(Sh {args[0][0]} false)", "shape"
            if f.id == "signed" and len(args) == 1:
                return f"(Sh {args[0][0]} true)", "shape"
            if f.id in ctx.total:
                cn, ty = ctx.total[f.id]
                return "(" + " ".join([cn] + [a[0] for a in args]) + ")", ty
            if f.id in ctx.partial:
                cn, ty = ctx.partial[f.id]
                v = ctx.newvar()
                binds.append((v, "(" + " ".join([cn] + [a[0] for a in args]) + ")"))
                ctx.types[v] = ty
                return v, ty
        fail(node, "call")
    fail(node, "expression")


def tr_cmp(ctx, left, op, right, binds, node):
    l, lt = tr_expr(ctx, left, binds)
    r, rt = tr_expr(ctx, right, binds)
    if lt == "bool" and rt == "bool" and isinstance(op, (ast.Eq, ast.NotEq)):
        e = f"(Bool.eqb {l} {r})"
        return e if isinstance(op, ast.Eq) else f"(negb {e})"
    if lt == "str" and rt == "str" and isinstance(op, (ast.Eq, ast.NotEq)):
        e = f"(String.eqb {l} {r})"
        return e if isinstance(op, ast.Eq) else f"(negb {e})"
    if isinstance(op, ast.In) and lt == "str" and isinstance(right, ast.Tuple):
        alts = [tr_expr(ctx, e, binds) for e in right.elts]
        if not all(a[1] == "str" for a in alts):
            fail(node, "in-tuple of non-strings")
        return "(" + " || ".join(f"(String.eqb {l} {a[0]})" for a in alts) + ")"
    if lt != "Z" or rt != "Z":
        fail(node, "comparison of non-integers")
    if isinstance(op, ast.Gt):
        return f"(Z.ltb {r} {l})"
    if isinstance(op, ast.GtE):
        return f"(Z.leb {r} {l})"
    if isinstance(op, ast.NotEq):
        return f"(negb (Z.eqb {l} {r}))"
    if type(op) in CMPOPS:
        return f"({CMPOPS[type(op)]} {l} {r})"
    fail(node, "comparison operator")


def as_bool(c, t, node):
    if t == "bool":
        return c
    if t == "Z":
        return f"(negb (Z.eqb {c} 0))"
    fail(node, f"truth value of {t}")


def wrap_binds(binds, body):
    for v, call in reversed(binds):
        body = f"(match {call} with Some {v} => {body} | None => None end)"
    return body


def tr_block(ctx, stmts, final):
    """Translate a statement list; `final(ctx)` gives the Gallina for falling off the end."""
    if not stmts:
        return final(ctx)
    s, rest = stmts[0], stmts[1:]
    if isinstance(s, ast.Expr) and isinstance(s.value, ast.Constant) and isinstance(s.value.value, str):
        return tr_block(ctx, rest, final)
    if isinstance(s, ast.Assert):
        # `assert isinstance(...)` only
        if isinstance(s.test, ast.Call) and isinstance(s.test.func, ast.Name) and s.test.func.id == "isinstance":
            return tr_block(ctx, rest, final)
        binds = []
        c, t = tr_expr(ctx, s.test, binds)
        if binds:
            fail(s, "partial call in assert")
        return f"(if {as_bool(c, t, s)} then {tr_block(ctx, rest, final)} else None)"
    if isinstance(s, ast.Return):
        if s.value is None:
            fail(s, "bare return")
        binds = []
        v, t = tr_expr(ctx, s.value, binds)
        ctx.ret_type = t
        return wrap_binds(binds, f"(Some {v})")
    if isinstance(s, ast.Raise):
        return "None"
    if isinstance(s, (ast.Assign, ast.AugAssign)):
        binds = []
        if isinstance(s, ast.Assign):
            if len(s.targets) != 1:
                if not all(isinstance(t, ast.Name) for t in s.targets):
                    fail(s, "multiple targets")
                v, t = tr_expr(ctx, s.value, binds)
                for tg in s.targets:
                    ctx.types[tg.id] = t
                body = tr_block(ctx, rest, final)
                for tg in s.targets:
                    body = f"(let {tg.id} := {v} in {body})"
                return wrap_binds(binds, body)
            tgt = s.targets[0]
            v, t = tr_expr(ctx, s.value, binds)
        else:
            tgt = s.target
            v, t = tr_expr(ctx, ast.BinOp(left=ast.Name(id=tgt.id, ctx=ast.Load()), op=s.op, right=s.value), binds)
        if isinstance(tgt, ast.Name):
            saved = dict(ctx.types)
            ctx.types[tgt.id] = t
            body = tr_block(ctx, rest, final)
            ctx.types = saved if False else ctx.types
            return wrap_binds(binds, f"(let {tgt.id} := {v} in {body})")
        if isinstance(tgt, ast.Tuple) and all(isinstance(e, ast.Name) for e in tgt.elts) and isinstance(s.value, ast.Tuple):
            # a, b = x, y  (simultaneous)
            names = [e.id for e in tgt.elts]
            vals = [tr_expr(ctx, e, binds) for e in s.value.elts]
            tmp = [ctx.newvar() for _ in names]
            for n, (vv, tt) in zip(names, vals):
                ctx.types[n] = tt
            body = tr_block(ctx, rest, final)
            for n, tm in reversed(list(zip(names, tmp))):
                body = f"(let {n} := {tm} in {body})"
            for tm, (vv, tt) in reversed(list(zip(tmp, vals))):
                body = f"(let {tm} := {vv} in {body})"
            return wrap_binds(binds, body)
        fail(s, "assignment target")
    if isinstance(s, ast.If):
        binds = []
        c, t = tr_expr(ctx, s.test, binds)
        types0 = dict(ctx.types)
        a = tr_block(ctx, list(s.body) + rest, final)
        ctx.types = dict(types0)
        b = tr_block(ctx, list(s.orelse) + rest, final)
        return wrap_binds(binds, f"(if {as_bool(c, t, s)} then {a} else {b})")
    if isinstance(s, ast.For):
        if s.orelse or not isinstance(s.target, ast.Name) or not isinstance(s.iter, ast.Name):
            fail(s, "for loop form")
        elem_ty = ctx.types.get(s.iter.id, "")
        if not elem_ty.startswith("list "):
            fail(s, "for over non-list")
        accs = sorted(assigned_names(s.body))
        for a in accs:
            if a not in ctx.types:
                fail(s, f"accumulator {a} not initialised before loop")
        tup = "(" + ", ".join(accs) + ")" if len(accs) > 1 else accs[0]
        pat = "'" + tup if len(accs) > 1 else accs[0]
        ctx.types[s.target.id] = elem_ty[5:]
        body = tr_block(ctx, list(s.body), lambda c: tup)
        if "None" in body.split():
            fail(s, "exception inside loop")
        loop = f"(fold_left (fun {pat} {s.target.id} => {body}) {s.iter.id} {tup})"
        cont = tr_block(ctx, rest, final)
        return f"(let {pat} := {loop} in {cont})"
    fail(s, "statement")


def assigned_names(stmts):
    out = set()
    for s in stmts:
        for n in ast.walk(s):
            if isinstance(n, ast.Assign):
                for t in n.targets:
                    for e in ast.walk(t):
                        if isinstance(e, ast.Name):
                            out.add(e.id)
            elif isinstance(n, ast.AugAssign) and isinstance(n.target, ast.Name):
                out.add(n.target.id)
    return out


COQ_TYPES = {"Z": "Z", "bool": "bool", "shape": "Bits.shape", "str": "string"}


def coq_type(t):
    if t.startswith("list "):
        return f"(list {coq_type(t[5:])})"
    if t.startswith("("):
        return "(" + " * ".join(coq_type(x) for x in t[1:-1].split("*")) + ")"
    return COQ_TYPES[t]


def tr_function(ctx, name, params, stmts, no_fallthrough=True):
    """params: list of (name, type).  Returns Gallina Definition text."""
    for p, t in params:
        ctx.types[p] = t
    ctx.ret_type = None

    def final(c):
        if no_fallthrough:
            return "None"
        raise Unsupported("fall off end")
    body = tr_block(ctx, stmts, final)
    if ctx.ret_type is None:
        raise Unsupported(f"{name}: no return")
    ps = " ".join(f"({p} : {coq_type(t)})" for p, t in params)
    return f"Definition {name} {ps} : option {coq_type(ctx.ret_type)} :=\n  {body}.\n"


def find_function(tree, qualname):
    parts = qualname.split(".")
    body = tree.body
    node = None
    for p in parts:
        node = None
        for n in body:
            if isinstance(n, (ast.FunctionDef, ast.ClassDef)) and n.name == p:
                node = n
                break
        if node is None:
            raise Unsupported(f"{qualname}: not found")
        body = node.body
    return node

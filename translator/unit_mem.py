"""Translator unit "mem": the memory-port code of the Python simulator's fragment compiler
(amaranth/sim/_pyrtl.py, _FragmentCompiler.__call__, the two `if isinstance(fragment, MemoryInstance):` blocks that
emit code for the ports) and the port checks of amaranth/hdl/_mem.py  ->  coq/Gen/MemGen.v

The translated code is a *code generator*: it appends Python text to an emitter.  What is regenerated is the
DENOTATION of the emitted text, obtained by symbolic execution of the generator statements (all by walking the ast):

  sync branch, write-port loop      -> sync_write_ports : shape -> Z -> list Z -> dom -> list gwport -> wqueue -> wqueue * wdict
  sync branch, read-port loop body  -> sync_read_port   : Z -> list Z -> dom -> wdict -> grport -> Z -> option Z
  comb branch, read-port loop body  -> comb_read_port   : Z -> list Z -> grport -> Z -> Z
  MemoryInstance._WritePort._granularity (hdl/_mem.py)                 -> WritePort_granularity : gwport -> Z
  the asserts of _WritePort.__init__ / write_port / read_port / _ReadPort.__init__ (hdl/_mem.py) -> *_check : ... -> bool

  * An f-string built by the generator is turned into a Python template by replacing every `{hole}` by a placeholder
    identifier; the template is parsed with `ast.parse` and translated operator by operator (py2gallina's operator
    table).  Holes are compile-time integers (format spec none or `#x`), other texts, or the memory index in
    `slots[{memory_index}]`.
  * `emitter.def_var(p, text)` is `let p<n>_ := text` (a fresh Python variable; its text is its name); an emitted
    `x &= e` / `x |= e` on such a variable rebinds it; `emitter.append("if c:")` + `with emitter.indent():` is a
    conditional of the emitted program (truth value of an integer: non-zero).
  * Python-level `for` loops of the generator become `fold_left` over the list (accumulators = the emitted state the
    body rebinds: the memory's write queue `q_`, the dictionary `write_vals`, emitted variables);
    `if port._domain != domain_name: continue` is a conditional of the GENERATOR (decided per port).
  * `write_vals[idx]` of a missing key (KeyError while compiling) is `None` of the option-typed sync_read_port.

TRUSTED BASE of this unit (besides py2gallina's operator mapping):
  * an Amaranth value is seen as a pair (current raw value produced by the RHS compiler in mode "curr", len()):
    `rhs(x)` denotes fst, `len(x)` snd (the RHS compiler is unit "pyrtl_rhs"); iteration over a value gives its bits,
    `.replicate(n)` and `Cat(...)` are py_replicate / py_cat of the prelude (LSB first);
  * `lhs(sig)(text)` for the data signal of a read port denotes next := norm (shape of sig) text (unit "pyrtl_lhs",
    on_Signal); the loop `for port in fragment._read_ports:` runs its body once per port, each body writing only the
    `next` of that port's own data signal (the loop header is compared as text, the body is translated);
  * `slots[memory_index]` with memory_index = self.state.get_memory(fragment._data) is the _PyMemoryState of the memory:
    `.read(a)` denotes Mem.ms_read, `.write(a, v, m)` Mem.ms_write on the queue (unit "pysim", Props C11_translated_memory_*);
  * a Python dict used through `d[k] = v` / `d[k]` only is an association list (latest binding first);
  * the domain name "comb" is None, any other domain Some z;
  * SKIP below (exact text compared).
Not translated here: the rest of _FragmentCompiler.__call__ (unit "pyrtl_lhs"), in particular the `if rst:` block that
leaves the read ports' data registers alone and the final slots[i].update(next_i, mask) of every driven signal.
"""
import ast, os, sys
sys.path.insert(0, os.path.dirname(os.path.abspath(__file__)))
import py2gallina as P
from py2gallina import Unsupported, find_function, fail

NAME = "mem"
OUTPUTS = ["MemGen.v"]
SRC = "amaranth/sim/_pyrtl.py"
SRC_MEM = "amaranth/hdl/_mem.py"

# statements skipped when met (exact text)
SKIP = {
    "self.state.add_memory_waker(fragment._data, memory_waker(domain_process))":
        "registers the comb process to be woken when the memory changes (scheduling, model: comb_update runs after "
        "every commit); emits no code",
}
# asserts of hdl/_mem.py that are type checks or restate a constructor argument (exact text), not translated
ASSERT_SKIP = {
    "assert isinstance(domain, str)": "type check",
    "assert isinstance(idx, int)": "type check",
    "assert isinstance(self._en, Const)": "type check (the comb read port's enable is the constant 1)",
}

COQ_KEYWORDS = set("as at cofix else end exists exists2 fix for forall fun if IF in let match mod return then using "
                   "where with Prop Set Type SProp".split())
RESERVED = {"map", "fst", "snd", "negb", "Some", "None", "true", "false", "nat", "Z", "bool", "list", "option",
            "fold_left", "ms_read", "ms_write", "dict_get", "dict_set", "dict_empty", "enumerate", "py_bits", "py_cat",
            "py_replicate", "lhs_signal", "dom_eqb", "width", "sgn", "norm", "mask", "shape", "action", "length", "seq",
            "self"}

HEADER = """(* GENERATED by /verif/translator/unit_mem.py from {srcs} — do not edit *)
From Coq Require Import ZArith List Bool.
From V.Model Require Import Bits Mem.
Import ListNotations.
Open Scope Z_scope.
Open Scope bool_scope.

(* ---- prelude (fixed text): the reading of the Python objects, see the header of translator/unit_mem.py ---- *)
Definition dom := option Z.                      (* None = "comb" *)
Definition dom_eqb (a b : dom) : bool :=
  match a, b with Some x, Some y => x =? y | None, None => true | _, _ => false end.
Definition aval := (Z * Z)%type.                 (* (raw current value, len) of an Amaranth value *)
Record gwport := GWP { gw_domain : dom; gw_addr : aval; gw_data : aval; gw_en : aval }.
Record grport := GRP { gr_domain : dom; gr_addr : aval; gr_data : shape; gr_en : aval; gr_transparent_for : list nat }.
Definition wdict := list (nat * action).
Definition dict_empty : wdict := [].
Definition dict_set (d : wdict) (k : nat) (v : action) : wdict := (k, v) :: d.
Fixpoint dict_get (d : wdict) (k : nat) : option action :=
  match d with [] => None | (k', v) :: r => if Nat.eqb k' k then Some v else dict_get r k end.
Fixpoint enum_from {A} (n : nat) (l : list A) : list (nat * A) :=
  match l with [] => [] | x :: r => (n, x) :: enum_from (S n) r end.
Definition enumerate {A} (l : list A) : list (nat * A) := enum_from 0 l.
(* iter(value): its bits, LSB first *)
Definition py_bits (v : aval) : list aval :=
  map (fun k => (Z.b2z (Z.testbit (fst v) (Z.of_nat k)), 1)) (seq 0 (Z.to_nat (snd v))).
(* Cat(parts): the first part is the least significant *)
Fixpoint py_cat (l : list aval) : aval :=
  match l with [] => (0, 0) | x :: r => let c := py_cat r in (fst x + 2 ^ snd x * fst c, snd x + snd c) end.
(* value.replicate(n) = Cat(value for _ in range(n)) *)
Definition py_replicate (v : aval) (n : Z) : aval := py_cat (repeat v (Z.to_nat n)).
(* _LHSValueCompiler.on_Signal: next = value normalised to the signal's shape *)
Definition lhs_signal (s : shape) (v : Z) : Z := norm s v.
Definition shape_width (s : shape) : Z := width s.

(* ---- generated ---- *)
"""


def repo():
    return os.environ.get("VERIF_REPO", "/repo")


def parse(rel):
    with open(os.path.join(repo(), rel)) as f:
        return ast.parse(f.read())


class V:
    def __init__(self, kind, coq=None, **kw):
        self.kind, self.coq = kind, coq
        self.__dict__.update(kw)


def check_ident(name, node):
    if name.endswith("_") or name in COQ_KEYWORDS or name in RESERVED or not name.isidentifier() \
            or not name.isascii():
        fail(node, f"identifier {name!r} clashes with generated names")
    return name


def is_name(n, ident=None):
    return isinstance(n, ast.Name) and (ident is None or n.id == ident)


def pat(accs, quote):
    if len(accs) == 1:
        return accs[0]
    return ("'" if quote else "") + "(" + ", ".join(accs) + ")"


def tup(accs):
    return accs[0] if len(accs) == 1 else "(" + ", ".join(accs) + ")"


class Exec:
    """Symbolic execution of generator statements into one Gallina function body."""

    def __init__(self, partial, defined, granularity_ok=False):
        self.partial = partial              # option-typed result (KeyError possible)
        self.defined = list(defined)        # Coq state names in scope, in order of definition
        self.rebound = set()
        self.fresh = 0
        self.granularity_ok = granularity_ok

    def ret(self, x):
        return f"(Some {x})" if self.partial else x

    # ------------------------------------------------------------------ expressions of the generator
    def ev(self, node, env, lets):
        if isinstance(node, ast.Name):
            if node.id not in env:
                fail(node, "unknown name")
            return env[node.id]
        if isinstance(node, ast.Constant):
            if isinstance(node.value, bool) or node.value is None:
                fail(node, "constant")
            if isinstance(node.value, int):
                return V("int", f"({node.value})")
            if node.value == "comb":
                return V("dom", "(@None Z)")
            fail(node, "constant")
        if isinstance(node, ast.Attribute):
            base = self.ev(node.value, env, lets)
            a = node.attr
            if base.kind == "fragment" and a in ("_write_ports", "_read_ports"):
                return V("plist", a[1:], pk="w" if a == "_write_ports" else "r")
            if base.kind == "port":
                proj = f"(g{base.pk}{a} {base.coq})"
                if a == "_domain":
                    return V("dom", proj)
                if a in ("_addr", "_en") or (a == "_data" and base.pk == "w"):
                    return V("aval", proj)
                if a == "_data" and base.pk == "r":
                    return V("lsig", proj)
                if a == "_transparent_for" and base.pk == "r":
                    return V("natlist", proj)
                if a == "_granularity" and base.pk == "w" and self.granularity_ok:
                    return V("int", f"(WritePort_granularity {base.coq})")
            fail(node, "attribute")
        if isinstance(node, ast.JoinedStr):
            t, ty = self.template(node, env, lets, "eval")
            if ty != "Z":
                fail(node, "text is not an integer expression")
            return V("text", t)
        if isinstance(node, ast.BinOp):
            l, r = self.ev(node.left, env, lets), self.ev(node.right, env, lets)
            if l.kind != "int" or r.kind != "int" or type(node.op) not in P.BINOPS:
                fail(node, "binary operation")
            return V("int", f"({P.BINOPS[type(node.op)]} {l.coq} {r.coq})")
        if isinstance(node, ast.UnaryOp) and isinstance(node.op, ast.USub):
            v = self.ev(node.operand, env, lets)
            if v.kind != "int":
                fail(node, "unary operation")
            return V("int", f"(Z.opp {v.coq})")
        if isinstance(node, ast.UnaryOp) and isinstance(node.op, ast.Not):
            v = self.ev(node.operand, env, lets)
            if v.kind == "int":
                return V("bool", f"(Z.eqb {v.coq} 0)")
            if v.kind == "bool":
                return V("bool", f"(negb {v.coq})")
            if v.kind == "natlist":
                return V("bool", f"(Nat.eqb (length {v.coq}) 0)")
            fail(node, "not")
        if isinstance(node, ast.Compare) and len(node.ops) == 1:
            l, r = self.ev(node.left, env, lets), self.ev(node.comparators[0], env, lets)
            op = node.ops[0]
            if l.kind == "dom" and r.kind == "dom" and isinstance(op, (ast.Eq, ast.NotEq)):
                e = f"(dom_eqb {l.coq} {r.coq})"
                return V("bool", e if isinstance(op, ast.Eq) else f"(negb {e})")
            if l.kind == "int" and r.kind == "int":
                if isinstance(op, ast.Eq):
                    return V("bool", f"(Z.eqb {l.coq} {r.coq})")
                if isinstance(op, ast.NotEq):
                    return V("bool", f"(negb (Z.eqb {l.coq} {r.coq}))")
            if l.kind == "nat" and r.kind == "natrange" and isinstance(op, ast.In):
                return V("bool", f"(Nat.ltb {l.coq} {r.coq})")
            fail(node, "comparison")
        if isinstance(node, ast.Tuple):
            return V("tuple", None, items=[self.ev(e, env, lets) for e in node.elts])
        if isinstance(node, ast.Call):
            return self.ev_call(node, env, lets)
        fail(node, "expression")

    def ev_call(self, node, env, lets):
        f = node.func
        if is_name(f, "len") and len(node.args) == 1 and not node.keywords:
            v = self.ev(node.args[0], env, lets)
            if v.kind == "aval":
                return V("int", f"(snd {v.coq})")
            if v.kind == "lsig":
                return V("int", f"(shape_width {v.coq})")
            if v.kind == "plist":
                return V("natlen", f"(length {v.coq})")
            fail(node, "len")
        if is_name(f, "range") and len(node.args) == 1 and not node.keywords:
            v = self.ev(node.args[0], env, lets)
            if v.kind != "natlen":
                fail(node, "range")
            return V("natrange", v.coq)
        if is_name(f, "enumerate") and len(node.args) == 1 and not node.keywords:
            v = self.ev(node.args[0], env, lets)
            if v.kind != "plist":
                fail(node, "enumerate")
            return V("enum", f"(enumerate {v.coq})", pk=v.pk)
        if is_name(f, "Cat") and len(node.args) == 1 and not node.keywords and isinstance(node.args[0], ast.GeneratorExp):
            g = node.args[0]
            if len(g.generators) != 1 or g.generators[0].ifs or g.generators[0].is_async \
                    or not isinstance(g.generators[0].target, ast.Name):
                fail(node, "generator expression")
            it = self.ev(g.generators[0].iter, env, lets)
            if it.kind != "aval":
                fail(node, "iteration over a non-value")
            x = check_ident(g.generators[0].target.id, node)
            l2 = []
            elt = self.ev(g.elt, {**env, x: V("aval", x)}, l2)
            if l2 or elt.kind != "aval":
                fail(node, "generator element")
            return V("aval", f"(py_cat (map (fun {x} => {elt.coq}) (py_bits {it.coq})))")
        if isinstance(f, ast.Attribute) and f.attr == "replicate" and len(node.args) == 1 and not node.keywords:
            v, n = self.ev(f.value, env, lets), self.ev(node.args[0], env, lets)
            if v.kind != "aval" or n.kind != "int":
                fail(node, "replicate")
            return V("aval", f"(py_replicate {v.coq} {n.coq})")
        if isinstance(f, ast.Name) and f.id in env and env[f.id].kind == "rhs" and len(node.args) == 1 \
                and not node.keywords:
            v = self.ev(node.args[0], env, lets)
            if v.kind != "aval":
                fail(node, "rhs() of a non-value")
            return V("text", f"(fst {v.coq})")
        if isinstance(f, ast.Attribute) and f.attr == "def_var" and is_name(f.value) and \
                env.get(f.value.id, V("")).kind == "emitter" and len(node.args) == 2 and not node.keywords \
                and isinstance(node.args[0], ast.Constant) and isinstance(node.args[0].value, str):
            t = self.ev(node.args[1], env, lets)
            if t.kind != "text":
                fail(node, "def_var of a non-text")
            prefix = node.args[0].value
            if not prefix.isidentifier():
                fail(node, "def_var prefix")
            self.fresh += 1
            name = f"{prefix}{self.fresh}_"
            lets.append((name, t.coq))
            self.defined.append(name)
            return V("text", name, var=name)
        if ast.unparse(node) == "self.state.get_memory(fragment._data)":
            return V("memidx")
        if is_name(f, "_RHSValueCompiler"):
            kw = {k.arg: k.value for k in node.keywords}
            if [ast.unparse(a) for a in node.args] != ["self.state", "emitter"] or \
                    not set(kw) <= {"mode", "inputs"} or "mode" not in kw or \
                    not (isinstance(kw["mode"], ast.Constant) and kw["mode"].value == "curr") or \
                    ("inputs" in kw and ast.unparse(kw["inputs"]) != "inputs"):
                fail(node, "_RHSValueCompiler construction (expected mode='curr')")
            return V("rhs")
        if is_name(f, "_LHSValueCompiler"):
            kw = {k.arg: k.value for k in node.keywords}
            if [ast.unparse(a) for a in node.args] != ["self.state", "emitter"] or set(kw) != {"rhs"} or \
                    not (is_name(kw["rhs"]) and env.get(kw["rhs"].id, V("")).kind == "rhs"):
                fail(node, "_LHSValueCompiler construction")
            return V("lhs")
        fail(node, "call")

    # ------------------------------------------------------------------ emitted text
    def template(self, node, env, lets, mode):
        """f-string -> (Gallina term, type) for mode 'eval'; for mode 'stmt' the parsed Python statement + holes."""
        src, holes = "", {}
        for part in node.values:
            if isinstance(part, ast.Constant) and isinstance(part.value, str):
                src += part.value
            elif isinstance(part, ast.FormattedValue):
                if part.conversion != -1:
                    fail(node, "conversion in f-string")
                v = self.ev(part.value, env, lets)
                spec = None
                if part.format_spec is not None:
                    fs = part.format_spec
                    if not (isinstance(fs, ast.JoinedStr) and len(fs.values) == 1 and
                            isinstance(fs.values[0], ast.Constant) and fs.values[0].value == "#x"):
                        fail(node, "format spec")
                    spec = "#x"
                if v.kind == "int":
                    pass
                elif v.kind in ("text", "memidx") and spec is None:
                    pass
                else:
                    fail(node, f"hole of kind {v.kind}")
                h = f"H{len(holes)}_"
                holes[h] = v
                src += h
            else:
                fail(node, "f-string part")
        if mode == "eval":
            try:
                tree = ast.parse(src, mode="eval").body
            except SyntaxError:
                fail(node, f"emitted text does not parse: {src!r}")
            return self.tr_emitted(tree, holes, node)
        return src, holes

    def tr_emitted(self, n, holes, where):
        if isinstance(n, ast.Name):
            if n.id in holes and holes[n.id].kind in ("text", "int"):
                return holes[n.id].coq, "Z"
            fail(where, f"emitted name {n.id}")
        if isinstance(n, ast.Constant) and isinstance(n.value, int) and not isinstance(n.value, bool):
            return f"({n.value})", "Z"
        if isinstance(n, ast.BinOp) and type(n.op) in P.BINOPS:
            (l, lt), (r, rt) = self.tr_emitted(n.left, holes, where), self.tr_emitted(n.right, holes, where)
            if lt != "Z" or rt != "Z":
                fail(where, "emitted operands")
            return f"({P.BINOPS[type(n.op)]} {l} {r})", "Z"
        if isinstance(n, ast.UnaryOp) and isinstance(n.op, (ast.Invert, ast.USub)):
            v, t = self.tr_emitted(n.operand, holes, where)
            if t != "Z":
                fail(where, "emitted operand")
            return f"({'Z.lnot' if isinstance(n.op, ast.Invert) else 'Z.opp'} {v})", "Z"
        if isinstance(n, ast.Compare) and len(n.ops) == 1 and isinstance(n.ops[0], ast.Eq):
            (l, lt), (r, rt) = self.tr_emitted(n.left, holes, where), self.tr_emitted(n.comparators[0], holes, where)
            if lt != "Z" or rt != "Z":
                fail(where, "emitted operands")
            return f"(Z.eqb {l} {r})", "bool"
        if isinstance(n, ast.Call) and self.is_slot_method(n, holes, "read", 1):
            a, t = self.tr_emitted(n.args[0], holes, where)
            if t != "Z":
                fail(where, "emitted read address")
            return f"(ms_read depth_ rows_ {a})", "Z"
        fail(where, f"emitted expression {ast.dump(n)[:120]}")

    @staticmethod
    def is_slot_method(n, holes, meth, nargs):
        f = n.func
        return (isinstance(f, ast.Attribute) and f.attr == meth and isinstance(f.value, ast.Subscript)
                and is_name(f.value.value, "slots") and is_name(f.value.slice) and f.value.slice.id in holes
                and holes[f.value.slice.id].kind == "memidx" and len(n.args) == nargs and not n.keywords)

    def as_bool(self, c, t):
        return c if t == "bool" else f"(negb (Z.eqb {c} 0))"

    # ------------------------------------------------------------------ statements of the generator
    def wrap(self, lets, body):
        for name, val in reversed(lets):
            body = f"(let {name} := {val} in\n  {body})"
        return body

    def accs_of(self, run):
        """names in scope now that `run` (a dry execution of a sub-block) rebinds, in definition order"""
        saved = (self.fresh, list(self.defined), set(self.rebound))
        self.rebound = set()
        run()
        accs = [d for d in saved[1] if d in self.rebound]
        self.fresh, self.defined, self.rebound = saved
        if not accs:
            raise Unsupported("a loop / emitted conditional that changes nothing")
        return accs

    def block(self, stmts, env, k, cont=None):
        if not stmts:
            return k(env)
        s, rest = stmts[0], stmts[1:]
        nxt = lambda e: self.block(rest, e, k, cont)
        text = ast.unparse(s)
        if text in SKIP:
            return nxt(env)
        if isinstance(s, ast.Continue):
            if cont is None or rest:
                fail(s, "continue")
            return cont()
        if isinstance(s, ast.If):
            if s.orelse or len(s.body) != 1 or not isinstance(s.body[0], ast.Continue) or cont is None:
                fail(s, "generator-level if (only `if c: continue`)")
            lets = []
            c = self.ev(s.test, env, lets)
            if lets or c.kind != "bool":
                fail(s, "generator-level condition")
            return f"(if {c.coq} then {cont()} else\n  {nxt(env)})"
        if isinstance(s, ast.Assign) and len(s.targets) == 1:
            tgt = s.targets[0]
            if is_name(tgt) and isinstance(s.value, ast.Dict) and not s.value.keys:
                name = check_ident(tgt.id, s)
                self.defined.append(name)
                return f"(let {name} := dict_empty in\n  {nxt({**env, name: V('dict', name)})})"
            if is_name(tgt):
                lets = []
                v = self.ev(s.value, env, lets)
                return self.wrap(lets, nxt({**env, tgt.id: v}))
            if isinstance(tgt, ast.Tuple) and all(is_name(e) for e in tgt.elts) and isinstance(s.value, ast.Subscript):
                d, i = self.ev(s.value.value, env, []), self.ev(s.value.slice, env, [])
                if d.kind != "dict" or i.kind != "nat" or not self.partial or len(tgt.elts) != 3:
                    fail(s, "dictionary lookup")
                names = [check_ident(e.id, s) for e in tgt.elts]
                env2 = {**env, **{n: V("text", n) for n in names}}
                return f"(match dict_get {d.coq} {i.coq} with Some ({', '.join(names)}) =>\n  {nxt(env2)} | None => None end)"
            if isinstance(tgt, ast.Subscript):
                lets = []
                d, i, v = self.ev(tgt.value, env, lets), self.ev(tgt.slice, env, lets), self.ev(s.value, env, lets)
                if lets or d.kind != "dict" or i.kind != "nat" or v.kind != "tuple" or len(v.items) != 3 \
                        or any(x.kind != "text" for x in v.items):
                    fail(s, "dictionary store")
                self.rebound.add(d.coq)
                return f"(let {d.coq} := dict_set {d.coq} {i.coq} ({', '.join(x.coq for x in v.items)}) in\n  {nxt(env)})"
            fail(s, "assignment")
        if isinstance(s, ast.Expr) and isinstance(s.value, ast.Call):
            c = s.value
            # lhs(sig)(text)
            if isinstance(c.func, ast.Call) and is_name(c.func.func) and env.get(c.func.func.id, V("")).kind == "lhs" \
                    and len(c.func.args) == 1 and len(c.args) == 1 and not c.keywords and not c.func.keywords:
                lets = []
                sig, d = self.ev(c.func.args[0], env, lets), self.ev(c.args[0], env, lets)
                if lets or sig.kind != "lsig" or d.kind != "text" or "nx_" not in self.defined:
                    fail(s, "lhs(...)(...)")
                self.rebound.add("nx_")
                return f"(let nx_ := lhs_signal {sig.coq} {d.coq} in\n  {nxt(env)})"
            # emitter.append(f"...")
            if isinstance(c.func, ast.Attribute) and c.func.attr == "append" and is_name(c.func.value) and \
                    env.get(c.func.value.id, V("")).kind == "emitter" and len(c.args) == 1 and not c.keywords \
                    and isinstance(c.args[0], ast.JoinedStr):
                return self.emitted_stmt(s, c.args[0], rest, env, k, cont)
        if isinstance(s, ast.For):
            return self.for_loop(s, rest, env, k, cont)
        fail(s, "statement")

    def emitted_stmt(self, s, fstr, rest, env, k, cont):
        nxt = lambda e: self.block(rest, e, k, cont)
        lets = []
        src, holes = self.template(fstr, env, lets, "stmt")
        if lets:
            fail(s, "def_var inside an emitted statement")
        if src.startswith("if ") and src.endswith(":"):
            try:
                test = ast.parse(src[3:-1], mode="eval").body
            except SyntaxError:
                fail(s, f"emitted condition does not parse: {src!r}")
            c = self.as_bool(*self.tr_emitted(test, holes, s))
            if not rest or not isinstance(rest[0], ast.With):
                fail(s, "emitted `if` without an indented block")
            w = rest[0]
            if len(w.items) != 1 or w.items[0].optional_vars is not None or \
                    ast.unparse(w.items[0].context_expr) != "emitter.indent()":
                fail(w, "with statement")
            rest2 = rest[1:]
            accs = self.accs_of(lambda: self.block(list(w.body), env, lambda e: "", None))
            body = self.block(list(w.body), env, lambda e: self.ret(tup(accs)), None)
            cond = f"(if {c} then\n  {body}\n  else {self.ret(tup(accs))})"
            for a in accs:
                self.rebound.add(a)
            tail = self.block(rest2, env, k, cont)
            if self.partial:
                return f"(match {cond} with Some {pat(accs, False)} =>\n  {tail} | None => None end)"
            return f"(let {pat(accs, True)} := {cond} in\n  {tail})"
        try:
            mod = ast.parse(src).body
        except SyntaxError:
            fail(s, f"emitted statement does not parse: {src!r}")
        if len(mod) != 1:
            fail(s, "emitted text is not one statement")
        e = mod[0]
        if isinstance(e, ast.Expr) and isinstance(e.value, ast.Call) and self.is_slot_method(e.value, holes, "write", 3):
            args = [self.tr_emitted(a, holes, s) for a in e.value.args]
            if any(t != "Z" for _, t in args) or "q_" not in self.defined:
                fail(s, "emitted write")
            self.rebound.add("q_")
            return f"(let q_ := ms_write s_ depth_ rows_ q_ {' '.join(a for a, _ in args)} in\n  {nxt(env)})"
        if isinstance(e, ast.AugAssign) and is_name(e.target) and e.target.id in holes and \
                getattr(holes[e.target.id], "var", None) and type(e.op) in P.BINOPS:
            var = holes[e.target.id].var
            v, t = self.tr_emitted(e.value, holes, s)
            if t != "Z" or var not in self.defined:
                fail(s, "emitted augmented assignment")
            self.rebound.add(var)
            return f"(let {var} := ({P.BINOPS[type(e.op)]} {var} {v}) in\n  {nxt(env)})"
        fail(s, f"emitted statement {src!r}")

    def for_loop(self, s, rest, env, k, cont):
        if s.orelse:
            fail(s, "for-else")
        lets = []
        it = self.ev(s.iter, env, lets)
        if lets:
            fail(s, "loop iterable")
        if it.kind == "enum" and isinstance(s.target, ast.Tuple) and len(s.target.elts) == 2 \
                and all(is_name(e) for e in s.target.elts):
            i, p = (check_ident(e.id, s) for e in s.target.elts)
            binder = f"'({i}, {p})"
            env2 = {**env, i: V("nat", i), p: V("port", p, pk=it.pk)}
        elif it.kind == "natlist" and is_name(s.target):
            i = check_ident(s.target.id, s)
            binder = i
            env2 = {**env, i: V("nat", i)}
        else:
            fail(s, "for loop form")
        accs = self.accs_of(lambda: self.block(list(s.body), env2, lambda e: "", lambda: ""))
        done = lambda: self.ret(tup(accs))
        body = self.block(list(s.body), env2, lambda e: done(), done)
        for a in accs:
            self.rebound.add(a)
        tail = self.block(rest, env, k, cont)
        if self.partial:
            return (f"(match fold_left (fun acc_ {binder} => match acc_ with Some {pat(accs, False)} =>\n  {body}\n"
                    f"  | None => None end) {it.coq} (Some {tup(accs)}) with Some {pat(accs, False)} =>\n  {tail} | None => None end)")
        return (f"(let {pat(accs, True)} := fold_left (fun {pat(accs, True)} {binder} =>\n  {body})\n"
                f"  {it.coq} {tup(accs)} in\n  {tail})")


# ---------------------------------------------------------------------- locating the blocks
def is_meminst_test(t):
    return ast.unparse(t) == "isinstance(fragment, MemoryInstance)"


def memory_blocks(tree):
    f = find_function(tree, "_FragmentCompiler.__call__")
    loops = [s for s in f.body if isinstance(s, ast.For) and ast.unparse(s.target) == "domain_name"]
    if len(loops) != 1 or ast.unparse(loops[0].iter) != "domains":
        raise Unsupported("_FragmentCompiler.__call__: `for domain_name in domains:` not found")
    br = [s for s in loops[0].body if isinstance(s, ast.If) and ast.unparse(s.test) == "domain_name == 'comb'"]
    if len(br) != 1:
        raise Unsupported("_FragmentCompiler.__call__: `if domain_name == \"comb\":` not found")
    comb = [s for s in br[0].body if isinstance(s, ast.If) and is_meminst_test(s.test)]
    sync = [s for s in br[0].orelse if isinstance(s, ast.If) and is_meminst_test(s.test)]
    if len(comb) != 1 or len(sync) != 1 or comb[0].orelse or sync[0].orelse:
        raise Unsupported("_FragmentCompiler.__call__: memory blocks not found")
    # the sync memory block must be the last statement of the else branch, the comb one followed by the wakers only
    if br[0].orelse[-1] is not sync[0]:
        raise Unsupported("_FragmentCompiler.__call__: statements after the sync memory block")
    return comb[0].body, sync[0].body


BASE_ENV = {"emitter": V("emitter"), "fragment": V("fragment")}


def setup(ex, stmts, env):
    """the leading plain assignments (memory_index, rhs, lhs); returns (env, remaining statements)"""
    i = 0
    while i < len(stmts):
        s = stmts[i]
        if ast.unparse(s) in SKIP:
            i += 1
            continue
        if isinstance(s, ast.Assign) and len(s.targets) == 1 and is_name(s.targets[0]) and \
                isinstance(s.value, ast.Call):
            lets = []
            v = ex.ev(s.value, env, lets)
            if lets or v.kind not in ("memidx", "rhs", "lhs"):
                fail(s, "set-up statement")
            env = {**env, s.targets[0].id: v}
            i += 1
            continue
        break
    return env, stmts[i:]


def read_loop(s, what):
    if not (isinstance(s, ast.For) and not s.orelse and is_name(s.target) and
            ast.unparse(s.iter) == "fragment._read_ports"):
        fail(s, f"{what}: expected `for port in fragment._read_ports:`")
    return check_ident(s.target.id, s)


def gen_granularity(mem_tree):
    f = find_function(mem_tree, "MemoryInstance._WritePort._granularity")
    if [a.arg for a in f.args.args] != ["self"] or [ast.unparse(d) for d in f.decorator_list] != ["property"]:
        raise Unsupported("_granularity: signature")
    b = f.body
    if not (len(b) == 2 and isinstance(b[0], ast.If) and not b[0].orelse and len(b[0].body) == 1 and
            isinstance(b[0].body[0], ast.Return) and isinstance(b[1], ast.Return)):
        raise Unsupported("_granularity: body shape")
    ex = Exec(False, [])
    env = {"self": V("port", "self_", pk="w")}
    c = ex.ev(b[0].test, env, [])
    x, y = ex.ev(b[0].body[0].value, env, []), ex.ev(b[1].value, env, [])
    if c.kind != "bool" or x.kind != "int" or y.kind != "int":
        raise Unsupported("_granularity: types")
    return f"Definition WritePort_granularity (self_ : gwport) : Z :=\n  (if {c.coq} then {x.coq} else {y.coq}).\n\n"


def gen_checks(mem_tree):
    """asserts of the port constructors -> boolean functions (conjunction in program order)"""
    out = ""

    def conj(cs):
        return "true" if not cs else "(" + " && ".join(cs) + ")"

    def asserts(stmts, ex, env, allow):
        """translate a statement list made of allowed plain statements and asserts"""
        cs = []
        for s in stmts:
            t = ast.unparse(s)
            if t in ASSERT_SKIP or t in allow:
                continue
            if isinstance(s, ast.Assert) and s.msg is None:
                v = ex.ev(s.test, env, [])
                if v.kind != "bool":
                    fail(s, "assert")
                cs.append(v.coq)
                continue
            if isinstance(s, ast.If) and not s.orelse:
                c = ex.ev(s.test, env, [])
                if c.kind == "int":
                    c = V("bool", f"(negb (Z.eqb {c.coq} 0))")
                if c.kind != "bool":
                    fail(s, "condition")
                cs.append(f"(if {c.coq} then {conj(asserts(s.body, ex, env, allow))} else true)")
                continue
            if isinstance(s, ast.For) and not s.orelse and is_name(s.target):
                it = ex.ev(s.iter, env, [])
                if it.kind != "natlist":
                    fail(s, "loop")
                i = check_ident(s.target.id, s)
                cs.append(f"(forallb (fun {i} => {conj(asserts(s.body, ex, {**env, i: V('nat', i)}, allow))}) {it.coq})")
                continue
            fail(s, "statement in a port constructor")
        return cs

    # _WritePort.__init__
    f = find_function(mem_tree, "MemoryInstance._WritePort.__init__")
    allow = {"self._domain = domain", "self._addr = Value.cast(addr)", "self._data = Value.cast(data)",
             "self._en = Value.cast(en)"}
    if not allow <= {ast.unparse(s) for s in f.body}:
        raise Unsupported("_WritePort.__init__: field assignments changed")
    ex = Exec(False, [])
    p = V("port", "self_", pk="w")
    env = {"self": p, "domain": V("dom", "(gw_domain self_)")}
    out += f"Definition WritePort_init_check (self_ : gwport) : bool :=\n  {conj(asserts(f.body, ex, env, allow))}.\n\n"
    # MemoryInstance.write_port
    f = find_function(mem_tree, "MemoryInstance.write_port")
    allow = {"port = self._WritePort(domain=domain, addr=addr, data=data, en=en)",
             "shape = Shape.cast(self._data.shape)", "self._write_ports.append(port)",
             "return len(self._write_ports) - 1"}
    if [ast.unparse(s) for s in f.body if ast.unparse(s) in allow] != \
            ["port = self._WritePort(domain=domain, addr=addr, data=data, en=en)",
             "shape = Shape.cast(self._data.shape)", "self._write_ports.append(port)",
             "return len(self._write_ports) - 1"]:
        raise Unsupported("MemoryInstance.write_port: structure changed")
    out += ("Definition write_port_check (shape_ : shape) (depth_ : Z) (port : gwport) : bool :=\n  "
            + conj(asserts(f.body, CheckExec(), {"port": V("port", "port", pk="w")}, allow)) + ".\n\n")
    # _ReadPort.__init__
    f = find_function(mem_tree, "MemoryInstance._ReadPort.__init__")
    allow = {"self._domain = domain", "self._addr = Value.cast(addr)", "self._data = Value.cast(data)",
             "self._en = Value.cast(en)", "self._transparent_for = tuple(transparent_for)"}
    if not allow <= {ast.unparse(s) for s in f.body}:
        raise Unsupported("_ReadPort.__init__: field assignments changed")
    env = {"self": V("port", "self_", pk="r"), "domain": V("dom", "(gr_domain self_)")}
    out += ("Definition ReadPort_init_check (self_ : grport) : bool :=\n  "
            + conj(asserts(f.body, CheckExec(), env, allow)) + ".\n\n")
    # MemoryInstance.read_port
    f = find_function(mem_tree, "MemoryInstance.read_port")
    allow = {"port = self._ReadPort(domain=domain, addr=addr, data=data, en=en, transparent_for=transparent_for)",
             "shape = Shape.cast(self._data.shape)", "self._read_ports.append(port)"}
    if [ast.unparse(s) for s in f.body if ast.unparse(s) in allow] != \
            ["port = self._ReadPort(domain=domain, addr=addr, data=data, en=en, transparent_for=transparent_for)",
             "shape = Shape.cast(self._data.shape)", "self._read_ports.append(port)"]:
        raise Unsupported("MemoryInstance.read_port: structure changed")
    out += ("Definition read_port_check (shape_ : shape) (depth_ : Z) (write_ports : list gwport) (port : grport) : bool :=\n  "
            + conj(asserts(f.body, CheckExec(), {"port": V("port", "port", pk="r")}, allow)) + ".\n\n")
    return out


class CheckExec(Exec):
    """expressions of the port constructors' asserts: adds shape.width, ceil_log2(self._data.depth),
    self._write_ports[idx]._domain, constants of the comb read port's enable"""

    def __init__(self):
        super().__init__(False, [])

    def ev(self, node, env, lets):
        t = ast.unparse(node)
        if t == "shape.width":
            return V("int", "(width shape_)")
        if t == "ceil_log2(self._data.depth)":
            return V("int", "(ceil_log2 depth_)")
        if t == "self._write_ports":
            return V("plist", "write_ports", pk="w")
        if t == "self._en.value" and env.get("self", V("")).kind == "port" and env["self"].pk == "r":
            return V("int", f"(fst (gr_en {env['self'].coq}))")
        if t == "self._en.shape() == unsigned(1)":
            return V("bool", f"(Z.eqb (snd (gr_en {env['self'].coq})) (1))")
        if isinstance(node, ast.Attribute) and node.attr == "_domain" and isinstance(node.value, ast.Subscript) \
                and ast.unparse(node.value.value) == "self._write_ports":
            i = self.ev(node.value.slice, env, lets)
            if i.kind != "nat":
                fail(node, "write port index")
            return V("dom", f"(match nth_error write_ports {i.coq} with Some p_ => gw_domain p_ | None => @None Z end)")
        return super().ev(node, env, lets)


def unit():
    tree, mem_tree = parse(SRC), parse(SRC_MEM)
    out = HEADER.replace("{srcs}", f"{SRC}, {SRC_MEM}")
    out += gen_granularity(mem_tree)
    comb, sync = memory_blocks(tree)

    # ---- sync branch
    ex = Exec(False, ["q_"], granularity_ok=True)
    env, rest = setup(ex, sync, {**BASE_ENV, "domain_name": V("dom", "domain_name")})
    if len(rest) != 3 or not isinstance(rest[1], ast.For) or not isinstance(rest[2], ast.For):
        raise Unsupported("sync memory block: expected write_vals = {}, the write-port loop, the read-port loop")
    dict_name = rest[0].targets[0].id if isinstance(rest[0], ast.Assign) and is_name(rest[0].targets[0]) else None
    body = ex.block(rest[:2], env, lambda e: f"(q_, {e[dict_name].coq})" if dict_name in e else fail(rest[0], "dict"))
    out += ("Definition sync_write_ports (s_ : shape) (depth_ : Z) (rows_ : list Z) (domain_name : dom)\n"
            "    (write_ports : list gwport) (q_ : wqueue) : wqueue * wdict :=\n  " + body + ".\n\n")
    port = read_loop(rest[2], "sync memory block")
    ex = Exec(True, ["nx_"])
    env2 = {**env, dict_name: V("dict", dict_name), port: V("port", port, pk="r")}
    done = lambda: "(Some nx_)"
    body = ex.block(list(rest[2].body), env2, lambda e: done(), done)
    out += (f"Definition sync_read_port (depth_ : Z) (rows_ : list Z) (domain_name : dom) ({dict_name} : wdict)\n"
            f"    ({port} : grport) (nx_ : Z) : option Z :=\n  " + body + ".\n\n")

    # ---- comb branch
    ex = Exec(False, ["nx_"])
    env, rest = setup(ex, comb, dict(BASE_ENV))
    if len(rest) != 1:
        raise Unsupported("comb memory block: expected the read-port loop only")
    port = read_loop(rest[0], "comb memory block")
    done = lambda: "nx_"
    body = ex.block(list(rest[0].body), {**env, port: V("port", port, pk="r")}, lambda e: done(), done)
    out += (f"Definition comb_read_port (depth_ : Z) (rows_ : list Z) ({port} : grport) (nx_ : Z) : Z :=\n  "
            + body + ".\n\n")

    out += gen_checks(mem_tree)
    return {"MemGen.v": out}


if __name__ == "__main__":
    print(unit()["MemGen.v"])

"""Translator unit "xfrm": amaranth/hdl/_xfrm.py (+ Fragment.add_statements of hdl/_ir.py)  ->  coq/Gen/XfrmGen.v

Translated (regenerated from the current source text on every run; Gallina names on the right):
  Fragment.add_statements                       frag_add_statements
  LHSMaskCollector.visit_value / visit_stmt     lhs_visit_value / lhs_visit_stmt        (Fixpoints over expr / stmt)
  LHSMaskCollector.chunks                       lhs_chunks_fuel, lhs_chunks
  _ControlInserter.__init__                     control_init_value, control_init_dict
  ResetInserter  (on_fragment of _ControlInserter + FragmentTransformer.on_fragment/map_* + _insert_control)
                                                reset_on_memory, reset_on_fragment
  EnableInserter (the same chain + its own on_fragment / _insert_control)
                                                enable_on_memory, enable_on_fragment
  DomainRenamer.__init__                        rename_init_str, rename_init_dict
  DomainRenamer  (ValueVisitor.on_value + ValueTransformer.on_* + on_ClockSignal / on_ResetSignal,
                  StatementVisitor.on_statement + StatementTransformer.on_*, map_statements, map_memory_ports, on_fragment)
                                                rename_on_value, rename_on_statement, rename_on_memory, rename_on_fragment

Method: a small partial evaluator for the object-oriented Python of _xfrm.py.  Method calls on `self` / `super()` are
resolved through the C3 linearisation computed from the `class` statements of the file and inlined; `isinstance`,
`type(x) is C`, `hasattr(self, ..)` are decided from the class tables when the class of the object is known (the
receiver class, Fragment vs MemoryInstance, one specialisation per constructor of the model's expr / stmt);
every other test, operator, constant, comparison, branch order, loop and field access is produced by walking the
Python ast.  Mutable Python state (object fields, locals, dicts, lists) is threaded as `let`-bound Gallina values;
`for` loops become `fold_left` over the state cells the body modifies (found by a dry run of the body), loops that only
rewrite fields of their loop variable become `map`, `while` loops become a `fix` on fuel.  A statement that is never
reached by any specialisation and is not in the narrow exact-text whitelists below, an unknown class / field / call /
statement form: all raise Unsupported.

TRUSTED BASE of this unit (besides py2gallina's operator mapping, which is reused):
  * classes <-> model types: Fragment <-> Xfrm.frag (statements dict / MemoryInstance subfragments / other
    subfragments; `fragment.subfragments` is read as the memory instances followed by the plain subfragments, the
    model keeps the two kinds in separate lists), MemoryInstance <-> Xfrm.meminst (_data <-> shape, depth, init),
    _ReadPort / _WritePort <-> Xfrm.rport / wport, Value subclasses <-> Ast.expr constructors (tables CTORS, OP1, OP2),
    Assign / Switch <-> Stmt.stmt; a Switch case is (patterns, statements, src_loc): the source location is dropped;
    domain names are numbers, "comb" is 0; a Signal used as a dict key is its index i, its attributes come from the
    signal table: reset_less / init / shape() <-> sd_reset_less / sd_init / sd_shape (tab i), len <-> width;
  * Python dict (insertion ordered) <-> association list with the prelude functions dict_in / dict_get / dict_set /
    dict_setdefault; `d[k]` of a missing key (KeyError) is a poison value KeyError_*; OrderedDict(d) / dict(d) copy;
    list.append -> `++ [x]`; SignalDict is such a dict keyed by signal;
  * constructors of hdl/_ast.py: Const(v, shape) -> EConst, Const(v, n) -> EConst v (Sh n false), Operator(op, [..]),
    Slice, Part, Concat, SwitchValue, Assign -> the constructors of Ast.expr / Stmt.stmt (argument validation is
    wf_expr / wf_lhs of the model); Switch(test, [(k, stmts, None)]) with an integer key k normalises it as
    Switch.__init__ does (prelude switch_int_key: Derived.normalize_patterns then to_binary(key & mask, len(test)));
    already normalised patterns are kept; v[a:b] is Derived.mk_getitem_key (tied to Value.__getitem__ by unit
    `derived`), Mux is Derived.mk_mux (unit `derived`), a & b / a | b are Operator('&') / Operator('|') and v.eq(x) is Assign(v, x) (the
    one-line bodies of Value.__and__ / __or__ / eq / __len__ are compared with the expected text on every run);
  * Statement.cast of a statement list is that list, of one statement the singleton list; flatten() over statements
    is the list; map(f, l) is List.map;
  * late-bound signals (DomainRenamer only): ClockSignal(d) / ResetSignal(d, allow_reset_less=True) / ResetSignal(d) are
    the pseudo signals ESig (cs_index base d k) (Sh 1 false), k = 0 / 1 / 2, of Model/Xfrm.v (cs_decode); the ESig branch of
    the value transformer is specialised three times (ClockSignal, ResetSignal, Signal) under `match cs_decode base i_`;
    `.domain` is d, `.allow_reset_less` is k = 1;
  * an AssertionError / the `assert False` tail of a type dispatch inside LHSMaskCollector leaves the collector
    unchanged (the model's `| _ => acc`; unreachable for assignable targets, see GenEqXfrm.lhs_ok);
  * `while` loops run on fuel `Z.to_nat (measure) + fuel_` with the measures of WHILE_MEASURE; GenEqXfrm proves the
    result independent of the extra fuel;
  * source locations, attrs, origins, clock-domain objects (map_domains), domain_renames are not part of the model:
    the statements that only move them are in SKIP (exact text).
"""
import ast, os, re, sys
sys.path.insert(0, os.path.dirname(os.path.abspath(__file__)))
from py2gallina import Unsupported, BINOPS, CMPOPS

NAME = "xfrm"
OUTPUTS = ["XfrmGen.v"]
SRC = "amaranth/hdl/_xfrm.py"
SRC_FILES = {"xfrm": "amaranth/hdl/_xfrm.py", "ir": "amaranth/hdl/_ir.py", "mem": "amaranth/hdl/_mem.py",
             "ast": "amaranth/hdl/_ast.py"}


def fail(node, why):
    try:
        txt = ast.unparse(node)[:160]
    except Exception:
        txt = repr(node)[:160]
    raise Unsupported(f"line {getattr(node, 'lineno', '?')}: {why}: {txt}")


# ---------------------------------------------------------------- tables (trusted)
OP1 = [("u", "OU"), ("s", "OS"), ("-", "ONeg"), ("~", "ONot"), ("b", "OBool"), ("r|", "ORor"), ("r&", "ORand"),
       ("r^", "ORxor")]
OP2 = [("|", "OOr"), ("&", "OAnd"), ("^", "OXor"), ("+", "OAdd"), ("-", "OSub"), ("*", "OMul"), ("//", "ODiv"),
       ("%", "OMod"), ("<<", "OShl"), (">>", "OShr"), ("==", "OEq"), ("!=", "ONe"), ("<", "OLt"), ("<=", "OLe"),
       (">", "OGt"), (">=", "OGe")]
OP_STRINGS = {s for s, _ in OP1} | {s for s, _ in OP2}

T_CASES_V = ("list", ("tuple", "pats", "expr"))      # SwitchValue.cases
T_CASES_S = ("list", "case3")                         # Switch.cases: (patterns, stmts, src_loc)
T_STMTS = ("list", "stmt")
T_DICT_ST = ("dict", "dom", T_STMTS)
T_DICT_CTL = ("dict", "dom", "expr")
T_DICT_DOM = ("dict", "dom", "dom")
T_DICT_LHS = ("dict", "sig", "Z")
T_CHUNK = ("tuple", "sig", "Z", "optZ")

ATOM_TY = {"Z": "Z", "bool": "bool", "dom": "nat", "sig": "nat", "expr": "expr", "stmt": "Stmt.stmt", "frag": "frag",
           "meminst": "meminst", "rport": "rport", "wport": "wport", "pats": "(option (list pattern))",
           "optZ": "(option Z)", "shape": "shape", "case3": "(option (list pattern) * list Stmt.stmt)", "unit": "unit",
           "natlist": "(list nat)"}


def coqty(t):
    if isinstance(t, str):
        if t not in ATOM_TY:
            raise Unsupported(f"no Coq type for {t}")
        return ATOM_TY[t]
    if t[0] == "list":
        return f"(list {coqty(t[1])})"
    if t[0] == "dict":
        return f"(list ({coqty(t[1])} * {coqty(t[2])}))"
    if t[0] == "tuple":
        return "(" + " * ".join(coqty(x) for x in t[1:]) + ")"
    raise Unsupported(f"no Coq type for {t}")


# records of the model: python class -> (constructor, [(python field, projection, type)], {constructor keyword: field})
RECORDS = {
    "_ReadPort": ("RP", [("_domain", "rp_dom", "dom"), ("_addr", "rp_addr", "expr"), ("_data", "rp_data", "expr"),
                         ("_en", "rp_en", "expr"), ("_transparent_for", "rp_transp", "natlist")], "rport"),
    "_WritePort": ("WP", [("_domain", "wp_dom", "dom"), ("_addr", "wp_addr", "expr"), ("_data", "wp_data", "expr"),
                          ("_en", "wp_en", "expr")], "wport"),
}
REC_OF_TY = {"rport": "_ReadPort", "wport": "_WritePort"}
# python class of an opaque value of a model type (for isinstance)
PYCLS_OF_TY = {"frag": "Fragment", "meminst": "MemoryInstance", "expr": "Value", "sig": "Signal", "stmt": "Statement"}
BUILTIN_ITERABLE = {"list", "tuple", "dict", "OrderedDict"}

KEYERROR = {"Z": "KeyError_Z", "expr": "KeyError_expr", "dom": "KeyError_dom", T_STMTS: "KeyError_stmts"}

# while condition (exact text) -> measure (python expression, evaluated before the loop); fuel = Z.to_nat measure + fuel_
WHILE_MEASURE = {
    "start < len(signal)": "len(signal) - start",
    "stop < len(signal) and mask >> stop & 1 == 1": "len(signal) - stop",
}

# statements that are NOT translated when met (exact unparsed text) and why
SKIP = {
    "self.src_loc = None": "source locations are not modelled",
    "self.src_loc = tracer.get_src_loc(src_loc_at=src_loc_at)": "source locations are not modelled",
    "new_fragment.attrs = OrderedDict(fragment.attrs)": "fragment attributes are not modelled",
    "new_fragment.origins = fragment.origins": "fragment origins are not modelled",
    "self.map_domains(fragment, new_fragment)":
        "clock-domain objects are not part of Xfrm.frag (the model's domain table is global)",
    "self.map_domain_renames(fragment, new_fragment)": "Fragment.domain_renames (naming of renamed domains) is not modelled",
    "if isinstance(new_value, Value) and self.replace_value_src_loc(value, new_value):\n"
    "    new_value.src_loc = value.src_loc": "source locations are not modelled",
    "if isinstance(new_stmt, Statement) and self.replace_statement_src_loc(stmt, new_stmt):\n"
    "    new_stmt.src_loc = stmt.src_loc": "source locations are not modelled",
    "if isinstance(new_stmt, (Print, Property)):\n    new_stmt._MustUse__used = True":
        "Print / Property are not statements of the model; MustUse bookkeeping",
    "assert isinstance(domain, str)": "type check",
    "stmt._MustUse__used = True": "MustUse bookkeeping",
}
# blocks never reached by any specialisation (exact text) and why
UNREACHED = {
    "pass": "no effect",
    "assert False": "tail of a type dispatch; reaching it is handled explicitly (ASSERT_UNCHANGED)",
}
# (method, exact text) pairs never reached: UNREACHED_IN, further below
# `assert` whose failure leaves the collector state unchanged (LHSMaskCollector only)
ASSERT_UNCHANGED = {
    "assert False": "non-assignable node in target position: the model's lhs_mask / stmt_mask return acc",
    "assert value.operator in ('s', 'u')": "an operator other than as_signed/as_unsigned in target position",
}
ONE_LINERS = {
    "__and__": (["self", "other"], "return Operator('&', [self, other], src_loc_at=1)"),
    "__or__": (["self", "other"], "return Operator('|', [self, other], src_loc_at=1)"),
    "__len__": (["self"], "return self.shape().width"),
    "eq": (["self", "value"], "return Assign(self, value, src_loc_at=src_loc_at + 1)"),
}
EXPECT_BODY = {   # primitives whose bodies are not walked but must keep this exact text
    ("ir", "Fragment.add_subfragment"): "assert isinstance(subfragment, Fragment)\n"
                                        "self.subfragments.append((subfragment, name, src_loc))",
    ("ir", "Fragment.__init__"): "self.statements = {}\nself.domains = OrderedDict()\nself.subfragments = []\n"
                                 "self.attrs = OrderedDict()\nself.generated = OrderedDict()\nself.src_loc = src_loc\n"
                                 "self.origins = None\nself.domain_renames = {}",
    ("mem", "MemoryInstance.__init__"): "super().__init__(src_loc=src_loc)\nassert isinstance(data, MemoryData)\n"
                                        "data.freeze()\nself._data = data\nself._attrs = attrs or {}\n"
                                        "self._read_ports: 'list[MemoryInstance._ReadPort]' = []\n"
                                        "self._write_ports: 'list[MemoryInstance._WritePort]' = []",
}
MODEL_VALUE_CLASSES = ["Const", "Signal", "Operator", "Slice", "Part", "Concat", "SwitchValue"]
OUT_OF_MODEL_VALUE_CLASSES = ["ClockSignal", "ResetSignal", "AnyValue", "Initial"]
MODEL_STMT_CLASSES = ["Assign", "Switch"]
OUT_OF_MODEL_STMT_CLASSES = ["Print", "Property"]


# ---------------------------------------------------------------- class tables from the sources
class ClassInfo:
    def __init__(self, name, bases, methods, module):
        self.name, self.bases, self.methods, self.module = name, bases, methods, module


DUPLICATE_CLASSES = set()


def load_classes(trees):
    classes = {}
    DUPLICATE_CLASSES.clear()

    def walk(body, module, prefix=""):
        for n in body:
            if isinstance(n, ast.ClassDef):
                methods = {m.name: m for m in n.body if isinstance(m, ast.FunctionDef)}
                bases = [ast.unparse(b) for b in n.bases]
                if n.name in classes:
                    DUPLICATE_CLASSES.add(n.name)        # using such a class is an error (see mro)
                classes[n.name] = ClassInfo(n.name, bases, methods, module)
                walk(n.body, module, prefix + n.name + ".")
    for module in ("ast", "ir", "mem", "xfrm"):
        walk(trees[module].body, module)
    return classes


def mro(classes, name):
    """C3 linearisation over the classes known from the sources; unknown bases are leaves."""
    def merge(seqs):
        out = []
        seqs = [list(s) for s in seqs if s]
        while seqs:
            for s in seqs:
                h = s[0]
                if not any(h in t[1:] for t in seqs):
                    break
            else:
                raise Unsupported(f"inconsistent class hierarchy at {name}")
            out.append(h)
            seqs = [[x for x in t if x != h] for t in seqs]
            seqs = [t for t in seqs if t]
        return out
    if name in DUPLICATE_CLASSES:
        raise Unsupported(f"class {name} is defined twice in the sources")
    if name not in classes:
        return [name]
    bases = [b.split(".")[-1] for b in classes[name].bases]
    return [name] + merge([mro(classes, b) for b in bases] + [bases])


# ---------------------------------------------------------------- symbolic values
class V:
    """A Gallina term with a type; `ctor` is set for the dispatch variable of a constructor specialisation."""
    def __init__(self, term, ty, pycls=None, ctor=None, empty=False):
        self.term, self.ty, self.pycls, self.ctor, self.empty = term, ty, pycls, ctor, empty


class Tup:
    def __init__(self, items):
        self.items = list(items)


class StaticList:
    def __init__(self, items):
        self.items = list(items)


class StaticStr:
    def __init__(self, s):
        self.s = s


class PyNone:
    pass


class Unmod:
    def __init__(self, why):
        self.why = why


class MemData:
    def __init__(self, shape, depth, init):
        self.parts = (shape, depth, init)


class Obj:
    def __init__(self, cls, fields, loopvar=None):
        self.cls, self.fields, self.loopvar = cls, dict(fields), loopvar
        self.initial = dict(fields)


class SubfragSplit:
    def __init__(self, obj):
        self.obj = obj


class Ctor:
    def __init__(self, pat, cls, ty, fields=None, operands=None, opstr=None, key=None):
        self.pat, self.cls, self.ty, self.fields = pat, cls, ty, dict(fields or {})
        self.operands, self.opstr, self.key = operands, opstr, key


def expr_ctors():
    out = [Ctor("EConst v_ s_", "Const", "expr"),
           Ctor("ESig i_ s_", "Signal", "expr", key=V("i_", "sig"))]
    for s, c in OP1:
        out.append(Ctor(f"EOp1 {c} a_", "Operator", "expr", operands=[V("a_", "expr")], opstr=s))
    for s, c in OP2:
        out.append(Ctor(f"EOp2 {c} a_ b_", "Operator", "expr", operands=[V("a_", "expr"), V("b_", "expr")], opstr=s))
    out += [Ctor("ESlice a_ lo_ hi_", "Slice", "expr", {"value": V("a_", "expr"), "start": V("lo_", "Z"), "stop": V("hi_", "Z")}),
            Ctor("EPart a_ off_ w_ st_", "Part", "expr", {"value": V("a_", "expr"), "offset": V("off_", "expr"),
                                                         "width": V("w_", "Z"), "stride": V("st_", "Z")}),
            Ctor("ECat parts_", "Concat", "expr", {"parts": V("parts_", ("list", "expr"))}),
            Ctor("ESwitch test_ cases_", "SwitchValue", "expr", {"test": V("test_", "expr"), "cases": V("cases_", T_CASES_V)})]
    return out


def late_bound_ctors():
    """ClockSignal / ResetSignal: pseudo signals ESig (cs_index base d k) of the model (Xfrm.cs_decode); used inside
    the ESig branch of the DomainRenamer value transformer only."""
    return [Ctor("Some (d_, O)", "ClockSignal", "expr", {"domain": V("d_", "dom")}),
            Ctor("Some (d_, S k_)", "ResetSignal", "expr", {"domain": V("d_", "dom"),
                                                             "allow_reset_less": V("(Nat.eqb k_ 0)", "bool")})]


def stmt_ctors():
    return [Ctor("SAssign l_ r_", "Assign", "stmt", {"lhs": V("l_", "expr"), "rhs": V("r_", "expr")}),
            Ctor("SSwitch t_ cs_", "Switch", "stmt", {"test": V("t_", "expr"), "cases": V("cs_", T_CASES_S)})]


COQ_KEYWORDS = set("as at cofix else end exists exists2 fix for forall fun if IF in let match mod return then using "
                   "where with Prop Set Type SProp".split())


# ---------------------------------------------------------------- the partial evaluator
class Frame:
    def __init__(self, qual, defcls, selfobj):
        self.qual, self.defcls, self.selfobj = qual, defcls, selfobj
        self.locals = {}
        self.kret = None
        self.loops = []           # stack of continuations for `continue`
        self.pure = False


class Escape(Exception):
    """Raised during a dry run when control leaves the block (return / continue / raise)."""


def is_name(n, ident=None):
    return isinstance(n, ast.Name) and (ident is None or n.id == ident)


def is_const(n, ty=None):
    return isinstance(n, ast.Constant) and (ty is None or type(n.value) is ty)


def is_atom(term):
    return re.fullmatch(r"[A-Za-z_][A-Za-z0-9_']*|\(?-?[0-9]+\)?(%nat)?", term) is not None


class PE:
    def __init__(self, classes):
        self.classes = classes
        self.n = 0
        self.frames = []
        self.objs = []
        self.visited = set()
        self.entered = {}
        self.tab_used = False
        self.drystack = []
        self.raised_in_dry = False
        self.fuel_param = False
        self.base_param = False
        self._lv_mod = False
        self.domnames = {}       # python domain name -> Gallina term (besides "comb")
        self.state_mode = None   # "lhs" when generating a LHSMaskCollector entry (assert failure = unchanged)
        self.kraise = None       # continuation for `raise` in a partial entry
        self.yield_cell = None   # (frame, name) of the hidden list a generator entry appends to
        self.yield_ty = None
        self.self_rec = {}       # entry key -> Gallina call prefix, for recursive calls

    # ------------------------------------------------------------ names, state
    def fresh(self, base):
        self.n += 1
        base = re.sub(r"[^A-Za-z0-9]", "", base) or "t"
        return f"{base}_{self.n}"

    @property
    def frame(self):
        return self.frames[-1]

    def new_obj(self, cls, fields, loopvar=None):
        o = Obj(cls, fields, loopvar)
        self.objs.append(o)
        return o

    def snapshot(self):
        return ([dict(f.locals) for f in self.frames], [dict(o.fields) for o in self.objs], len(self.objs), len(self.frames))

    def restore(self, snap):
        if len(self.frames) < snap[3]:
            raise Unsupported("internal: frame stack shrank across a restore")
        del self.frames[snap[3]:]
        for f, l in zip(self.frames, snap[0]):
            f.locals = dict(l)
        del self.objs[snap[2]:]
        for o, fl in zip(self.objs, snap[1]):
            o.fields = dict(fl)

    def modified(self, snap, node):
        """Cells (kind, owner, key, value-before) that existed at the snapshot and hold another value now."""
        out = []
        for f, l in zip(self.frames, snap[0]):
            for k, v in l.items():
                if f.locals.get(k) is not v:
                    out.append(("L", f, k, v))
        for o, fl in zip(self.objs, snap[1]):
            for k, v in fl.items():
                if o.fields.get(k) is not v:
                    out.append(("F", o, k, v))
        res = []
        for c in out:
            now = self.cell_get(c)
            if not isinstance(c[3], V) or not isinstance(now, V):
                fail(node, f"state cell {c[2]} modified here does not hold a Gallina value")
            if c[3].ty == ("list", None) and isinstance(now.ty, tuple) and now.ty[0] == "list":
                c = (c[0], c[1], c[2], V(c[3].term, now.ty, empty=c[3].empty))     # `x = []`: typed by its first append
            if now.ty != c[3].ty:
                fail(node, f"state cell {c[2]} changes type ({c[3].ty} -> {now.ty})")
            res.append(c)
        return res

    @staticmethod
    def cell_get(c):
        return c[1].locals.get(c[2]) if c[0] == "L" else c[1].fields.get(c[2])

    @staticmethod
    def cell_set(c, v):
        if c[0] == "L":
            c[1].locals[c[2]] = v
        else:
            c[1].fields[c[2]] = v

    def refcount(self, v):
        c = 0
        for f in self.frames:
            c += sum(1 for x in f.locals.values() if x is v)
        for o in self.objs:
            c += sum(1 for x in o.fields.values() if x is v)
        return c

    def mark(self, stmts):
        for s in stmts:
            for n in ast.walk(s):
                if isinstance(n, ast.stmt):
                    self.visited.add(id(n))

    # ------------------------------------------------------------ classes
    def resolve(self, cls, mname, after=None):
        """(defining class, FunctionDef) of `mname` for an object of class cls; `after`: for super() in class `after`."""
        order = mro(self.classes, cls)
        if after is not None:
            if after not in order:
                raise Unsupported(f"super() of {after} on an object of class {cls}")
            order = order[order.index(after) + 1:]
        for c in order:
            if c in self.classes and mname in self.classes[c].methods:
                return c, self.classes[c].methods[mname]
        return None

    def pyclass_of(self, v, node):
        if isinstance(v, Obj):
            return v.cls
        if isinstance(v, V):
            if v.pycls is not None:
                return v.pycls
            if isinstance(v.ty, tuple) and v.ty[0] == "dict":
                return "dict"
            if v.ty == T_STMTS:
                return "_StatementList"
            if isinstance(v.ty, tuple) and v.ty[0] == "list":
                return "list"
            if v.ty == "dom":
                return "str"
            if v.ty in PYCLS_OF_TY:
                return PYCLS_OF_TY[v.ty]
        fail(node, "class of this value is not known")

    def known_exact(self, v):
        """Is the exact class known (not merely an upper bound like Value / Statement)?"""
        if isinstance(v, Obj):
            return True
        return isinstance(v, V) and (v.pycls is not None or v.ty in ("frag", "meminst", "dom") or isinstance(v.ty, tuple))

    def is_subclass(self, cls, other, node):
        if cls == other:
            return True
        if other == "Iterable":
            return any(c in BUILTIN_ITERABLE for c in mro(self.classes, cls))
        if other not in self.classes and other not in ("str", "dict", "list", "int", "tuple"):
            fail(node, f"isinstance against unknown class {other}")
        return other in mro(self.classes, cls)

    def static(self, n):
        """True / False when the test is decided at translation time, None when it is a run-time test."""
        if isinstance(n, ast.BoolOp):
            stop = isinstance(n.op, ast.Or)
            dyn = False
            for v in n.values:
                r = self.static(v)
                if r is stop and not dyn:
                    return stop
                if r is None:
                    dyn = True
            return None if dyn else (not stop)
        if isinstance(n, ast.UnaryOp) and isinstance(n.op, ast.Not):
            r = self.static(n.operand)
            return None if r is None else (not r)
        if isinstance(n, ast.Call) and is_name(n.func, "isinstance") and len(n.args) == 2 and not n.keywords:
            v = self.ev(n.args[0])
            cls = self.pyclass_of(v, n)
            names = n.args[1].elts if isinstance(n.args[1], ast.Tuple) else [n.args[1]]
            names = [ast.unparse(x).split(".")[-1] for x in names]
            res = any(self.is_subclass(cls, o, n) for o in names)
            if not res and not self.known_exact(v):
                # an upper bound: a negative answer is only sound when the classes are unrelated
                if any(self.is_subclass(o, cls, n) for o in names if o in self.classes):
                    fail(n, "isinstance on a value whose exact class is not known")
            return res
        if isinstance(n, ast.Call) and is_name(n.func, "hasattr") and len(n.args) == 2 and is_const(n.args[1], str):
            v = self.ev(n.args[0])
            if isinstance(v, Obj) and v is self.frame.selfobj:
                return self.resolve(v.cls, n.args[1].value) is not None
            if isinstance(v, V) and v.ty in ("frag", "meminst") and n.args[1].value == "elaborate":
                return False
            fail(n, "hasattr form")
        if isinstance(n, ast.Compare) and len(n.ops) == 1:
            left, op, right = n.left, n.ops[0], n.comparators[0]
            # type(x) is C / type(x) in (A, B)
            if isinstance(left, ast.Call) and is_name(left.func, "type") and len(left.args) == 1:
                v = self.ev(left.args[0])
                if not self.known_exact(v):
                    fail(n, "type() of a value whose exact class is not known")
                cls = self.pyclass_of(v, n)
                if isinstance(op, ast.Is) and isinstance(right, (ast.Name, ast.Attribute)):
                    names = [right]
                elif isinstance(op, ast.In) and isinstance(right, ast.Tuple):
                    names = right.elts
                else:
                    fail(n, "type() test form")
                names = [ast.unparse(x).split(".")[-1] for x in names]
                for o in names:
                    if o not in self.classes:
                        fail(n, f"type test against unknown class {o}")
                return cls in names
            if isinstance(op, (ast.Is, ast.IsNot)) and is_const(right) and right.value is None:
                v = self.ev(left)
                if isinstance(v, PyNone):
                    return isinstance(op, ast.Is)
                if isinstance(v, V) and v.ty != "optZ":
                    return isinstance(op, ast.IsNot)
                if isinstance(v, (Obj, Tup, StaticList, StaticStr)):
                    return isinstance(op, ast.IsNot)
                return None
            # value.operator == "s" / value.operator in ("u", "s")
            lv = self.ev_static_str(left)
            if lv is not None:
                if isinstance(op, (ast.Eq, ast.NotEq)) and is_const(right, str):
                    lits = [right.value]
                elif isinstance(op, (ast.In, ast.NotIn)) and isinstance(right, ast.Tuple) and \
                        all(is_const(e, str) for e in right.elts):
                    lits = [e.value for e in right.elts]
                else:
                    fail(n, "string test form")
                for l in lits:
                    if l not in OP_STRINGS:
                        fail(n, f"operator string {l!r} is not in the table")
                r = lv in lits
                return r if isinstance(op, (ast.Eq, ast.In)) else not r
        return None

    def ev_static_str(self, n):
        """operator string of the dispatch variable, when n is `<dispatch>.operator`."""
        if isinstance(n, ast.Attribute) and n.attr == "operator":
            v = self.ev(n.value)
            if isinstance(v, V) and v.ctor is not None and v.ctor.cls == "Operator":
                return v.ctor.opstr
            fail(n, ".operator of a value that is not a specialised Operator")
        return None

    # ------------------------------------------------------------ coercions
    def dom_of(self, s, node):
        if s == "comb":
            return "0%nat"
        if s in self.domnames:
            return self.domnames[s]
        fail(node, f"domain name {s!r} has no number in this context")

    def to_term(self, v, ty, node):
        if isinstance(v, V):
            if v.ty == ty:
                return v.term
            if v.ty == ("list", None) and isinstance(ty, tuple) and ty[0] == "list":
                return f"(@nil {coqty(ty[1])})"
            if v.ty == "sig" and ty == "expr":
                self.tab_used = True
                return f"(ESig {v.term} (sd_shape (tab {v.term})))"
            if v.ty == "expr" and ty == "sig" and v.ctor is not None and v.ctor.key is not None:
                return v.ctor.key.term
            if v.ty == "Z" and ty == "optZ":
                return f"(Some {v.term})"
            if v.ty == "stmt" and ty == T_STMTS:
                return f"[{v.term}]"
            fail(node, f"value of type {v.ty} where {ty} is expected")
        if isinstance(v, PyNone) and ty in ("optZ", "pats"):
            return "None"
        if isinstance(v, StaticStr) and ty == "dom":
            return self.dom_of(v.s, node)
        if isinstance(v, Tup):
            if ty == "case3":
                if len(v.items) != 3 or not isinstance(v.items[2], (Unmod, PyNone)):
                    fail(node, "Switch case must be (patterns, statements, src_loc)")
                return f"({self.to_term(v.items[0], 'pats', node)}, {self.to_term(v.items[1], T_STMTS, node)})"
            if isinstance(ty, tuple) and ty[0] == "tuple" and len(ty) - 1 == len(v.items):
                return "(" + ", ".join(self.to_term(x, t, node) for x, t in zip(v.items, ty[1:])) + ")"
            fail(node, f"tuple where {ty} is expected")
        if isinstance(v, StaticList) and isinstance(ty, tuple) and ty[0] == "list":
            return "[" + "; ".join(self.to_term(x, ty[1], node) for x in v.items) + "]"
        fail(node, f"cannot use this value where {ty} is expected")

    def infer_ty(self, v, node):
        if isinstance(v, V):
            return v.ty
        if isinstance(v, Tup):
            if len(v.items) == 3 and isinstance(v.items[2], (Unmod, PyNone)) and \
                    isinstance(v.items[1], V) and v.items[1].ty == T_STMTS:
                return "case3"
            return ("tuple",) + tuple(self.infer_ty(x, node) for x in v.items)
        fail(node, "cannot type this value")

    def as_bool(self, v, node):
        if isinstance(v, V) and v.ty == "bool":
            return v.term
        if isinstance(v, V) and v.ty == "Z":
            return f"(negb (Z.eqb {v.term} 0))"
        fail(node, "truth value of a non-boolean")

    # ------------------------------------------------------------ expressions
    def ev(self, n):
        if isinstance(n, ast.Constant):
            if n.value is None:
                return PyNone()
            if n.value is True or n.value is False:
                return V("true" if n.value else "false", "bool")
            if type(n.value) is int:
                return V(str(n.value) if n.value >= 0 else f"({n.value})", "Z")
            if type(n.value) is str:
                return StaticStr(n.value)
            fail(n, "constant")
        if isinstance(n, ast.Name):
            if n.id in self.frame.locals:
                return self.frame.locals[n.id]
            fail(n, "unknown variable")
        if isinstance(n, ast.Tuple):
            return Tup([self.ev(e) for e in n.elts])
        if isinstance(n, ast.List):
            if not n.elts:
                return V("[]", ("list", None), empty=True)
            return StaticList([self.ev(e) for e in n.elts])
        if isinstance(n, ast.Dict):
            if len(n.keys) == 1 and is_const(n.keys[0], str):
                k = self.dom_of(n.keys[0].value, n)
                v = self.ev(n.values[0])
                if isinstance(v, V) and v.ty in ("expr", "dom"):
                    return V(f"[({k}, {v.term})]", ("dict", "dom", v.ty))
            if not n.keys:
                fail(n, "untyped empty dict")
            fail(n, "dict literal")
        if isinstance(n, (ast.BoolOp, ast.Compare, ast.UnaryOp)) or \
                (isinstance(n, ast.Call) and (is_name(n.func, "isinstance") or is_name(n.func, "hasattr"))):
            r = self.static(n)
            if r is not None:
                return V("true" if r else "false", "bool")
        if isinstance(n, ast.BoolOp):
            parts = [self.as_bool(self.ev(v), v) for v in n.values]
            op = "andb" if isinstance(n.op, ast.And) else "orb"
            out = parts[-1]
            for p in reversed(parts[:-1]):
                out = f"({op} {p} {out})"
            return V(out, "bool")
        if isinstance(n, ast.UnaryOp):
            v = self.ev(n.operand)
            if isinstance(n.op, ast.Not):
                return V(f"(negb {self.as_bool(v, n)})", "bool")
            if isinstance(v, V) and v.ty == "Z":
                if isinstance(n.op, ast.Invert):
                    return V(f"(Z.lnot {v.term})", "Z")
                if isinstance(n.op, ast.USub):
                    return V(f"(Z.opp {v.term})", "Z")
            fail(n, "unary operator")
        if isinstance(n, ast.BinOp):
            a, b = self.ev(n.left), self.ev(n.right)
            if isinstance(a, V) and isinstance(b, V):
                if a.ty == "Z" and b.ty == "Z" and type(n.op) in BINOPS:
                    return V(f"({BINOPS[type(n.op)]} {a.term} {b.term})", "Z")
                if a.ty == "expr" and b.ty == "expr" and isinstance(n.op, ast.BitAnd):
                    return V(f"(EOp2 OAnd {a.term} {b.term})", "expr")       # Value.__and__ (ONE_LINERS)
                if a.ty == "expr" and b.ty == "expr" and isinstance(n.op, ast.BitOr):
                    return V(f"(EOp2 OOr {a.term} {b.term})", "expr")        # Value.__or__ (ONE_LINERS)
            fail(n, "binary operator")
        if isinstance(n, ast.Compare):
            return self.ev_compare(n)
        if isinstance(n, ast.Attribute):
            return self.ev_attr(n)
        if isinstance(n, ast.Subscript):
            return self.ev_subscript(n)
        if isinstance(n, (ast.ListComp, ast.GeneratorExp)):
            return self.ev_comp(n)
        if isinstance(n, ast.Call):
            return self.ev_call(n)
        fail(n, "expression")

    def ev_compare(self, n):
        if len(n.ops) != 1:
            fail(n, "chained comparison")
        op, ln, rn = n.ops[0], n.left, n.comparators[0]
        a, b = self.ev(ln), self.ev(rn)
        if isinstance(op, (ast.In, ast.NotIn)):
            if isinstance(b, V) and isinstance(b.ty, tuple) and b.ty[0] == "dict":
                k = self.to_term(a, b.ty[1], n)
                t = f"(dict_in {k} {b.term})"
                return V(t if isinstance(op, ast.In) else f"(negb {t})", "bool")
            fail(n, "membership test")
        if isinstance(op, (ast.Is, ast.IsNot)) and isinstance(b, PyNone) and isinstance(a, V) and a.ty == "optZ":
            t = f"(match {a.term} with None => true | Some _ => false end)"
            return V(t if isinstance(op, ast.Is) else f"(negb {t})", "bool")
        doms = [x for x in (a, b) if isinstance(x, V) and x.ty == "dom"]
        if doms and isinstance(op, (ast.Eq, ast.NotEq)):
            t = f"(Nat.eqb {self.to_term(a, 'dom', n)} {self.to_term(b, 'dom', n)})"
            return V(t if isinstance(op, ast.Eq) else f"(negb {t})", "bool")
        if isinstance(a, V) and isinstance(b, V) and a.ty == "Z" and b.ty == "Z":
            l, r = a.term, b.term
            if isinstance(op, ast.Gt):
                return V(f"(Z.ltb {r} {l})", "bool")
            if isinstance(op, ast.GtE):
                return V(f"(Z.leb {r} {l})", "bool")
            if isinstance(op, ast.NotEq):
                return V(f"(negb (Z.eqb {l} {r}))", "bool")
            if type(op) in CMPOPS:
                return V(f"({CMPOPS[type(op)]} {l} {r})", "bool")
        fail(n, "comparison")

    def ev_attr(self, n):
        if isinstance(n.value, ast.Name) and n.value.id in ("_ast", "MemoryInstance"):
            fail(n, "module attribute outside a call")
        v = self.ev(n.value)
        if isinstance(v, Obj):
            if n.attr == "subfragments" and v.cls == "Fragment":
                return SubfragSplit(v)
            if n.attr in v.fields:
                return v.fields[n.attr]
            fail(n, f"field .{n.attr} of {v.cls}")
        if isinstance(v, V):
            if v.ctor is not None:
                if n.attr == "operands" and v.ctor.operands is not None:
                    return StaticList(v.ctor.operands)
                if n.attr == "operator" and v.ctor.opstr is not None:
                    return StaticStr(v.ctor.opstr)
                if n.attr in v.ctor.fields:
                    return v.ctor.fields[n.attr]
                fail(n, f"field .{n.attr} of {v.ctor.cls}")
            if v.ty == "sig":
                self.tab_used = True
                if n.attr == "reset_less":
                    return V(f"(sd_reset_less (tab {v.term}))", "bool")
                if n.attr == "init":
                    return V(f"(sd_init (tab {v.term}))", "Z")
                fail(n, "signal attribute")
            if v.ty in REC_OF_TY:
                for f, proj, ty in RECORDS[REC_OF_TY[v.ty]][1]:
                    if f == n.attr:
                        return V(f"({proj} {v.term})", ty)
                fail(n, f"field .{n.attr} of a {v.ty}")
        fail(n, "attribute")

    def ev_subscript(self, n):
        v = self.ev(n.value)
        if isinstance(n.slice, ast.Slice):
            if n.slice.step is not None or n.slice.lower is None or n.slice.upper is None:
                fail(n, "slice form")
            e = self.to_term(v, "expr", n)
            lo = self.to_term(self.ev(n.slice.lower), "optZ", n)
            hi = self.to_term(self.ev(n.slice.upper), "optZ", n)
            return V(f"(Derived.oget (Derived.mk_getitem_key {e} (Derived.Key {lo} {hi} None)))", "expr")
        if isinstance(v, StaticList) and is_const(n.slice, int) and 0 <= n.slice.value < len(v.items):
            return v.items[n.slice.value]
        if isinstance(v, V) and isinstance(v.ty, tuple) and v.ty[0] == "dict":
            k = self.to_term(self.ev(n.slice), v.ty[1], n)
            if v.ty[2] not in KEYERROR:
                fail(n, "dict value type without a KeyError poison")
            return V(f"(dict_get {v.term} {k} {KEYERROR[v.ty[2]]})", v.ty[2])
        fail(n, "subscript")

    def bind_pattern(self, target, ety, node):
        """Bind the loop / comprehension target to fresh Gallina names; returns the Gallina pattern."""
        if is_name(target):
            nm = self.fresh(target.id)
            if ety in REC_OF_TY:
                ctor, fields, _ = RECORDS[REC_OF_TY[ety]]
                o = self.new_obj(REC_OF_TY[ety], {f: V(f"({proj} {nm})", ty) for f, proj, ty in fields}, loopvar=nm)
                self.frame.locals[target.id] = o
            else:
                self.frame.locals[target.id] = V(nm, ety)
            return nm
        if isinstance(target, ast.Tuple) and all(is_name(e) for e in target.elts):
            if ety == "case3":
                tys = ["pats", T_STMTS, None]
            elif ety == "subfrag_mem":
                tys = ["meminst", None, None]
            elif ety == "subfrag_frag":
                tys = ["frag", None, None]
            elif isinstance(ety, tuple) and ety[0] == "tuple":
                tys = list(ety[1:])
            else:
                fail(node, "tuple target over non-tuple elements")
            if len(tys) != len(target.elts):
                fail(node, "tuple target arity")
            names = []
            for e, t in zip(target.elts, tys):
                if t is None:
                    self.frame.locals[e.id] = Unmod("name / source location of a subfragment or case")
                else:
                    nm = self.fresh(e.id)
                    self.frame.locals[e.id] = V(nm, t)
                    names.append(nm)
            return names[0] if len(names) == 1 else "'(" + ", ".join(names) + ")"
        fail(node, "loop target")

    def elem_ty(self, v, node):
        if isinstance(v, V) and isinstance(v.ty, tuple) and v.ty[0] == "list":
            return v.ty[1]
        fail(node, "iteration over a value that is not a list")

    def ev_comp(self, n):
        if len(n.generators) != 1 or n.generators[0].ifs or n.generators[0].is_async:
            fail(n, "comprehension form")
        g = n.generators[0]
        it = self.ev(g.iter)
        saved = dict(self.frame.locals)
        try:
            if isinstance(it, StaticList):
                if not is_name(g.target):
                    fail(n, "comprehension target over a static list")
                out = []
                for x in it.items:
                    self.frame.locals[g.target.id] = x
                    out.append(self.ev(n.elt))
                return StaticList(out)
            ety = self.elem_ty(it, n)
            nobj = len(self.objs)
            pat = self.bind_pattern(g.target, ety, n)
            e = self.ev(n.elt)
            ty = self.infer_ty(e, n)
            del self.objs[nobj:]
            return V(f"(map (fun {pat} => {self.to_term(e, ty, n)}) {it.term})", ("list", ty))
        finally:
            self.frame.locals = saved

    # ------------------------------------------------------------ calls (expression level)
    def kwargs(self, n, allowed):
        out = {}
        for kw in n.keywords:
            if kw.arg in ("src_loc", "src_loc_at"):
                continue                                   # source locations are not modelled
            if kw.arg is None or kw.arg not in allowed:
                fail(n, f"keyword argument {kw.arg}")
            out[kw.arg] = self.ev(kw.value)
        return out

    def ev_call(self, n):
        f = n.func
        ftxt = ast.unparse(f)
        # ---- builtins
        if ftxt == "len" and len(n.args) == 1 and not n.keywords:
            v = self.ev(n.args[0])
            if isinstance(v, V) and v.ty == "expr":
                return V(f"(ewidth {v.term})", "Z")
            if isinstance(v, V) and v.ty == "sig":
                self.tab_used = True
                return V(f"(width (sd_shape (tab {v.term})))", "Z")
            fail(n, "len of this value")
        if ftxt in ("OrderedDict", "dict") and len(n.args) == 1 and not n.keywords:
            v = self.ev(n.args[0])
            if isinstance(v, V) and isinstance(v.ty, tuple) and v.ty[0] == "dict":
                return V(v.term, v.ty)
            fail(n, "dict copy of a non-dict")
        if ftxt == "map" and len(n.args) == 2 and not n.keywords:
            fn, l = n.args
            lv = self.ev(l)
            ety = self.elem_ty(lv, n)
            if isinstance(fn, ast.Attribute) and is_name(fn.value, "self"):
                x = self.fresh("x")
                r = self.call_method(self.frame.selfobj, fn.attr, [V(x, ety)], {}, n, None)
                return V(f"(map (fun {x} => {self.to_term(r, self.infer_ty(r, n), n)}) {lv.term})", ("list", self.infer_ty(r, n)))
            fail(n, "map form")
        if ftxt == "flatten" and len(n.args) == 1 and not n.keywords:
            v = self.ev(n.args[0])
            if isinstance(v, V) and v.ty == T_STMTS:
                return v                                    # flatten over statements (none of them iterable)
            fail(n, "flatten of this value")
        if ftxt in ("Statement.cast", "_ast.Statement.cast") and len(n.args) == 1 and not n.keywords:
            v = self.ev(n.args[0])
            return V(self.to_term(v, T_STMTS, n), T_STMTS)
        # ---- constructors of hdl/_ast.py
        if ftxt in ("_StatementList", "_ast._StatementList") and not n.keywords:
            if not n.args:
                return V("(@nil Stmt.stmt)", T_STMTS, empty=True)
            if len(n.args) == 1:
                v = self.ev(n.args[0])
                return V(self.to_term(v, T_STMTS, n), T_STMTS)
        if ftxt == "SignalDict" and not n.args and not n.keywords:
            return V("(@nil (nat * Z))", T_DICT_LHS, empty=True)
        if ftxt == "Const" and len(n.args) == 2 and not n.keywords:
            a, b = self.ev(n.args[0]), self.ev(n.args[1])
            if isinstance(a, V) and a.ty == "Z" and isinstance(b, V) and b.ty == "shape":
                return V(f"(EConst {a.term} {b.term})", "expr")
            if isinstance(a, V) and a.ty == "Z" and isinstance(b, V) and b.ty == "Z":
                return V(f"(EConst {a.term} (Sh {b.term} false))", "expr")
            fail(n, "Const form")
        if ftxt == "Mux" and len(n.args) == 3 and not n.keywords:
            a = [self.to_term(self.ev(x), "expr", n) for x in n.args]
            return V(f"(Derived.mk_mux {a[0]} {a[1]} {a[2]})", "expr")
        if ftxt == "Assign" and len(n.args) == 2:
            self.kwargs(n, ())
            a = [self.to_term(self.ev(x), "expr", n) for x in n.args]
            return V(f"(SAssign {a[0]} {a[1]})", "stmt", pycls="Assign")
        if ftxt == "Slice" and len(n.args) == 3:
            self.kwargs(n, ())
            a, lo, hi = [self.ev(x) for x in n.args]
            return V(f"(ESlice {self.to_term(a, 'expr', n)} {self.to_term(lo, 'Z', n)} {self.to_term(hi, 'Z', n)})", "expr")
        if ftxt == "Part" and len(n.args) == 4:
            self.kwargs(n, ())
            a, o, w, st = [self.ev(x) for x in n.args]
            return V(f"(EPart {self.to_term(a, 'expr', n)} {self.to_term(o, 'expr', n)} {self.to_term(w, 'Z', n)} "
                     f"{self.to_term(st, 'Z', n)})", "expr")
        if ftxt == "Concat" and len(n.args) == 1:
            self.kwargs(n, ())
            v = self.ev(n.args[0])
            return V(f"(ECat {self.to_term(v, ('list', 'expr'), n)})", "expr")
        if ftxt == "Operator" and len(n.args) == 2:
            self.kwargs(n, ())
            op, ops = self.ev(n.args[0]), self.ev(n.args[1])
            if isinstance(op, StaticStr) and isinstance(ops, StaticList):
                tab = dict(OP1) if len(ops.items) == 1 else dict(OP2) if len(ops.items) == 2 else {}
                if op.s in tab:
                    return V(f"({'EOp1' if len(ops.items) == 1 else 'EOp2'} {tab[op.s]} "
                             + " ".join(self.to_term(x, "expr", n) for x in ops.items) + ")", "expr")
            fail(n, "Operator form")
        if ftxt == "SwitchValue" and len(n.args) == 2:
            self.kwargs(n, ())
            t, cs = self.ev(n.args[0]), self.ev(n.args[1])
            return V(f"(ESwitch {self.to_term(t, 'expr', n)} {self.to_term(cs, T_CASES_V, n)})", "expr")
        if ftxt == "Switch" and len(n.args) == 2:
            self.kwargs(n, ())
            t, cs = self.ev(n.args[0]), self.ev(n.args[1])
            tt = self.to_term(t, "expr", n)
            if isinstance(cs, StaticList):
                out = []
                for c in cs.items:
                    if not (isinstance(c, Tup) and len(c.items) == 3 and isinstance(c.items[2], (PyNone, Unmod))):
                        fail(n, "Switch case must be (patterns, statements, src_loc)")
                    k, body = c.items[0], c.items[1]
                    if isinstance(k, V) and k.ty == "Z":
                        pats = f"(Some (switch_int_key {tt} {k.term}))"
                    else:
                        pats = self.to_term(k, "pats", n)
                    out.append(f"({pats}, {self.to_term(body, T_STMTS, n)})")
                return V(f"(SSwitch {tt} [" + "; ".join(out) + "])", "stmt", pycls="Switch")
            return V(f"(SSwitch {tt} {self.to_term(cs, T_CASES_S, n)})", "stmt", pycls="Switch")
        if ftxt == "ClockSignal" and len(n.args) == 1 and not n.keywords:
            if not self.base_param:
                fail(n, "late-bound signal outside the DomainRenamer value transformer")
            d = self.to_term(self.ev(n.args[0]), "dom", n)
            return V(f"(ESig (cs_index base {d} 0) (Sh 1 false))", "expr")
        if ftxt == "ResetSignal" and len(n.args) == 1:
            if not self.base_param:
                fail(n, "late-bound signal outside the DomainRenamer value transformer")
            kw = self.kwargs(n, ("allow_reset_less",))
            if set(kw) != {"allow_reset_less"}:
                fail(n, "ResetSignal(domain, allow_reset_less=...) expected")
            d = self.to_term(self.ev(n.args[0]), "dom", n)
            b = self.as_bool(kw["allow_reset_less"], n)
            return V(f"(ESig (cs_index base {d} (if {b} then 1 else 2)%nat) (Sh 1 false))", "expr")
        # ---- objects
        if ftxt == "LHSMaskCollector" and not n.args and not n.keywords:
            o = self.new_obj("LHSMaskCollector", {})
            self.inline_init(o, "__init__", n)
            return o
        if ftxt == "Fragment" and not n.args:
            self.kwargs(n, ())
            return self.new_obj("Fragment", {"statements": V("(@nil (nat * list Stmt.stmt))", T_DICT_ST, empty=True),
                                             "mems": V("(@nil meminst)", ("list", "meminst"), empty=True),
                                             "subs": V("(@nil frag)", ("list", "frag"), empty=True)})
        if ftxt == "MemoryInstance" and not n.args:
            kw = self.kwargs(n, ("data", "attrs"))
            if not isinstance(kw.get("data"), MemData):
                fail(n, "MemoryInstance(data=...)")
            return self.new_obj("MemoryInstance", {"_data": kw["data"],
                                                   "_read_ports": V("(@nil rport)", ("list", "rport"), empty=True),
                                                   "_write_ports": V("(@nil wport)", ("list", "wport"), empty=True),
                                                   "statements": V("(@nil (nat * list Stmt.stmt))", T_DICT_ST, empty=True)})
        if ftxt in ("MemoryInstance._ReadPort", "MemoryInstance._WritePort") and not n.args:
            ctor, fields, ty = RECORDS[ftxt.split(".")[1]]
            kw = self.kwargs(n, tuple(f[0][1:] for f in fields))
            if set(kw) != {f[0][1:] for f in fields}:
                fail(n, "port constructor keywords")
            return V(f"({ctor} " + " ".join(self.to_term(kw[f[1:]], t, n) for f, _, t in fields) + ")", ty)
        # ---- self(...) : __call__
        if is_name(f, "self"):
            args = [self.ev(a) for a in n.args]
            return self.call_method(self.frame.selfobj, "__call__", args, self.kwargs(n, ()), n, None)
        # ---- method calls
        if isinstance(f, ast.Attribute):
            if isinstance(f.value, ast.Call) and is_name(f.value.func, "super") and not f.value.args:
                args = [self.ev(a) for a in n.args]
                return self.call_method(self.frame.selfobj, f.attr, args, self.kwargs_any(n), n, self.frame.defcls)
            recv = self.ev(f.value)
            args = [self.ev(a) for a in n.args]
            if isinstance(recv, Obj):
                return self.call_method(recv, f.attr, args, self.kwargs_any(n), n, None)
            if isinstance(recv, V):
                if isinstance(recv.ty, tuple) and recv.ty[0] == "dict":
                    if f.attr == "items" and not args:
                        return V(recv.term, ("list", ("tuple", recv.ty[1], recv.ty[2])), empty=recv.empty)
                    if f.attr == "get" and len(args) == 2:
                        return V(f"(dict_get {recv.term} {self.to_term(args[0], recv.ty[1], n)} "
                                 f"{self.to_term(args[1], recv.ty[2], n)})", recv.ty[2])
                if f.attr == "eq" and len(args) == 1 and recv.ty in ("sig", "expr") and not n.keywords:
                    return V(f"(SAssign {self.to_term(recv, 'expr', n)} {self.to_term(args[0], 'expr', n)})", "stmt",
                             pycls="Assign")                  # Value.eq (ONE_LINERS)
                if f.attr == "shape" and not args and recv.ty == "sig":
                    self.tab_used = True
                    return V(f"(sd_shape (tab {recv.term}))", "shape")
                if f.attr == "shape" and not args and recv.ty == "expr":
                    return V(f"(shape_of {recv.term})", "shape")
        fail(n, "call")

    def kwargs_any(self, n):
        out = {}
        for kw in n.keywords:
            if kw.arg in ("src_loc", "src_loc_at"):
                continue
            if kw.arg is None:
                fail(n, "**kwargs")
            out[kw.arg] = self.ev(kw.value)
        return out

    # ------------------------------------------------------------ method calls
    ENTRY_NAMES = ("on_fragment", "on_value", "on_statement", "visit_value", "visit_stmt", "chunks", "add_statements")

    def entry_term(self, recv, mname, args, node):
        """Gallina call for a recursive / previously generated entry point, or None when the call must be inlined."""
        if mname == "on_fragment" and len(args) == 1 and isinstance(args[0], V) and args[0].ty in ("frag", "meminst"):
            return V(f"({self.rec_call(recv, (recv.cls, 'on_fragment', args[0].ty), node)} {args[0].term})", args[0].ty)
        if mname == "on_value" and len(args) == 1 and isinstance(args[0], V) and args[0].ty == "expr" and args[0].ctor is None:
            d = self.resolve(recv.cls, "on_value")
            if d is not None and d[0] == "ValueVisitor":
                return V(f"({self.rec_call(recv, (recv.cls, 'on_value'), node)} {args[0].term})", "expr")
        if mname == "on_statement" and len(args) == 1 and isinstance(args[0], V) and args[0].ty == "stmt" and args[0].ctor is None:
            d = self.resolve(recv.cls, "on_statement")
            if d is None or d[0] != "StatementVisitor":
                fail(node, "on_statement is overridden")
            return V(f"({self.rec_call(recv, (recv.cls, 'on_statement'), node)} {args[0].term})", "stmt")
        if mname == "chunks" and recv.cls == "LHSMaskCollector" and not args:
            self.tab_used = True
            lhs = recv.fields["lhs"]
            return V(f"(lhs_chunks tab {lhs.term})", ("list", T_CHUNK))
        return None

    def rec_call(self, recv, key, node):
        if key not in self.self_rec:
            fail(node, f"no generated function for {key}")
        name, tab, pname = self.self_rec[key]
        p = recv.fields.get(pname)
        if not isinstance(p, V):
            fail(node, f"field {pname} of the transformer")
        if tab is None:
            t = "@TAB@"
        elif tab:
            self.tab_used = True
            t = "tab "
        else:
            t = ""
        return f"{name} {t}{p.term}"

    def entry_effect(self, recv, mname, args, node):
        """Statement-level entry calls that update a field of the receiver; returns (field, term) or None."""
        if recv.cls == "LHSMaskCollector" and mname == "visit_value" and len(args) == 2 and \
                isinstance(args[0], V) and args[0].ty == "expr" and args[0].ctor is None:
            return "lhs", f"(lhs_visit_value {args[0].term} {self.to_term(args[1], 'Z', node)} {recv.fields['lhs'].term})", T_DICT_LHS
        if recv.cls == "LHSMaskCollector" and mname == "visit_stmt" and len(args) == 1 and \
                isinstance(args[0], V) and args[0].ty == "stmt" and args[0].ctor is None:
            return "lhs", f"(lhs_visit_stmt {args[0].term} {recv.fields['lhs'].term})", T_DICT_LHS
        if recv.cls in ("Fragment", "MemoryInstance") and mname == "add_statements" and len(args) == 2:
            d = self.resolve(recv.cls, "add_statements")
            if d is None or d[0] != "Fragment":
                fail(node, "add_statements is overridden")
            return "statements", (f"(frag_add_statements {self.to_term(args[0], 'dom', node)} "
                                  f"{self.to_term(args[1], T_STMTS, node)} {recv.fields['statements'].term})"), T_DICT_ST
        return None

    def bind_params(self, fn, qual, selfobj, args, kw, node):
        a = fn.args
        if a.posonlyargs or a.kwarg or fn.decorator_list:
            fail(fn, f"{qual}: signature form")
        names = [x.arg for x in a.args]
        if not names or names[0] != "self":
            fail(fn, f"{qual}: first parameter is not self")
        loc = {"self": selfobj}
        names = names[1:]
        if len(args) > len(names) and a.vararg is None:
            fail(node, f"{qual}: too many arguments")
        for nm, v in zip(names, args):
            loc[nm] = v
        if a.vararg is not None:
            extra = args[len(names):]
            if len(extra) != 1:
                fail(node, f"{qual}: *{a.vararg.arg} with {len(extra)} arguments")
            loc[a.vararg.arg] = extra[0]
        defaults = dict(zip(names[len(names) - len(a.defaults):], a.defaults))
        for x, d in zip(a.kwonlyargs, a.kw_defaults):
            names.append(x.arg)
            if d is not None:
                defaults[x.arg] = d
        for nm in names:
            if nm in loc:
                continue
            if nm in kw:
                loc[nm] = kw[nm]
            elif nm in ("src_loc", "src_loc_at"):
                loc[nm] = Unmod("source location")
            elif nm in defaults and is_const(defaults[nm]):
                loc[nm] = PyNone() if defaults[nm].value is None else Unmod("default argument")
            else:
                fail(node, f"{qual}: parameter {nm} not supplied")
        for k in kw:
            if k not in names:
                fail(node, f"{qual}: unexpected keyword {k}")
        return loc

    def push(self, cls, fn, qual, selfobj, loc):
        fr = Frame(qual, cls, selfobj)
        fr.locals = loc
        self.frames.append(fr)
        self.entered[id(fn)] = (qual, fn)
        return fr

    def call_method(self, recv, mname, args, kw, node, after):
        """Expression-level call of a method of a known class: an entry term, or a pure inline."""
        if recv is None:
            fail(node, "method call without a receiver object")
        if after is None:
            t = self.entry_term(recv, mname, args, node)
            if t is not None:
                return t
        d = self.resolve(recv.cls, mname, after)
        if d is None:
            fail(node, f"method {mname} not found for class {recv.cls}")
        cls, fn = d
        qual = f"{cls}.{mname}"
        loc = self.bind_params(fn, qual, recv, args, kw, node)
        fr = self.push(cls, fn, qual, recv, loc)
        fr.pure = True
        try:
            r = self.pure_block(list(fn.body), qual)
        finally:
            self.frames.pop()
        if r is None:
            fail(node, f"{qual}: no value returned on this path")
        return r

    def pure_block(self, stmts, qual):
        """Straight-line evaluation: skipped statements, local assignments, statically decided ifs, return."""
        for s in stmts:
            self.visited.add(id(s))
            text = ast.unparse(s)
            if isinstance(s, ast.Expr) and is_const(s.value, str):
                continue
            if text in SKIP:
                self.mark([s])
                continue
            if isinstance(s, ast.Return):
                if s.value is None:
                    fail(s, "bare return in an expression-level call")
                return self.ev(s.value)
            if isinstance(s, ast.Assign) and len(s.targets) == 1 and is_name(s.targets[0]):
                self.frame.locals[s.targets[0].id] = self.ev(s.value)
                continue
            if isinstance(s, ast.If):
                r = self.static(s.test)
                if r is None:
                    fail(s, f"{qual}: run-time test inside a call used as an expression")
                v = self.pure_block(s.body if r else s.orelse, qual)
                if v is not None:
                    return v
                continue
            fail(s, f"{qual}: statement form inside a call used as an expression")
        return None

    def inline_init(self, obj, mname, node):
        """__init__ of a helper object: `self.x = <expr>` assignments only."""
        d = self.resolve(obj.cls, mname)
        if d is None:
            fail(node, f"{obj.cls}.{mname} not found")
        cls, fn = d
        loc = self.bind_params(fn, f"{cls}.{mname}", obj, [], {}, node)
        self.push(cls, fn, f"{cls}.{mname}", obj, loc)
        try:
            for s in fn.body:
                self.visited.add(id(s))
                if isinstance(s, ast.Assign) and len(s.targets) == 1 and isinstance(s.targets[0], ast.Attribute) and \
                        is_name(s.targets[0].value, "self"):
                    obj.fields[s.targets[0].attr] = self.ev(s.value)
                else:
                    fail(s, f"{cls}.{mname}: statement form")
        finally:
            self.frames.pop()

    # ------------------------------------------------------------ statements
    def let(self, base, v, k):
        """Bind a Gallina value to a fresh name (atoms are not rebound); k(new value) gives the rest."""
        if is_atom(v.term):
            return k(v)
        nm = self.fresh(base)
        nv = V(nm, v.ty, pycls=v.pycls)
        return f"(let {nm} := {v.term} in\n {k(nv)})"

    def tuple_of(self, cells):
        names = [self.cell_get(c).term for c in cells]
        if not names:
            return "tt"
        return names[0] if len(names) == 1 else "(" + ", ".join(names) + ")"

    def tuple_ty(self, cells):
        tys = [coqty(c[3].ty) for c in cells]
        if not tys:
            return "unit"
        return tys[0] if len(tys) == 1 else "(" + " * ".join(tys) + ")"

    def rebind(self, cells, base="s"):
        """Give every cell a fresh Gallina name; returns the pattern binding them."""
        names = []
        for c in cells:
            nm = self.fresh(str(c[2]))
            self.cell_set(c, V(nm, c[3].ty))
            names.append(nm)
        if not names:
            return "_"
        return names[0] if len(names) == 1 else "'(" + ", ".join(names) + ")"

    def dry_run(self, run, node, kind, trap=None):
        """Run `run()` (its text is thrown away) to learn which cells it modifies; for kind "if" also whether
        control leaves the enclosing block (return / continue of an enclosing loop / raise)."""
        snap = self.snapshot()
        self.drystack.append((kind, trap))
        saved_raise = self.raised_in_dry
        self.raised_in_dry = False
        escaped = False
        try:
            try:
                run()
            except Escape:
                escaped = True
            cells = self.modified(snap, node) if not escaped else []
            raised = self.raised_in_dry
        finally:
            self.drystack.pop()
            self.raised_in_dry = saved_raise or self.raised_in_dry
            self.restore(snap)
        return cells, escaped, raised

    def escapes(self, what):
        """Inside the dry run of an `if` branch: does this return / continue leave the block of that `if`?"""
        if not self.drystack or self.drystack[-1][0] != "if":
            return False
        fr, depth = self.drystack[-1][1]
        if what == "continue":
            return fr is self.frame and len(self.frame.loops) == depth
        return fr is self.frame

    def assign(self, target, v, node, k):
        if is_name(target):
            if isinstance(v, V):
                def bound(nv):
                    self.frame.locals[target.id] = nv if nv is not v else V(v.term, v.ty, v.pycls, v.ctor, v.empty)
                    return k()
                return self.let(target.id, v, bound)
            self.frame.locals[target.id] = v
            return k()
        if isinstance(target, ast.Attribute):
            o = self.ev(target.value)
            if not isinstance(o, Obj):
                fail(node, "attribute assignment on a value that is not an object")
            if target.attr not in o.fields and not (o is self.frame.selfobj and self.frame.qual.endswith(".__init__")):
                fail(node, f"new field .{target.attr} on {o.cls}")
            if isinstance(v, V):
                if target.attr in o.fields and isinstance(o.fields[target.attr], V) and o.fields[target.attr].ty != v.ty:
                    fail(node, f"field .{target.attr} changes type")

                def bound(nv):
                    o.fields[target.attr] = nv if nv is not v else V(v.term, v.ty, v.pycls, v.ctor, v.empty)
                    return k()
                return self.let(target.attr, v, bound)
            o.fields[target.attr] = v
            return k()
        if isinstance(target, ast.Subscript):
            cell = self.lvalue(target.value, node)
            d = self.cell_get(cell)
            if not (isinstance(d, V) and isinstance(d.ty, tuple) and d.ty[0] == "dict"):
                fail(node, "subscript assignment on a non-dict")
            kk = self.to_term(self.ev(target.slice), d.ty[1], node)
            nv = V(f"(dict_set {d.term} {kk} {self.to_term(v, d.ty[2], node)})", d.ty)

            def bound(x):
                self.cell_set(cell, x)
                return k()
            return self.let(str(cell[2]), nv, bound)
        fail(node, "assignment target")

    def lvalue(self, n, node):
        if is_name(n) and n.id in self.frame.locals:
            return ("L", self.frame, n.id, None)
        if isinstance(n, ast.Attribute):
            o = self.ev(n.value)
            if isinstance(o, Obj) and n.attr in o.fields:
                return ("F", o, n.attr, None)
        fail(node, "not a state cell")

    def do_raise(self, s):
        if self.drystack:
            self.raised_in_dry = True
            if self.drystack[-1][0] == "if":
                raise Escape()
        if self.kraise is not None:
            return self.kraise()
        if self.drystack:
            return "None"
        fail(s, "raise outside a partial function")

    def block(self, stmts, k):
        """Gallina for the statement list; k() is the Gallina for falling off its end."""
        if not stmts:
            return k()
        s, rest = stmts[0], stmts[1:]
        self.visited.add(id(s))
        cont = lambda: self.block(rest, k)
        text = ast.unparse(s)
        if isinstance(s, ast.Expr) and is_const(s.value, str):
            return cont()
        if text in SKIP:
            self.mark([s])
            return cont()
        if isinstance(s, ast.Pass):
            return cont()
        if isinstance(s, ast.Assert):
            if self.state_mode == "lhs" and text in ASSERT_UNCHANGED:
                r = False if text == "assert False" else self.static(s.test)
                if r is True:
                    return cont()
                if r is False:
                    # AssertionError: the collector is left as it is (ASSERT_UNCHANGED)
                    self.mark(rest)
                    if self.frame.kret is None or self.frame.loops:
                        fail(s, "failing assert here")
                    if self.escapes("return"):
                        raise Escape()
                    return self.frame.kret(PyNone())
            fail(s, "assert")
        if isinstance(s, ast.Return):
            if rest:
                fail(rest[0], "statement after return")
            if self.frame.loops:
                fail(s, "return inside a loop")
            if self.frame.kret is None:
                fail(s, "return here")
            if self.escapes("return"):
                raise Escape()
            v = PyNone() if s.value is None else None
            if v is None:
                return self.eval_then(s.value, lambda x: self.frame.kret(x))
            return self.frame.kret(v)
        if isinstance(s, ast.Raise):
            return self.do_raise(s)
        if isinstance(s, ast.Continue):
            if rest:
                fail(rest[0], "statement after continue")
            if not self.frame.loops:
                fail(s, "continue outside a loop of this method")
            if self.escapes("continue"):
                raise Escape()
            return self.frame.loops[-1]()
        if isinstance(s, ast.Assign):
            if len(s.targets) != 1:
                fail(s, "multiple assignment targets")
            return self.eval_then(s.value, lambda v: self.assign(s.targets[0], v, s, cont))
        if isinstance(s, ast.AugAssign):
            cur = ast.copy_location(ast.BinOp(left=self.as_load(s.target), op=s.op, right=s.value), s)
            v = self.ev(cur)
            return self.assign(s.target, v, s, cont)
        if isinstance(s, ast.Expr) and isinstance(s.value, (ast.Yield,)):
            return self.do_yield(s, cont)
        if isinstance(s, ast.Expr) and isinstance(s.value, ast.Call):
            return self.call_stmt(s.value, cont)
        if isinstance(s, ast.If):
            return self.do_if(s, rest, k)
        if isinstance(s, ast.For):
            return self.do_for(s, cont)
        if isinstance(s, ast.While):
            return self.do_while(s, cont)
        fail(s, "statement")

    @staticmethod
    def as_load(t):
        t2 = ast.parse(ast.unparse(t), mode="eval").body
        return t2

    def do_yield(self, s, cont):
        if self.yield_cell is None or s.value.value is None:
            fail(s, "yield outside a generator entry")
        fr, nm = self.yield_cell
        cur = fr.locals[nm]
        v = self.ev(s.value.value)
        nv = V(f"({cur.term} ++ [{self.to_term(v, self.yield_ty, s)}])", cur.ty)

        def bound(x):
            fr.locals[nm] = x
            return cont()
        return self.let("out", nv, bound)

    def eval_then(self, node, kv):
        """Evaluate an expression at statement level: calls of (non-entry) methods are inlined as statements."""
        if isinstance(node, ast.Call):
            tgt = self.method_target(node)
            if tgt is not None:
                recv, mname, after = tgt
                args = [self.ev(a) for a in node.args]
                kw = self.kwargs_any(node)
                if after is None:
                    t = self.entry_term(recv, mname, args, node)
                    if t is not None:
                        return kv(t)
                return self.inline_stmt(recv, mname, args, kw, node, after, kv)
        return kv(self.ev(node))

    def method_target(self, call):
        """(receiver object, method, super-class or None) when the call is a method call on a known object."""
        f = call.func
        if is_name(f, "self"):
            return self.frame.selfobj, "__call__", None
        if isinstance(f, ast.Attribute):
            if isinstance(f.value, ast.Call) and is_name(f.value.func, "super") and not f.value.args:
                return self.frame.selfobj, f.attr, self.frame.defcls
            if isinstance(f.value, (ast.Name, ast.Attribute)):
                try:
                    recv = self.ev(f.value)
                except Unsupported:
                    return None
                if isinstance(recv, Obj) and recv.cls in self.classes and recv.cls not in RECORDS:
                    return recv, f.attr, None
        return None

    def inline_stmt(self, recv, mname, args, kw, node, after, kret):
        d = self.resolve(recv.cls, mname, after)
        if d is None:
            fail(node, f"method {mname} not found for class {recv.cls}")
        cls, fn = d
        qual = f"{cls}.{mname}"
        if len(self.frames) > 40:
            fail(node, "inlining too deep (recursion?)")
        loc = self.bind_params(fn, qual, recv, args, kw, node)
        fr = self.push(cls, fn, qual, recv, loc)
        depth = len(self.frames)

        def ret(v):
            # leave the callee: the continuation runs in the caller's frame
            saved = self.frames[depth - 1:]
            del self.frames[depth - 1:]
            try:
                return kret(v)
            finally:
                self.frames.extend(saved)
        fr.kret = ret
        try:
            return self.block(list(fn.body), lambda: ret(PyNone()))
        finally:
            if len(self.frames) >= depth and self.frames[depth - 1] is fr:
                del self.frames[depth - 1:]

    def call_stmt(self, call, cont):
        f = call.func
        # d.setdefault(k, <empty list>).append(x)
        if isinstance(f, ast.Attribute) and f.attr == "append" and len(call.args) == 1 and not call.keywords and \
                isinstance(f.value, ast.Call) and isinstance(f.value.func, ast.Attribute) and \
                f.value.func.attr == "setdefault" and len(f.value.args) == 2 and not f.value.keywords:
            cell = self.lvalue(f.value.func.value, call)
            d = self.cell_get(cell)
            if not (isinstance(d, V) and isinstance(d.ty, tuple) and d.ty[0] == "dict" and isinstance(d.ty[2], tuple)
                    and d.ty[2][0] == "list" and d.ty[2] in KEYERROR):
                fail(call, "setdefault(..).append(..) on this value")
            kk = self.to_term(self.ev(f.value.args[0]), d.ty[1], call)
            dflt = self.ev(f.value.args[1])
            if not (isinstance(dflt, V) and dflt.empty and dflt.ty == d.ty[2]):
                fail(call, "setdefault default must be a new empty list")
            x = self.to_term(self.ev(call.args[0]), d.ty[2][1], call)
            d1 = V(f"(dict_setdefault {d.term} {kk} {dflt.term})", d.ty)

            def step2(b1):
                d2 = V(f"(dict_set {b1.term} {kk} ((dict_get {b1.term} {kk} {KEYERROR[d.ty[2]]}) ++ [{x}]))", d.ty)

                def done(b2):
                    self.cell_set(cell, b2)
                    return cont()
                return self.let(str(cell[2]), d2, done)
            return self.let(str(cell[2]), d1, step2)
        # d.setdefault(k, v)
        if isinstance(f, ast.Attribute) and f.attr == "setdefault" and len(call.args) == 2 and not call.keywords:
            cell = self.lvalue(f.value, call)
            d = self.cell_get(cell)
            if isinstance(d, V) and isinstance(d.ty, tuple) and d.ty[0] == "dict":
                kk = self.to_term(self.ev(call.args[0]), d.ty[1], call)
                vv = self.to_term(self.ev(call.args[1]), d.ty[2], call)

                def done(b):
                    self.cell_set(cell, b)
                    return cont()
                return self.let(str(cell[2]), V(f"(dict_setdefault {d.term} {kk} {vv})", d.ty), done)
            fail(call, "setdefault on a non-dict")
        # l.append(x) on a list held in exactly one cell
        if isinstance(f, ast.Attribute) and f.attr == "append" and len(call.args) == 1 and not call.keywords:
            cell = self.lvalue(f.value, call)
            l = self.cell_get(cell)
            if isinstance(l, V) and isinstance(l.ty, tuple) and l.ty[0] == "list":
                if self.refcount(l) != 1:
                    fail(call, "append to a list that is aliased")
                xv = self.ev(call.args[0])
                if l.ty[1] is None:
                    l = V(f"(@nil {coqty(self.infer_ty(xv, call))})", ("list", self.infer_ty(xv, call)))
                x = self.to_term(xv, l.ty[1], call)

                def done(b):
                    self.cell_set(cell, b)
                    return cont()
                return self.let(str(cell[2]), V(f"({l.term} ++ [{x}])", l.ty), done)
            fail(call, "append on a non-list")
        tgt = self.method_target(call)
        if tgt is None:
            fail(call, "call statement")
        recv, mname, after = tgt
        # new_fragment.add_subfragment(x, name, src_loc=src_loc)   (body text checked by EXPECT_BODY)
        if mname == "add_subfragment" and recv.cls == "Fragment" and after is None:
            d = self.resolve(recv.cls, mname)
            if d is None or d[0] != "Fragment" or not call.args:
                fail(call, "add_subfragment")
            x = self.ev(call.args[0])
            for extra in call.args[1:]:
                if not isinstance(self.ev(extra), (Unmod, PyNone)):
                    fail(call, "add_subfragment name")
            if not (isinstance(x, V) and x.ty in ("frag", "meminst")):
                fail(call, "add_subfragment of a non-fragment")
            fld = "subs" if x.ty == "frag" else "mems"
            l = recv.fields[fld]

            def done(b):
                recv.fields[fld] = b
                return cont()
            return self.let(fld, V(f"({l.term} ++ [{x.term}])", l.ty), done)
        args = [self.ev(a) for a in call.args]
        kw = self.kwargs_any(call)
        if after is None:
            eff = self.entry_effect(recv, mname, args, call)
            if eff is not None:
                fld, term, ty = eff

                def done(b):
                    recv.fields[fld] = b
                    return cont()
                return self.let(fld, V(term, ty), done)
        return self.inline_stmt(recv, mname, args, kw, call, after, lambda v: cont())

    # ------------------------------------------------------------ if
    def do_if(self, s, rest, k):
        r = self.static(s.test)
        cont = lambda: self.block(rest, k)
        if r is True:
            return self.block(list(s.body), cont)
        if r is False:
            return self.block(list(s.orelse), cont)
        cond = self.as_bool(self.ev(s.test), s)
        trap = (self.frame, len(self.frame.loops))
        cb, eb, rb = self.dry_run(lambda: self.block(list(s.body), lambda: ""), s, "if", trap)
        co, eo, ro = self.dry_run(lambda: self.block(list(s.orelse), lambda: ""), s, "if", trap)
        if eb or eo:
            # a branch leaves the block: the rest of the block is the continuation of both branches
            snap = self.snapshot()
            a = self.block(list(s.body), cont)
            self.restore(snap)
            b = self.block(list(s.orelse), cont)
            return f"(if {cond}\n then {a}\n else {b})"
        cells = list(cb)
        for c in co:
            if not any(c[0] == d[0] and c[1] is d[1] and c[2] == d[2] for d in cells):
                cells.append(c)
        if not cells:
            fail(s, "run-time test whose branches change nothing")
        snap = self.snapshot()
        a = self.block(list(s.body), lambda: self.tuple_of(cells))
        self.restore(snap)
        b = self.block(list(s.orelse), lambda: self.tuple_of(cells))
        self.restore(snap)
        pat = self.rebind(cells)
        return f"(let {pat} := (if {cond}\n then {a}\n else {b}) in\n {cont()})"

    # ------------------------------------------------------------ for
    def do_for(self, s, cont):
        if s.orelse:
            fail(s, "for-else")
        for n in ast.walk(ast.Module(body=s.body, type_ignores=[])):
            if isinstance(n, ast.Break):
                fail(n, "break")
        it = self.ev(s.iter)
        if isinstance(it, SubfragSplit):
            o = it.obj
            return self.for_list(s, o.fields["mems"], "subfrag_mem",
                                 lambda: self.for_list(s, o.fields["subs"], "subfrag_frag", cont))
        if isinstance(it, V) and isinstance(it.ty, tuple) and it.ty[0] == "list":
            return self.for_list(s, it, it.ty[1], cont)
        fail(s, "for over this value")

    def for_list(self, s, it, ety, cont):
        if it.empty:
            # iteration over a container that is empty by construction: zero iterations
            self.mark(s.body)
            return cont()
        fr = self.frame

        def run_body(kend, kcont):
            fr.loops.append(kcont)
            try:
                return self.block(list(s.body), kend)
            finally:
                fr.loops.pop()
        # dry run: which cells does one iteration modify?
        nobj0 = len(self.objs)

        def dry():
            self.bind_pattern(s.target, ety, s)
            fr.loops.append(lambda: "")
            try:
                self.block(list(s.body), lambda: "")
            finally:
                fr.loops.pop()
            lv = fr.locals.get(s.target.id) if is_name(s.target) else None
            self._lv_mod = isinstance(lv, Obj) and lv.loopvar is not None and \
                any(lv.fields[f] is not lv.initial[f] for f in lv.initial)
        self._lv_mod = False
        cells, escaped, raised = self.dry_run(dry, s, "loop")
        lv_mod = self._lv_mod
        if escaped:
            fail(s, "loop body leaves the loop")
        saved_locals = dict(fr.locals)
        if lv_mod:
            # the body rewrites fields of its loop variable only: a map over the list
            if cells or raised:
                fail(s, "loop rewrites its elements and other state")
            cell = self.lvalue(s.iter, s)
            pat = self.bind_pattern(s.target, ety, s)
            lv = fr.locals[s.target.id]

            def rebuild():
                ctor, fields, _ = RECORDS[lv.cls]
                return f"({ctor} " + " ".join(lv.fields[f].term for f, _, _ in fields) + ")"
            body = run_body(rebuild, rebuild)
            fr.locals = saved_locals
            del self.objs[nobj0:]

            def done(b):
                self.cell_set(cell, b)
                return cont()
            return self.let(str(cell[2]), V(f"(map (fun {pat} =>\n {body}) {it.term})", it.ty), done)
        init = self.tuple_of(cells)
        snap = self.snapshot()
        accpat = self.rebind(cells)
        epat = self.bind_pattern(s.target, ety, s)
        if raised:
            # a raise inside the loop: the accumulator is an option, None once an exception was raised
            old_kraise = self.kraise
            self.kraise = lambda: "None"
            try:
                body = run_body(lambda: f"(Some {self.tuple_of(cells)})", lambda: f"(Some {self.tuple_of(cells)})")
            finally:
                self.kraise = old_kraise
            self.restore(snap)
            fr.locals = dict(saved_locals)
            outpat = self.rebind(cells)
            if old_kraise is None:
                fail(s, "raise inside a loop of a total function")
            acc = self.fresh("ok")
            return (f"(match fold_left (fun {acc} {epat} => match {acc} with None => None | Some {accpat if cells else 'tt'} =>\n {body} end) "
                    f"{it.term} (Some {init}) with\n | None => {old_kraise()}\n | Some {outpat if cells else 'tt'} => {cont()}\n end)")
        if not cells:
            fail(s, "loop without effect")
        body = run_body(lambda: self.tuple_of(cells), lambda: self.tuple_of(cells))
        self.restore(snap)
        fr.locals = dict(saved_locals)
        outpat = self.rebind(cells)
        return f"(let {outpat} := fold_left (fun {accpat} {epat} =>\n {body}) {it.term} {init} in\n {cont()})"

    # ------------------------------------------------------------ while
    def do_while(self, s, cont):
        if s.orelse:
            fail(s, "while-else")
        ctext = ast.unparse(s.test)
        if ctext not in WHILE_MEASURE:
            fail(s, "while loop without a declared measure")
        if not self.fuel_param:
            fail(s, "while loop in a function without fuel")
        fr = self.frame
        measure = self.ev(ast.parse(WHILE_MEASURE[ctext], mode="eval").body)
        fuel = f"(Z.to_nat {self.to_term(measure, 'Z', s)} + fuel_)%nat"

        def dry():
            fr.loops.append(lambda: "")
            try:
                self.block(list(s.body), lambda: "")
            finally:
                fr.loops.pop()
        cells, escaped, raised = self.dry_run(dry, s, "loop")
        if escaped or raised:
            fail(s, "while body leaves the loop")
        if not cells:
            fail(s, "while loop without effect")
        init = " ".join(self.cell_get(c).term for c in cells)
        snap = self.snapshot()
        fname = self.fresh("while")
        f1 = self.fresh("fuel")
        params = []
        for c in cells:
            nm = self.fresh(str(c[2]))
            self.cell_set(c, V(nm, c[3].ty))
            params.append(f"({nm} : {coqty(c[3].ty)})")
        exit_t = self.tuple_of(cells)
        cond = self.as_bool(self.ev(s.test), s)
        again = lambda: f"({fname} {f1} " + " ".join(self.cell_get(c).term for c in cells) + ")"
        fr.loops.append(again)
        try:
            body = self.block(list(s.body), again)
        finally:
            fr.loops.pop()
        self.restore(snap)
        outpat = self.rebind(cells)
        return (f"(let {outpat} := (fix {fname} (fuel : nat) {' '.join(params)} {{struct fuel}} : {self.tuple_ty(cells)} :=\n"
                f"   match fuel with\n   | O => {exit_t}\n   | S {f1} =>\n     if {cond}\n     then {body}\n     else {exit_t}\n   end) "
                f"{fuel} {init} in\n {cont()})")

    # ------------------------------------------------------------ entries
    def reset(self):
        self.frames, self.objs = [], []
        self.tab_used = False
        self.state_mode = None
        self.kraise = None
        self.yield_cell = None
        self.fuel_param = False
        self.base_param = False
        self.domnames = {}
        self.drystack = []

    def run(self, recv, mname, args, kfinal, base_locals=None):
        base = Frame("<entry>", None, None)
        base.locals = dict(base_locals or {})
        self.frames.append(base)
        self.base = base
        fn = self.resolve(recv.cls, mname)
        if fn is None:
            raise Unsupported(f"{recv.cls}.{mname} not found")
        return self.inline_stmt(recv, mname, args, {}, fn[1], None, kfinal)

    def materialise(self, v, node):
        if isinstance(v, Obj) and v.cls == "Fragment":
            return f"(Frag {v.fields['statements'].term} {v.fields['mems'].term} {v.fields['subs'].term})"
        if isinstance(v, Obj) and v.cls == "MemoryInstance":
            d = v.fields["_data"]
            if not isinstance(d, MemData):
                fail(node, "memory data")
            return f"(MI {d.parts[0]} {d.parts[1]} {d.parts[2]} {v.fields['_write_ports'].term} {v.fields['_read_ports'].term})"
        fail(node, "on_fragment does not return a fragment object")


def check_param_names(fn):
    for a in fn.args.args + fn.args.kwonlyargs:
        if re.search(r"_[0-9]+$", a.arg) or a.arg.endswith("_") or a.arg in COQ_KEYWORDS:
            raise Unsupported(f"{fn.name}: parameter name {a.arg} clashes with generated names")


def specialise(pe, ctors, recv_of, mname, var, extra_args, kfinal_of, lhs_mode, late_bound=False):
    def one(c):
        pe.reset()
        pe.state_mode = "lhs" if lhs_mode else None
        pe.base_param = late_bound
        recv = recv_of()
        v = V(var, c.ty, pycls=c.cls, ctor=c)
        return pe.run(recv, mname, [v] + extra_args(), kfinal_of(recv))
    branches = []
    for c in ctors:
        body = one(c)
        if late_bound and c.cls == "Signal":
            # the index of a signal of the model may denote a late-bound signal (Xfrm.cs_decode)
            subs = "".join(f"\n  | {lc.pat} =>\n {one(lc)}" for lc in late_bound_ctors())
            body = f"(match cs_decode base i_ with{subs}\n  | None =>\n {body}\n  end)"
        branches.append(f"  | {c.pat} =>\n {body}")
    return "\n".join(branches)


PRELUDE = """(* ---- trusted readings (see the docstring of translator/unit_xfrm.py) ---- *)
(* insertion-ordered dict with numeric keys *)
Definition dict_in {A : Type} (k : nat) (d : list (nat * A)) : bool := existsb (fun p => Nat.eqb (fst p) k) d.
Fixpoint dict_get {A : Type} (d : list (nat * A)) (k : nat) (dflt : A) : A :=
  match d with [] => dflt | p :: r => if Nat.eqb (fst p) k then snd p else dict_get r k dflt end.
Fixpoint dict_set {A : Type} (d : list (nat * A)) (k : nat) (v : A) : list (nat * A) :=
  match d with [] => [(k, v)] | p :: r => if Nat.eqb (fst p) k then (fst p, v) :: r else p :: dict_set r k v end.
Definition dict_setdefault {A : Type} (d : list (nat * A)) (k : nat) (v : A) : list (nat * A) :=
  if dict_in k d then d else d ++ [(k, v)].
(* d[k] of a missing key raises KeyError: poison values *)
Definition KeyError_Z : Z := -1.
Definition KeyError_expr : expr := Derived.bad_expr.
Definition KeyError_dom : nat := 0%nat.
Definition KeyError_stmts : list stmt := [SAssign Derived.bad_expr Derived.bad_expr].
(* Switch.__init__ on an integer key: _normalize_patterns((key,), test.shape()), then to_binary(key & mask, len(test)) *)
Definition switch_int_key (test : expr) (key : Z) : list pattern :=
  match Derived.normalize_patterns (shape_of test) [Derived.RInt key] with
  | Some l => map (fun p => match p with
                            | Derived.NStr s => s
                            | Derived.NInt v => Derived.bin_pattern (ewidth test) (Z.land v (Z.shiftl 1 (ewidth test) - 1))
                            end) l
  | None => []
  end.

"""


def body_text(fn):
    return "\n".join(ast.unparse(s) for s in fn.body
                     if not (isinstance(s, ast.Expr) and isinstance(s.value, ast.Constant) and isinstance(s.value.value, str)))


def check_coverage(pe):
    """Every statement of every method that was entered is translated for some specialisation, or whitelisted."""
    def blocks(s):
        out = []
        for f in ("body", "orelse", "finalbody"):
            b = getattr(s, f, None)
            if isinstance(b, list) and b and isinstance(b[0], ast.stmt):
                out.append(b)
        return out

    def ok(qual, text):
        return text in UNREACHED or (qual, text) in UNREACHED_IN

    def leaves_ok(qual, stmts):
        """An unvisited block: whitelisted as a whole, or statement by statement (an `if` by its branches)."""
        text = "\n".join(ast.unparse(s) for s in stmts)
        if ok(qual, text):
            return
        for s in stmts:
            if ok(qual, ast.unparse(s)):
                continue
            if isinstance(s, ast.If):
                leaves_ok(qual, s.body)
                if s.orelse:
                    leaves_ok(qual, s.orelse)
                continue
            fail(s, f"{qual}: statement never translated and not whitelisted:\n{ast.unparse(s)}\n")

    def check(qual, stmts):
        if all(id(s) not in pe.visited for s in stmts):
            leaves_ok(qual, stmts)
            return
        for s in stmts:
            if id(s) not in pe.visited:
                if isinstance(s, ast.Expr) and isinstance(s.value, ast.Constant) and isinstance(s.value.value, str):
                    continue
                leaves_ok(qual, [s])
                continue
            for b in blocks(s):
                check(qual, b)
    for qual, fn in pe.entered.values():
        check(qual, fn.body)


# (method, exact text) never reached by any specialisation, and why
_OOM_V = "AnyValue / Initial are not expressions of the model (Ast.expr)"
_OOM_S = "Print / Property are not statements of the model"
_OOM_F = "Instance / IOBufferInstance / RequirePosedge are not fragments of the model (Xfrm.frag)"
UNREACHED_IN = {
    ("ValueVisitor.on_value", "new_value = self.on_AnyValue(value)"): _OOM_V,
    ("ValueVisitor.on_value", "new_value = self.on_Initial(value)"): _OOM_V,
    ("ValueVisitor.on_value", "new_value = self.on_unknown_value(value)"): _OOM_V,
    ("StatementVisitor.on_statement", "new_stmt = self.on_Print(stmt)"): _OOM_S,
    ("StatementVisitor.on_statement", "new_stmt = self.on_Property(stmt)"): _OOM_S,
    ("StatementVisitor.on_statement", "new_stmt = self.on_unknown_statement(stmt)"): _OOM_S,
    ("FragmentTransformer.on_fragment",
     "new_fragment = Instance(fragment.type, src_loc=fragment.src_loc)\n"
     "new_fragment.parameters = OrderedDict(fragment.parameters)\n"
     "self.map_ports(fragment, new_fragment)"): _OOM_F,
    ("FragmentTransformer.on_fragment",
     "if hasattr(self, 'on_value'):\n"
     "    new_fragment = IOBufferInstance(port=fragment.port, i=self.on_value(fragment.i) if fragment.i is not None else None, "
     "o=self.on_value(fragment.o) if fragment.o is not None else None, "
     "oe=self.on_value(fragment.oe) if fragment.o is not None else None, src_loc=fragment.src_loc)\n"
     "else:\n"
     "    new_fragment = IOBufferInstance(port=fragment.port, i=fragment.i, o=fragment.o, oe=fragment.oe, src_loc=fragment.src_loc)"): _OOM_F,
    ("FragmentTransformer.on_fragment",
     "new_fragment = RequirePosedge(fragment._domain, src_loc=fragment.src_loc)"): _OOM_F,
    ("DomainRenamer.on_fragment", "new_fragment._domain = self.domain_map[new_fragment._domain]"): _OOM_F,
    ("FragmentTransformer.__call__",
     "if isinstance(value, TransformedElaboratable):\n    value._transforms_.append(self)\n    return value\n"
     "elif hasattr(value, 'elaborate'):\n    value = TransformedElaboratable(value, src_loc_at=1 + src_loc_at)\n"
     "    value._transforms_.append(self)\n    return value\n"
     "else:\n    raise AttributeError(f'Object {value!r} cannot be elaborated')"):
        "elaboratables are not fragments (TransformedElaboratable is the wrapper list of the model's ftree)",
    ("FragmentTransformer.map_statements",
     "for domain, statements in fragment.statements.items():\n"
     "    new_fragment.add_statements(domain, map(self.on_statement, statements))"):
        "transformers with on_statement that do not override map_statements: none of the three translated classes",
}


def load_trees():
    root = os.environ.get("VERIF_REPO", "/repo")
    trees = {}
    for k, rel in SRC_FILES.items():
        with open(os.path.join(root, rel)) as f:
            trees[k] = ast.parse(f.read())
    return trees


def find_method(classes, cls, name):
    if cls not in classes or name not in classes[cls].methods:
        raise Unsupported(f"{cls}.{name}: not found")
    return classes[cls].methods[name]


def check_static_facts(classes):
    for (mod, qual), text in EXPECT_BODY.items():
        cls, name = qual.split(".")
        fn = find_method(classes, cls, name)
        if classes[cls].module != mod or body_text(fn) != text:
            raise Unsupported(f"{qual}: body changed; the reading of this primitive no longer applies:\n{body_text(fn)}")
    for m, (params, text) in ONE_LINERS.items():
        fn = find_method(classes, "Value", m)
        if [a.arg for a in fn.args.args] != params or body_text(fn) != text:
            raise Unsupported(f"Value.{m}: body changed; the operator mapping of the translator no longer applies")
    # port constructors store their keyword arguments in the fields of the same name
    for rec, (_, fields, _) in RECORDS.items():
        fn = find_method(classes, rec, "__init__")
        kws = [a.arg for a in fn.args.kwonlyargs]
        if kws != [f[1:] for f, _, _ in fields] or fn.args.args[1:]:
            raise Unsupported(f"{rec}.__init__: parameters changed")
        stores = {}
        for s in fn.body:
            if isinstance(s, ast.Assign) and len(s.targets) == 1 and isinstance(s.targets[0], ast.Attribute):
                stores[s.targets[0].attr] = ast.unparse(s.value)
        for f, _, _ in fields:
            k = f[1:]
            if stores.get(f) not in (k, f"Value.cast({k})", f"tuple({k})"):
                raise Unsupported(f"{rec}.__init__: field {f} is no longer the argument {k}")
    # the modelled classes are pairwise unrelated by inheritance (the order of the type dispatch is immaterial)
    for group in (MODEL_VALUE_CLASSES + OUT_OF_MODEL_VALUE_CLASSES, MODEL_STMT_CLASSES + OUT_OF_MODEL_STMT_CLASSES + ["_StatementList"]):
        for c in group:
            if c not in classes:
                raise Unsupported(f"class {c} not found")
            for b in mro(classes, c)[1:]:
                if b in group:
                    raise Unsupported(f"class {c} derives from {b}")
    for c in ("MemoryInstance", "Instance", "IOBufferInstance", "RequirePosedge"):
        if [b.split(".")[-1] for b in classes[c].bases] != ["Fragment"]:
            raise Unsupported(f"class {c}: bases changed")
    if classes["Fragment"].bases:
        raise Unsupported("class Fragment: bases changed")
    for c in ("ResetInserter", "EnableInserter"):
        if mro(classes, c) != [c, "_ControlInserter", "FragmentTransformer"]:
            raise Unsupported(f"class {c}: hierarchy changed: {mro(classes, c)}")


def sig_of(params):
    return " ".join(f"({n} : {t})" for n, t in params)


def unit():
    trees = load_trees()
    classes = load_classes(trees)
    check_static_facts(classes)
    for c in ("FragmentTransformer", "_ControlInserter", "ResetInserter", "EnableInserter", "DomainRenamer",
              "LHSMaskCollector", "ValueVisitor", "ValueTransformer", "StatementVisitor", "StatementTransformer"):
        if c not in classes or classes[c].module != "xfrm":
            raise Unsupported(f"class {c} not found in hdl/_xfrm.py")
        for fn in classes[c].methods.values():
            check_param_names(fn)
    pe = PE(classes)
    out = ("(* GENERATED by /verif/translator/unit_xfrm.py from amaranth/hdl/_xfrm.py (and Fragment.add_statements of "
           "hdl/_ir.py) — do not edit *)\n"
           "From Coq Require Import ZArith List Bool.\n"
           "From V.Model Require Import Bits Shape Ast Stmt Process Xfrm.\n"
           "From V.Model Require Derived.\n"
           "Import ListNotations.\nOpen Scope Z_scope.\n\n") + PRELUDE
    D_ST = coqty(T_DICT_ST)
    D_LHS = coqty(T_DICT_LHS)

    # ---- Fragment.add_statements
    pe.reset()
    recv = pe.new_obj("Fragment", {"statements": V("statements", T_DICT_ST)})
    body = pe.run(recv, "add_statements", [V("domain", "dom"), V("stmts", T_STMTS)],
                  lambda v: recv.fields["statements"].term)
    out += (f"Definition frag_add_statements (domain : nat) (stmts : list Stmt.stmt) (statements : {D_ST}) : {D_ST} :=\n {body}.\n\n")

    # ---- LHSMaskCollector.visit_value / visit_stmt
    mk_lhs = lambda: pe.new_obj("LHSMaskCollector", {"lhs": V("lhs", T_DICT_LHS)})
    br = specialise(pe, expr_ctors(), mk_lhs, "visit_value", "value", lambda: [V("mask", "Z")],
                    lambda recv: (lambda v: recv.fields["lhs"].term), True)
    out += (f"Fixpoint lhs_visit_value (value : expr) (mask : Z) (lhs : {D_LHS}) {{struct value}} : {D_LHS} :=\n"
            f"  match value with\n{br}\n  end.\n\n")
    br = specialise(pe, stmt_ctors(), mk_lhs, "visit_stmt", "stmt", lambda: [],
                    lambda recv: (lambda v: recv.fields["lhs"].term), True)
    out += (f"Fixpoint lhs_visit_stmt (stmt : Stmt.stmt) (lhs : {D_LHS}) {{struct stmt}} : {D_LHS} :=\n"
            f"  match stmt with\n{br}\n  end.\n\n")

    # ---- LHSMaskCollector.chunks
    pe.reset()
    pe.fuel_param = True
    recv = mk_lhs()
    base_locals = {"yield_": V(f"(@nil {coqty(T_CHUNK)})", ("list", T_CHUNK))}
    pe.yield_ty = T_CHUNK

    pe.frames.append(Frame("<gen>", None, None))
    pe.frames[0].locals = base_locals
    pe.yield_cell = (pe.frames[0], "yield_")
    fn = pe.resolve("LHSMaskCollector", "chunks")
    gen0 = pe.frames[0]
    body = pe.inline_stmt(recv, "chunks", [], {}, fn[1], None, lambda v: gen0.locals["yield_"].term)
    out += (f"Definition lhs_chunks_fuel (fuel_ : nat) (tab : sigtab) (lhs : {D_LHS}) : list {coqty(T_CHUNK)} :=\n {body}.\n"
            f"Definition lhs_chunks := lhs_chunks_fuel 0.\n\n")

    # ---- _ControlInserter.__init__
    for c in ("ResetInserter", "EnableInserter"):
        if pe.resolve(c, "__init__")[0] != "_ControlInserter":
            raise Unsupported(f"{c}.__init__ is no longer _ControlInserter.__init__")
    for nm, ty, doms, params in (("control_init_value", "expr", {"sync": "dom_sync"}, [("dom_sync", "nat"), ("controls", "expr")]),
                                 ("control_init_dict", T_DICT_CTL, {}, [("controls", coqty(T_DICT_CTL))])):
        pe.reset()
        pe.domnames = doms
        pe.kraise = lambda: "None"
        recv = pe.new_obj("ResetInserter", {})
        body = pe.run(recv, "__init__", [V("controls", ty)],
                      lambda v, recv=recv: f"(Some {pe.to_term(recv.fields['controls'], T_DICT_CTL, None)})")
        out += f"Definition {nm} {sig_of(params)} : option {coqty(T_DICT_CTL)} :=\n {body}.\n\n"

    # ---- on_fragment of the three transformers
    def mem_obj():
        return pe.new_obj("MemoryInstance", {
            "_data": MemData("(mi_shape fragment)", "(mi_depth fragment)", "(mi_init fragment)"),
            "_read_ports": V("(mi_rports fragment)", ("list", "rport")),
            "_write_ports": V("(mi_wports fragment)", ("list", "wport")),
            "statements": V("(@nil (nat * list Stmt.stmt))", T_DICT_ST, empty=True),
            "subfragments": V("(@nil frag)", ("list", "frag"), empty=True),
            "_attrs": Unmod("memory attributes"), "src_loc": Unmod("source location")})

    def frag_obj():
        return pe.new_obj("Fragment", {"statements": V("fragment_statements", T_DICT_ST),
                                       "mems": V("fragment_mems", ("list", "meminst")),
                                       "subs": V("fragment_subs", ("list", "frag")), "src_loc": Unmod("source location")})

    def on_fragment_pair(cls, prefix, self_fields, pname, pty, xp="", xa=""):
        nonlocal out
        # MemoryInstance
        pe.reset()
        recv = pe.new_obj(cls, self_fields())
        body = pe.run(recv, "on_fragment", [mem_obj()], lambda v: pe.materialise(v, None))
        mt = pe.tab_used
        tabp = "(tab : sigtab) " if mt else ""
        out += f"Definition {prefix}_on_memory {xp}{tabp}({pname} : {pty}) (fragment : meminst) : meminst :=\n {body}.\n\n"
        pe.self_rec[(cls, "on_fragment", "meminst")] = (f"{prefix}_on_memory{xa}", mt, pname)
        # Fragment
        pe.reset()
        pe.self_rec[(cls, "on_fragment", "frag")] = (f"{prefix}_on_fragment{xa}", None, pname)
        recv = pe.new_obj(cls, self_fields())
        body = pe.run(recv, "on_fragment", [frag_obj()], lambda v: pe.materialise(v, None))
        ft = pe.tab_used
        body = body.replace("@TAB@", "tab " if ft else "")
        tabp = "(tab : sigtab) " if ft else ""
        out += (f"Fixpoint {prefix}_on_fragment {xp}{tabp}({pname} : {pty}) (fragment : frag) {{struct fragment}} : frag :=\n"
                f"  match fragment with Frag fragment_statements fragment_mems fragment_subs =>\n {body}\n  end.\n\n")
        pe.self_rec[(cls, "on_fragment", "frag")] = (f"{prefix}_on_fragment{xa}", ft, pname)

    ctl_fields = lambda: {"controls": V("controls", T_DICT_CTL), "src_loc": Unmod("source location")}
    on_fragment_pair("ResetInserter", "reset", ctl_fields, "controls", coqty(T_DICT_CTL))
    on_fragment_pair("EnableInserter", "enable", ctl_fields, "controls", coqty(T_DICT_CTL))

    # ---- DomainRenamer
    for nm, ty, doms, params in (("rename_init_str", "dom", {"sync": "dom_sync"}, [("dom_sync", "nat"), ("domain_map", "nat")]),
                                 ("rename_init_dict", T_DICT_DOM, {}, [("domain_map", coqty(T_DICT_DOM))])):
        pe.reset()
        pe.domnames = doms
        pe.kraise = lambda: "None"
        recv = pe.new_obj("DomainRenamer", {})
        body = pe.run(recv, "__init__", [V("domain_map", ty)],
                      lambda v, recv=recv: f"(Some {pe.to_term(recv.fields['domain_map'], T_DICT_DOM, None)})")
        out += f"Definition {nm} {sig_of(params)} : option {coqty(T_DICT_DOM)} :=\n {body}.\n\n"
    rn_fields = lambda: {"domain_map": V("domain_map", T_DICT_DOM)}
    mk_rn = lambda: pe.new_obj("DomainRenamer", rn_fields())
    pe.self_rec[("DomainRenamer", "on_value")] = ("rename_on_value base", False, "domain_map")
    pe.self_rec[("DomainRenamer", "on_statement")] = ("rename_on_statement base", False, "domain_map")
    if pe.resolve("DomainRenamer", "on_value")[0] != "ValueVisitor" or \
            pe.resolve("DomainRenamer", "on_statement")[0] != "StatementVisitor":
        raise Unsupported("DomainRenamer: on_value / on_statement no longer come from the visitors")
    br = specialise(pe, expr_ctors(), mk_rn, "on_value", "value", lambda: [],
                    lambda recv: (lambda v: pe.to_term(v, "expr", None)), False, late_bound=True)
    out += (f"Fixpoint rename_on_value (base : nat) (domain_map : {coqty(T_DICT_DOM)}) (value : expr) {{struct value}} : expr :=\n"
            f"  match value with\n{br}\n  end.\n\n")
    br = specialise(pe, stmt_ctors(), mk_rn, "on_statement", "stmt", lambda: [],
                    lambda recv: (lambda v: pe.to_term(v, "stmt", None)), False)
    out += (f"Fixpoint rename_on_statement (base : nat) (domain_map : {coqty(T_DICT_DOM)}) (stmt : Stmt.stmt) {{struct stmt}} : Stmt.stmt :=\n"
            f"  match stmt with\n{br}\n  end.\n\n")
    on_fragment_pair("DomainRenamer", "rename", rn_fields, "domain_map", coqty(T_DICT_DOM), xp="(base : nat) ", xa=" base")

    check_coverage(pe)
    return {"XfrmGen.v": out}

"""Translator unit "pyrtl_rhs": amaranth/sim/_pyrtl.py (_ValueCompiler.helpers, _RHSValueCompiler)  ->  coq/Gen/PyRtlRhsGen.v

The methods of _RHSValueCompiler do not compute values: they RETURN PYTHON SOURCE TEXT (f-strings) that the simulator
later `exec`s.  This unit executes each method symbolically at "compile time" and, for every f-string it meets, parses
the literal text of the template (holes replaced by placeholder identifiers) as a Python expression and translates THAT
expression to Gallina over Z with py2gallina.tr_expr.  Nothing of the generated Gallina is a fixed template: every
run-time operator / constant / comparison / helper call comes from the text of an f-string in the current source, every
compile-time mask / shift amount / branch from the Python ast around it.

Translated (regenerated on every run):
  _ValueCompiler.helpers["sign"|"zdiv"|"zmod"]  -> h_sign, h_zdiv, h_zmod : Z -> Z -> Z
  _RHSValueCompiler.sign       -> g_sign    : (expr -> Z) -> expr -> Z
  _RHSValueCompiler.on_Const   -> g_const   : Z -> shape -> Z
  _RHSValueCompiler.on_Signal  -> g_signal  : bool (mode = "curr") -> env -> nat -> shape -> Z
  _RHSValueCompiler.on_Operator (with local mask()/sign(), all 8 + 16 operator templates)
                               -> g_op1     : (expr -> Z) -> op1 -> expr -> Z
                                  g_op2     : (expr -> Z) -> op2 -> expr -> expr -> Z
  _RHSValueCompiler.on_Slice   -> g_slice   : (expr -> Z) -> expr -> Z -> Z -> Z
  _RHSValueCompiler.on_Part    -> g_part    : (expr -> Z) -> (expr -> Z) -> expr -> expr -> Z -> Z -> Z
  _RHSValueCompiler.on_Concat  -> g_concat  : (expr -> Z) -> list expr -> Z
`self_ : expr -> Z` is the meaning of the code `self(x)` returns for a sub-value (the recursive call through
ValueVisitor.on_value), `rrhs_` that of `self.rrhs(x)`.

NOT translated: on_SwitchValue / _Compiler._emit_switch (statement emission: match/if-elif chains, see final report).

TRUSTED BASE of this unit (besides py2gallina's operator mapping):
  * an f-string hole holding a compile-time int (format spec none or `#x`) denotes that integer; a hole holding code
    denotes the value of that code; holes are only accepted where Python's grammar treats the substituted text as one
    operand (checked: an int / `self(x)` hole -- which may be a negative literal -- is never an operand of `**`, never a
    call / attribute / subscript base; a hole whose text is a bare binary expression is accepted only as a whole
    template);  a hole that merges with neighbouring characters into another token is an unknown name -> Unsupported;
  * the generated code is pure, so binding a long expression to a variable first (`_ValueCompiler.on_value`:
    def_var("expr_split", code)) does not change its value; the OverflowError for values wider than 2**16 bits is not
    modelled;
  * a Python bool used by the surrounding code is the int 0 / 1 (Z.b2z);
  * `len(x)` is `width (shape_of x)`, `x.shape().signed` is `sgn (shape_of x)`, `Const.value` is `const_norm s v`;
    class <-> constructor and operator-string <-> op1/op2 tables below; `value.operands` are the constructor arguments;
  * `format(x, 'b').count('1')` is Bits.popcount x;
  * `sign` / `zdiv` / `zmod` in generated code are the entries of `_ValueCompiler.helpers` (exec globals);
    `slots[i].curr` in mode "curr" and the local `next_i` in mode "next" are the environment `en_ i`, with
    `self.state.get_signal(value)` = the signal's index; `self.mode` is "curr" or "next" (asserted in __init__);
  * `' | '.join(parts)` of atomic code strings is the left-nested chain `p0 | p1 | ...` (the operator is parsed from
    the separator text);
  * WHITELIST below: statements that are not translated (exact text compared), with the reason.
"""
import ast, os, sys
sys.path.insert(0, os.path.dirname(os.path.abspath(__file__)))
from py2gallina import Unsupported, Ctx, tr_expr, as_bool, find_function, fail

NAME = "pyrtl_rhs"
OUTPUTS = ["PyRtlRhsGen.v"]
SRC = "amaranth/sim/_pyrtl.py"

OP1 = [("~", "ONot"), ("-", "ONeg"), ("b", "OBool"), ("r|", "ORor"), ("r&", "ORand"), ("r^", "ORxor"), ("u", "OU"),
       ("s", "OS")]
OP2 = [("+", "OAdd"), ("-", "OSub"), ("*", "OMul"), ("//", "ODiv"), ("%", "OMod"), ("&", "OAnd"), ("|", "OOr"),
       ("^", "OXor"), ("<<", "OShl"), (">>", "OShr"), ("==", "OEq"), ("!=", "ONe"), ("<", "OLt"), ("<=", "OLe"),
       (">", "OGt"), (">=", "OGe")]
OP_STRINGS = {s for s, _ in OP1} | {s for s, _ in OP2}
MODES = ("curr", "next")

# statements that are NOT translated: exact unparsed text -> reason
WHITELIST = {
    "raise NotImplementedError(f\"Operator '{value.operator}' not implemented\")":
        "unreachable for the 8 + 16 operators of the model (checked: a constructor reaching it raises Unsupported)",
}
# statements skipped when met (exact text); the translation continues with the next statement
SKIP_WHEN_MET = {
    "if self.inputs is not None:\n    self.inputs.add(value)":
        "records the signal in the set of process inputs (sensitivity list); does not affect the returned code",
}
# text that must be present unchanged (context the translation relies on)
REQUIRED = {
    "_RHSValueCompiler.__init__": ["assert mode in ('curr', 'next')", "self.mode = mode"],
}

COQ_KEYWORDS = set("as at cofix else end exists exists2 fix for forall fun if IF in let match mod return then using "
                   "where with Prop Set Type SProp".split())
EMITTED_GLOBALS = {"map", "negb", "andb", "orb", "Some", "None", "true", "false", "nat", "Z", "bool", "list", "option",
                   "h_sign", "h_zdiv", "h_zmod", "fold_left", "app"}

TY = {"Z": "Z", "bool": "bool", "expr": "Ast.expr", "list expr": "(list Ast.expr)", "list code": "(list Z)"}


def check_ident(name, node):
    if name.endswith("_") or name in COQ_KEYWORDS or name in EMITTED_GLOBALS or not name.isidentifier() \
            or not name.isascii():
        fail(node, f"identifier {name!r} clashes with generated names")


class V:
    """A compile-time value of the symbolic execution."""
    def __init__(self, kind, coq=None, **kw):
        self.kind, self.coq = kind, coq
        self.ctor = kw.get("ctor")        # expr: constructor description (fields known)
        self.rty = kw.get("rty")          # code: 'Z' | 'bool'
        self.tight = kw.get("tight")      # code / list code: 'atom' | 'unary' | 'loose'
        self.py = kw.get("py")            # pystr / pyint / tuple / func / method: python-level payload

    def __repr__(self):
        return f"V({self.kind}, {self.coq}, {self.py})"


class Ctor:
    def __init__(self, pat, cls, fields=None, operands=None, opstr=None, index=None):
        self.pat, self.cls, self.fields = pat, cls, dict(fields or {})
        self.operands, self.opstr, self.index = operands, opstr, index


def E(coq, ctor=None):
    return V("expr", coq, ctor=ctor)


LOOSER = {"atom": 0, "unary": 1, "loose": 2}


def loosest(a, b):
    if a is None:
        return b
    if b is None:
        return a
    return a if LOOSER[a] >= LOOSER[b] else b


def is_name(n, ident=None):
    return isinstance(n, ast.Name) and (ident is None or n.id == ident)


def is_self_attr(n, attr=None):
    return isinstance(n, ast.Attribute) and is_name(n.value, "self") and (attr is None or n.attr == attr)


class Sym:
    """Symbolic execution of one method for one choice of constructor / mode."""

    def __init__(self, cls_node, visited, mode=None, self_name="self_", rrhs_name="rrhs_"):
        self.cls, self.visited, self.mode = cls_node, visited, mode
        self.self_name, self.rrhs_name = self_name, rrhs_name
        self.nph = 0
        self.nloops = 0
        self.used = set()     # which of self_/rrhs_/en_ were used

    # ------------------------------------------------------------------ compile-time expressions
    def pyconst(self, node, env):
        """Python-level constant (str / int / tuple of them) or NotImplemented."""
        if isinstance(node, ast.Constant) and type(node.value) in (str, int):
            return node.value
        if isinstance(node, ast.Tuple):
            items = [self.pyconst(e, env) for e in node.elts]
            return NotImplemented if any(i is NotImplemented for i in items) else tuple(items)
        if isinstance(node, ast.Call) and is_name(node.func, "len") and len(node.args) == 1 and not node.keywords:
            try:
                v = self.ev(node.args[0], env)
            except Unsupported:
                return NotImplemented
            return len(v.py) if v.kind == "tuple" else NotImplemented
        if isinstance(node, (ast.Name, ast.Attribute)):
            try:
                v = self.ev(node, env)
            except Unsupported:
                return NotImplemented
            return v.py if v.kind == "pystr" else NotImplemented
        return NotImplemented

    def static(self, test, env):
        """True / False when the test is decided at compile time by constructor / mode, None otherwise."""
        if isinstance(test, ast.Compare) and len(test.ops) == 1:
            l, r = self.pyconst(test.left, env), self.pyconst(test.comparators[0], env)
            if l is NotImplemented or r is NotImplemented:
                return None
            op = test.ops[0]
            for s in ([l] if isinstance(l, str) else []) + (list(r) if isinstance(r, tuple) else [r]):
                if isinstance(s, str) and s not in OP_STRINGS and s not in MODES:
                    fail(test, f"string {s!r} is neither an operator of the table nor a mode")
            if isinstance(op, ast.Eq) and type(l) is type(r):
                return l == r
            if isinstance(op, ast.NotEq) and type(l) is type(r):
                return l != r
            if isinstance(op, ast.In) and isinstance(r, tuple):
                return l in r
            if isinstance(op, ast.NotIn) and isinstance(r, tuple):
                return l not in r
            fail(test, "compile-time comparison form")
        return None

    def field(self, v, attr, node):
        if v.kind == "expr":
            if v.ctor is None:
                fail(node, f"field .{attr} of a value whose class is not known")
            if attr == "operands" and v.ctor.operands is not None:
                return V("tuple", py=[E(o) for o in v.ctor.operands])
            if attr == "operator" and v.ctor.opstr is not None:
                return V("pystr", py=v.ctor.opstr)
            if attr in v.ctor.fields:
                coq, ty = v.ctor.fields[attr]
                return E(coq) if ty == "expr" else V(ty, coq)
            fail(node, f"field .{attr} of {v.ctor.cls}")
        if v.kind == "shape":
            if attr == "signed":
                return V("bool", f"(Bits.sgn {v.coq})")
            if attr == "width":
                return V("Z", f"(Bits.width {v.coq})")
        fail(node, f"attribute .{attr} of a {v.kind}")

    def arith(self, node, env):
        """Compile-time integer / boolean arithmetic through py2gallina, leaves through self.ev."""
        me = self

        def sp(ctx, n):
            if n is node and isinstance(n, (ast.BinOp, ast.UnaryOp, ast.Compare, ast.BoolOp, ast.IfExp, ast.Constant)):
                return None
            if isinstance(n, (ast.BinOp, ast.UnaryOp, ast.Compare, ast.BoolOp, ast.IfExp)):
                return None
            if isinstance(n, ast.Constant):
                if type(n.value) is int:
                    return None
                fail(n, "constant in compile-time arithmetic")
            v = me.ev(n, env)
            if v.kind in ("Z", "bool"):
                return v.coq, v.kind
            fail(n, f"{v.kind} in compile-time arithmetic")
        binds = []
        c, t = tr_expr(Ctx({}, specials=sp), node, binds)
        if binds or t not in ("Z", "bool"):
            fail(node, "compile-time arithmetic")
        return V(t, c)

    def ev(self, node, env):
        if isinstance(node, ast.JoinedStr):
            return self.template(node, env)
        if isinstance(node, ast.Constant):
            if type(node.value) is str:
                return V("pystr", py=node.value)
            if type(node.value) is int:
                return V("Z", f"({node.value})")
            fail(node, "constant")
        if isinstance(node, ast.Name):
            if node.id not in env:
                fail(node, "unknown compile-time variable")
            return env[node.id]
        if isinstance(node, ast.List) and not node.elts:
            return V("list code", "[]", tight=None)
        if isinstance(node, ast.Attribute):
            if is_self_attr(node, "mode"):
                if self.mode is None:
                    fail(node, "self.mode outside a mode-specialised method")
                return V("pystr", py=self.mode)
            if is_self_attr(node):
                fail(node, "attribute of the compiler object")
            return self.field(self.ev(node.value, env), node.attr, node)
        if isinstance(node, ast.Call):
            f = node.func
            if node.keywords or any(isinstance(a, ast.Starred) for a in node.args):
                fail(node, "call form")
            # self(x) / self.rrhs(x): code of a sub-value
            if (is_name(f, "self") or is_self_attr(f, "rrhs")) and len(node.args) == 1:
                x = self.ev(node.args[0], env)
                if x.kind != "expr":
                    fail(node, "compiling a non-value")
                nm = self.self_name if is_name(f, "self") else self.rrhs_name
                self.used.add(nm)
                # loosest text any on_* method returns: a possibly negative integer literal (on_Const)
                return V("code", f"({nm} {x.coq})", rty="Z", tight="unary")
            # self.state.get_signal(value)
            if isinstance(f, ast.Attribute) and f.attr == "get_signal" and is_self_attr(f.value, "state") and \
                    len(node.args) == 1:
                x = self.ev(node.args[0], env)
                if x.kind != "expr" or x.ctor is None or x.ctor.index is None:
                    fail(node, "get_signal of a non-signal")
                return V("slot", x.ctor.index)
            # self.sign(x): method of the class
            if is_self_attr(f) and f.attr in ("sign",):
                m = [n for n in self.cls.body if isinstance(n, ast.FunctionDef) and n.name == f.attr]
                if len(m) != 1:
                    fail(node, f"method {f.attr} not found")
                return self.call(m[0], [self.ev(a, env) for a in node.args], {}, skip_self=True)
            # local helper
            if is_name(f) and f.id in env and env[f.id].kind == "func":
                fn, closure = env[f.id].py
                return self.call(fn, [self.ev(a, env) for a in node.args], closure)
            if is_name(f, "len") and len(node.args) == 1:
                x = self.ev(node.args[0], env)
                if x.kind == "expr":
                    return V("Z", f"(Bits.width (Ast.shape_of {x.coq}))")
                fail(node, f"len of a {x.kind}")
            if isinstance(f, ast.Attribute) and f.attr == "shape" and not node.args:
                x = self.ev(f.value, env)
                if x.kind != "expr":
                    fail(node, ".shape() of a non-value")
                return V("shape", f"(Ast.shape_of {x.coq})")
            # '<sep>'.join(list of code)
            if isinstance(f, ast.Attribute) and f.attr == "join" and isinstance(f.value, ast.Constant) and \
                    type(f.value.value) is str and len(node.args) == 1:
                return self.join(f.value.value, self.ev(node.args[0], env), node)
            fail(node, "call")
        if isinstance(node, (ast.BinOp, ast.UnaryOp, ast.Compare, ast.BoolOp, ast.IfExp)):
            return self.arith(node, env)
        fail(node, "compile-time expression")

    def call(self, fn, args, closure, skip_self=False):
        a = fn.args
        names = [x.arg for x in a.args]
        if skip_self:
            if names[:1] != ["self"]:
                fail(fn, "method without self")
            names = names[1:]
        if a.vararg or a.kwarg or a.kwonlyargs or a.defaults or a.posonlyargs or fn.decorator_list or \
                len(names) != len(args):
            fail(fn, "helper signature")
        env = dict(closure)
        for n, v in zip(names, args):
            env[n] = v
        r = self.run(list(fn.body), env)
        if r is None:
            fail(fn, "helper falls off its end")
        return r

    # ------------------------------------------------------------------ templates
    def ph(self):
        self.nph += 1
        return f"h{self.nph}_"

    def rt_specials(self, consts):
        me = self

        def sp(ctx, n):
            if isinstance(n, ast.Call):
                f = n.func
                if n.keywords:
                    fail(n, "keyword arguments in generated code")
                if is_name(f) and f.id in ("sign", "zdiv", "zmod"):
                    if len(n.args) != 2:
                        fail(n, "helper arity")
                    args = [tr_expr(ctx, a, []) for a in n.args]
                    if any(t != "Z" for _, t in args):
                        fail(n, "helper applied to a non-integer")
                    return f"(h_{f.id} {args[0][0]} {args[1][0]})", "Z"
                if isinstance(f, ast.Attribute) and f.attr == "count" and len(n.args) == 1 and \
                        isinstance(n.args[0], ast.Constant) and n.args[0].value == "1" and \
                        isinstance(f.value, ast.Call) and is_name(f.value.func, "format") and \
                        len(f.value.args) == 2 and not f.value.keywords and \
                        isinstance(f.value.args[1], ast.Constant) and f.value.args[1].value == "b":
                    s, t = tr_expr(ctx, f.value.args[0], [])
                    if t != "Z":
                        fail(n, "format of a non-integer")
                    return f"(Bits.popcount {s})", "Z"
                if is_name(f, "bool") and len(n.args) == 1:
                    return None
                fail(n, "call in generated code")
            if isinstance(n, ast.Attribute):
                # slots[<slot>].curr
                v = n.value
                if n.attr == "curr" and me.mode == "curr" and isinstance(v, ast.Subscript) and is_name(v.value, "slots") \
                        and is_name(v.slice) and consts.get(v.slice.id, (None, None))[1] == "slot":
                    me.used.add("en_")
                    return f"(en_ {consts[v.slice.id][0]})", "Z"
                fail(n, "attribute in generated code")
            if isinstance(n, ast.Name):
                # next_<slot>
                if me.mode == "next" and n.id.startswith("next_") and consts.get(n.id[5:], (None, None))[1] == "slot":
                    me.used.add("en_")
                    return f"(en_ {consts[n.id[5:]][0]})", "Z"
                if n.id in consts and consts[n.id][1] == "slot":
                    fail(n, "signal index used as a value")
                return None
            if isinstance(n, (ast.Subscript, ast.Lambda, ast.NamedExpr, ast.Starred, ast.ListComp, ast.GeneratorExp)):
                fail(n, "construct in generated code")
            return None
        return sp

    def template(self, node, env):
        text, consts, tights = "", {}, {}
        for part in node.values:
            if isinstance(part, ast.Constant) and type(part.value) is str:
                text += part.value
                continue
            if not isinstance(part, ast.FormattedValue) or part.conversion != -1:
                fail(node, "f-string part")
            spec = None
            if part.format_spec is not None:
                fs = part.format_spec
                if not (isinstance(fs, ast.JoinedStr) and len(fs.values) == 1 and isinstance(fs.values[0], ast.Constant)):
                    fail(node, "format spec")
                spec = fs.values[0].value
            v = self.ev(part.value, env)
            if v.kind == "pystr" and spec is None:
                text += v.py
                continue
            p = self.ph()
            if v.kind == "Z" and spec in (None, "#x"):
                consts[p], tights[p] = (v.coq, "Z"), "unary"
            elif v.kind == "code" and spec is None:
                consts[p], tights[p] = (v.coq, v.rty), v.tight
            elif v.kind == "slot" and spec is None:
                consts[p], tights[p] = (v.coq, "slot"), "atom"
            else:
                fail(node, f"hole of kind {v.kind} with format spec {spec!r}")
            text += p
        return self.code_of_text(text, consts, tights, node)

    def code_of_text(self, text, consts, tights, node):
        try:
            tree = ast.parse(text, mode="eval").body
        except SyntaxError:
            fail(node, f"generated text is not an expression: {text!r}")
        # where holes may stand
        parents = {}
        for n in ast.walk(tree):
            for c in ast.iter_child_nodes(n):
                parents[id(c)] = n
        for n in ast.walk(tree):
            if isinstance(n, ast.Name) and n.id in consts:
                par = parents.get(id(n))
                if par is None:
                    continue
                if (isinstance(par, ast.Call) and par.func is n) or isinstance(par, ast.Attribute) or \
                        (isinstance(par, ast.Subscript) and par.value is n):
                    fail(node, f"hole used as a call / attribute / subscript base in {text!r}")
                if tights[n.id] == "loose":
                    fail(node, f"an unparenthesised expression is substituted inside {text!r}")
                if tights[n.id] == "unary" and isinstance(par, ast.BinOp) and isinstance(par.op, ast.Pow):
                    fail(node, f"possibly negative literal as an operand of ** in {text!r}")
        ctx = Ctx({}, specials=self.rt_specials(consts), consts={k: v for k, v in consts.items() if v[1] != "slot"})
        binds = []
        coq, ty = tr_expr(ctx, tree, binds)
        if binds or ty not in ("Z", "bool"):
            fail(node, f"generated text {text!r} has type {ty}")
        # how tightly the text binds when it is substituted into another template
        st = text.strip()
        if isinstance(tree, ast.Name) and tree.id in consts:
            tight = tights[tree.id]
        elif isinstance(tree, (ast.Name, ast.Call, ast.Attribute, ast.Subscript)) or \
                (isinstance(tree, ast.Constant) and type(tree.value) is int) or wrapped(st):
            tight = "atom"
        else:
            tight = "loose"
        return V("code", coq, rty=ty, tight=tight)

    def join(self, sep, lst, node):
        if lst.kind != "list code":
            fail(node, "join of a non-list")
        if lst.tight not in (None, "atom"):
            fail(node, "join of code strings that are not atomic")
        a, b = self.ph(), self.ph()
        f = self.code_of_text(a + sep + b, {a: (a, "Z"), b: (b, "Z")}, {a: "atom", b: "atom"}, node)
        if f.rty != "Z":
            fail(node, "join operator")
        # non-empty list: x0 sep x1 sep ... (left-nested); the empty string is not an expression (0 is never used)
        coq = f"(match {lst.coq} with [] => 0 | x_ :: r_ => fold_left (fun {a} {b} => {f.coq}) r_ x_ end)"
        return V("code", coq, rty="Z", tight="loose")

    # ------------------------------------------------------------------ statements
    def to_z(self, v, node):
        if v.kind != "code":
            fail(node, f"method returns a {v.kind}, not code")
        return v.coq if v.rty == "Z" else f"(Z.b2z {v.coq})"

    def run(self, stmts, env):
        """Returns the V returned by the statement list, or None when control falls off its end."""
        if not stmts:
            return None
        s, rest = stmts[0], stmts[1:]
        self.visited.add(id(s))
        text = ast.unparse(s)
        if isinstance(s, ast.Expr) and isinstance(s.value, ast.Constant) and type(s.value.value) is str:
            return self.run(rest, env)
        if text in SKIP_WHEN_MET:
            for n in ast.walk(s):
                if isinstance(n, ast.stmt):
                    self.visited.add(id(n))
            return self.run(rest, env)
        if isinstance(s, ast.FunctionDef):
            check_ident(s.name, s)
            env[s.name] = V("func", py=(s, env))
            for n in ast.walk(s):
                if isinstance(n, ast.stmt):
                    self.visited.add(id(n))       # translated when called; never called = never in the result
            return self.run(rest, env)
        if isinstance(s, ast.Return):
            if s.value is None:
                fail(s, "bare return")
            return self.ev(s.value, env)
        if isinstance(s, ast.Raise):
            fail(s, "raise is reachable")
        if isinstance(s, ast.Assign):
            if len(s.targets) != 1:
                fail(s, "assignment targets")
            tgt = s.targets[0]
            if is_name(tgt):
                check_ident(tgt.id, s)
                v = self.ev(s.value, env)
                if v.kind == "list code" and getattr(self, "in_loop", False):
                    fail(s, "list created inside a loop")
                env[tgt.id] = v
                return self.run(rest, env)
            if isinstance(tgt, ast.Tuple) and all(is_name(e) for e in tgt.elts):
                v = self.ev(s.value, env)
                if v.kind != "tuple" or len(v.py) != len(tgt.elts):
                    fail(s, "unpacking")
                for e, x in zip(tgt.elts, v.py):
                    check_ident(e.id, s)
                    env[e.id] = x
                return self.run(rest, env)
            fail(s, "assignment target")
        if isinstance(s, ast.AugAssign):
            if not is_name(s.target) or s.target.id not in env:
                fail(s, "augmented assignment target")
            v = self.arith(ast.BinOp(left=ast.Name(id=s.target.id, ctx=ast.Load()), op=s.op, right=s.value), env)
            env[s.target.id] = v
            return self.run(rest, env)
        if isinstance(s, ast.Expr) and isinstance(s.value, ast.Call):
            c = s.value
            if isinstance(c.func, ast.Attribute) and c.func.attr == "append" and is_name(c.func.value) and \
                    len(c.args) == 1 and not c.keywords:
                lst = env.get(c.func.value.id)
                if lst is None or lst.kind != "list code":
                    fail(s, "append to a non-list")
                x = self.ev(c.args[0], env)
                if x.kind != "code":
                    fail(s, "append of a non-code value")
                env[c.func.value.id] = V("list code", f"({lst.coq} ++ [{self.to_z(x, s)}])",
                                         tight=loosest(lst.tight, x.tight))
                return self.run(rest, env)
            fail(s, "call statement")
        if isinstance(s, ast.If):
            r = self.static(s.test, env)
            if r is True:
                return self.run(list(s.body) + rest, env)
            if r is False:
                return self.run(list(s.orelse) + rest, env)
            # truth value of a list of code strings
            if is_name(s.test) and s.test.id in env and env[s.test.id].kind == "list code":
                lst = env[s.test.id]
                a = self.run(list(s.body) + rest, dict(env))
                b = self.run(list(s.orelse) + rest, dict(env))
                return self.merge(f"match {lst.coq} with [] => false | _ :: _ => true end", a, b, s)
            c = self.ev(s.test, env)
            if c.kind not in ("bool", "Z"):
                fail(s, f"condition of kind {c.kind}")
            a = self.run(list(s.body) + rest, dict(env))
            b = self.run(list(s.orelse) + rest, dict(env))
            return self.merge(as_bool(c.coq, c.kind, s), a, b, s)
        if isinstance(s, ast.For):
            return self.loop(s, rest, env)
        fail(s, "statement")

    def merge(self, cond, a, b, s):
        if a is None or b is None:
            fail(s, "a branch falls off the end")
        if a.kind != "code" or b.kind != "code":
            fail(s, "branches do not both return code")
        if a.rty != b.rty:
            a, b = V("code", self.to_z(a, s), rty="Z", tight=a.tight), V("code", self.to_z(b, s), rty="Z", tight=b.tight)
        return V("code", f"(if {cond} then {a.coq} else {b.coq})", rty=a.rty, tight=loosest(a.tight, b.tight))

    def loop(self, s, rest, env):
        if s.orelse or not is_name(s.target):
            fail(s, "loop form")
        it = self.ev(s.iter, env)
        if it.kind != "list expr":
            fail(s, "loop over a non-list of values")
        for n in ast.walk(ast.Module(body=s.body, type_ignores=[])):
            if isinstance(n, (ast.Break, ast.Continue, ast.Return)):
                fail(n, "break / continue / return inside a loop")
        check_ident(s.target.id, s)
        accs = []
        for st in s.body:
            for n in ast.walk(st):
                nm = None
                if isinstance(n, ast.Assign) and len(n.targets) == 1 and is_name(n.targets[0]):
                    nm = n.targets[0].id
                elif isinstance(n, ast.AugAssign) and is_name(n.target):
                    nm = n.target.id
                elif isinstance(n, ast.Call) and isinstance(n.func, ast.Attribute) and n.func.attr == "append" and \
                        is_name(n.func.value):
                    nm = n.func.value.id
                if nm is not None and nm in env and nm not in accs:
                    accs.append(nm)
        accs.sort()
        for a in accs:
            if env[a].kind not in ("Z", "list code"):
                fail(s, f"accumulator {a} of kind {env[a].kind}")
        self.nloops += 1
        k = self.nloops
        lp, rs, tl = f"loop{k}_", f"rest{k}_", f"tl{k}_"
        # one iteration
        benv = dict(env)
        for a in accs:
            benv[a] = V(env[a].kind, a, tight=env[a].tight)
        benv[s.target.id] = E(s.target.id)
        self.in_loop = True
        r = self.run(list(s.body), benv)
        self.in_loop = False
        if r is not None:
            fail(s, "loop body returns")
        for a in accs:
            if benv[a].kind != env[a].kind:
                fail(s, f"accumulator {a} changes kind")
        again = "(" + " ".join([lp, tl] + [benv[a].coq for a in accs]) + ")"
        # after the loop: the loop target and loop locals are not available; list tightness is that of all appends
        aenv = {n: v for n, v in env.items() if n != s.target.id}
        for a in accs:
            aenv[a] = V(env[a].kind, a, tight=loosest(env[a].tight, benv[a].tight))
        after = self.run(rest, aenv)
        if after is None:
            fail(s, "method falls off its end after the loop")
        params = " ".join(f"({a} : {TY[env[a].kind]})" for a in accs)
        coq = (f"((fix {lp} ({rs} : {TY[it.kind]}) {params} {{struct {rs}}} : Z :=\n"
               f"     match {rs} with\n     | [] => {self.to_z(after, s)}\n"
               f"     | {s.target.id} :: {tl} => {again}\n     end) "
               + " ".join([it.coq] + [env[a].coq for a in accs]) + ")")
        return V("code", coq, rty="Z", tight=after.tight)


def wrapped(st):
    """The text is one parenthesised group."""
    if not (st.startswith("(") and st.endswith(")")):
        return False
    depth = 0
    for i, ch in enumerate(st):
        if ch in "'\"":
            return False
        if ch == "(":
            depth += 1
        elif ch == ")":
            depth -= 1
            if depth == 0 and i != len(st) - 1:
                return False
    return depth == 0


# ---------------------------------------------------------------------- drivers
def check_signature(fn, names):
    a = fn.args
    if [x.arg for x in a.args] != names or a.vararg or a.kwarg or a.kwonlyargs or a.defaults or a.posonlyargs \
            or fn.decorator_list:
        raise Unsupported(f"{fn.name}: signature changed")


def check_coverage(fn, visited):
    def blocks(s):
        out = []
        for f in ("body", "orelse", "finalbody"):
            b = getattr(s, f, None)
            if isinstance(b, list) and b and isinstance(b[0], ast.stmt):
                out.append(b)
        return out

    def check(stmts):
        for s in stmts:
            if id(s) not in visited:
                if ast.unparse(s) in WHITELIST:
                    continue
                fail(s, f"{fn.name}: statement never translated and not whitelisted:\n{ast.unparse(s)}\n")
            if not isinstance(s, ast.FunctionDef):
                for b in blocks(s):
                    check(b)
    check(fn.body)


def method(cls, name):
    m = [n for n in cls.body if isinstance(n, ast.FunctionDef) and n.name == name]
    if len(m) != 1:
        raise Unsupported(f"{cls.name}.{name}: not found")
    check_signature(m[0], ["self", "value"])
    return m[0]


def run_method(cls, fn, value, visited, mode=None):
    sym = Sym(cls, visited, mode=mode)
    r = sym.run(list(fn.body), {"value": value})
    if r is None:
        fail(fn, f"{fn.name} falls off its end")
    return sym.to_z(r, fn), sym


def gen_helpers(tree):
    cls = find_function(tree, "_ValueCompiler")
    d = [s for s in cls.body if isinstance(s, ast.Assign) and len(s.targets) == 1 and is_name(s.targets[0], "helpers")]
    if len(d) != 1 or not isinstance(d[0].value, ast.Dict):
        raise Unsupported("_ValueCompiler.helpers: not found")
    keys = [k.value if isinstance(k, ast.Constant) else None for k in d[0].value.keys]
    if keys != ["sign", "zdiv", "zmod"]:
        raise Unsupported(f"_ValueCompiler.helpers: keys changed: {keys}")
    out = ""
    for k, lam in zip(keys, d[0].value.values):
        a = lam.args if isinstance(lam, ast.Lambda) else None
        if a is None or len(a.args) != 2 or a.vararg or a.kwarg or a.kwonlyargs or a.defaults or a.posonlyargs:
            fail(lam, f"helpers[{k!r}] is not a two-argument lambda")
        names = [x.arg for x in a.args]
        for n in names:
            check_ident(n, lam)
        binds = []
        c, t = tr_expr(Ctx({n: "Z" for n in names}), lam.body, binds)
        if binds or t != "Z":
            fail(lam, f"helpers[{k!r}] body")
        out += f"Definition h_{k} ({names[0]} {names[1]} : Z) : Z :=\n  {c}.\n"
    return out + "\n"


def unit():
    root = os.environ.get("VERIF_REPO", "/repo")
    with open(os.path.join(root, SRC)) as f:
        tree = ast.parse(f.read())
    cls = find_function(tree, "_RHSValueCompiler")
    if [ast.unparse(b) for b in cls.bases] != ["_ValueCompiler"]:
        raise Unsupported("_RHSValueCompiler: bases changed")
    for qn, texts in REQUIRED.items():
        body = [ast.unparse(s) for s in find_function(tree, qn).body]
        for t in texts:
            if t not in body:
                raise Unsupported(f"{qn}: statement `{t}` not found")
    out = (f"(* GENERATED by /verif/translator/unit_pyrtl_rhs.py from {SRC} — do not edit *)\n"
           "From Coq Require Import ZArith List Bool.\n"
           "From V.Model Require Import Bits Shape Ast.\n"
           "Import ListNotations.\nOpen Scope Z_scope.\nOpen Scope bool_scope.\n\n")
    out += gen_helpers(tree)

    # ---- sign(self, value)
    fn = method(cls, "sign")
    vis = set()
    body, _ = run_method(cls, fn, E("value_"), vis)
    check_coverage(fn, vis)
    out += f"Definition g_sign (self_ : Ast.expr -> Z) (value_ : Ast.expr) : Z :=\n  {body}.\n\n"

    # ---- on_Operator
    fn = method(cls, "on_Operator")
    vis = set()
    br1, br2 = [], []
    for s, c in OP1:
        ct = Ctor(f"EOp1 {c} a_", "Operator", operands=["a_"], opstr=s)
        body, _ = run_method(cls, fn, E(f"(Ast.EOp1 Ast.{c} a_)", ct), vis)
        br1.append(f"  | Ast.{c} => {body}")
    for s, c in OP2:
        ct = Ctor(f"EOp2 {c} a_ b_", "Operator", operands=["a_", "b_"], opstr=s)
        body, _ = run_method(cls, fn, E(f"(Ast.EOp2 Ast.{c} a_ b_)", ct), vis)
        br2.append(f"  | Ast.{c} => {body}")
    check_coverage(fn, vis)
    out += ("Definition g_op1 (self_ : Ast.expr -> Z) (o_ : Ast.op1) (a_ : Ast.expr) : Z :=\n  match o_ with\n"
            + "\n".join(br1) + "\n  end.\n\n")
    out += ("Definition g_op2 (self_ : Ast.expr -> Z) (o_ : Ast.op2) (a_ b_ : Ast.expr) : Z :=\n  match o_ with\n"
            + "\n".join(br2) + "\n  end.\n\n")

    # ---- on_Const
    fn = method(cls, "on_Const")
    vis = set()
    ct = Ctor("EConst v_ s_", "Const", {"value": ("(Shape.const_norm s_ v_)", "Z")})
    body, _ = run_method(cls, fn, E("(Ast.EConst v_ s_)", ct), vis)
    check_coverage(fn, vis)
    out += f"Definition g_const (v_ : Z) (s_ : Bits.shape) : Z :=\n  {body}.\n\n"

    # ---- on_Signal (once per mode)
    fn = method(cls, "on_Signal")
    vis = set()
    bodies = []
    for mode in MODES:
        ct = Ctor("ESig i_ s_", "Signal", index="i_")
        body, sym = run_method(cls, fn, E("(Ast.ESig i_ s_)", ct), vis, mode=mode)
        if "en_" not in sym.used:
            fail(fn, "on_Signal does not read the signal")
        bodies.append(body)
    check_coverage(fn, vis)
    out += ("Definition g_signal (mode_curr_ : bool) (en_ : Ast.env) (i_ : nat) (s_ : Bits.shape) : Z :=\n"
            f"  if mode_curr_ then {bodies[0]} else {bodies[1]}.\n\n")

    # ---- on_Slice
    fn = method(cls, "on_Slice")
    vis = set()
    ct = Ctor("ESlice a_ lo_ hi_", "Slice", {"value": ("a_", "expr"), "start": ("lo_", "Z"), "stop": ("hi_", "Z")})
    body, _ = run_method(cls, fn, E("(Ast.ESlice a_ lo_ hi_)", ct), vis)
    check_coverage(fn, vis)
    out += f"Definition g_slice (self_ : Ast.expr -> Z) (a_ : Ast.expr) (lo_ hi_ : Z) : Z :=\n  {body}.\n\n"

    # ---- on_Part
    fn = method(cls, "on_Part")
    vis = set()
    ct = Ctor("EPart a_ off_ w_ st_", "Part", {"value": ("a_", "expr"), "offset": ("off_", "expr"),
                                               "width": ("w_", "Z"), "stride": ("st_", "Z")})
    body, _ = run_method(cls, fn, E("(Ast.EPart a_ off_ w_ st_)", ct), vis)
    check_coverage(fn, vis)
    out += ("Definition g_part (self_ rrhs_ : Ast.expr -> Z) (a_ off_ : Ast.expr) (w_ st_ : Z) : Z :=\n"
            f"  {body}.\n\n")

    # ---- on_Concat
    fn = method(cls, "on_Concat")
    vis = set()
    ct = Ctor("ECat parts_", "Concat", {"parts": ("parts_", "list expr")})
    body, _ = run_method(cls, fn, E("(Ast.ECat parts_)", ct), vis)
    check_coverage(fn, vis)
    out += f"Definition g_concat (self_ : Ast.expr -> Z) (parts_ : list Ast.expr) : Z :=\n  {body}.\n"
    return {"PyRtlRhsGen.v": out}

"""Translator unit `dsl`: the control-flow lowering of amaranth/hdl/_dsl.py -> coq/Gen/DslGen.v.

What is regenerated from the source text on every run (by walking the Python ast, fail closed):
  * Module._pop_ctrl, branch `if name == "If":`      -> g_pop_if     (one domain at a time)
  * Module._pop_ctrl, branch `if name == "Switch":`  -> g_pop_switch (one domain at a time)
  * Module._pop_ctrl, branch `if name == "FSM":`     -> g_pop_fsm    (one domain at a time; state register, its init
    value, the ongoing() comb assignments and the Switch over the state register)
  * the statement `if name not in <encoding>: ...` that allocates an FSM state encoding on first reference, in
    Module.State, in the `m.next = ` setter and in FSM.ongoing -> g_state_alloc, g_next_alloc, g_ongoing_alloc.

Subset handled (anything else raises Unsupported naming the line):
  statements   `x = e`; `a, b, .. = e1, e2, ..`; `d[k] = v` on a local dict; `l.append(e)`; `d.update(<generator>)`;
               if/else (incl. `x is None` / `x is not None`, which refine an optional variable inside the branch; the
               variables assigned in the branches are joined after the statement); bare `return`; `for <targets> in
               <list>` -> `fold_left` (or the monadic `py_foldM` where the body can raise KeyError) whose accumulator
               is the tuple of the live variables the body assigns, in order of first definition;
               the three statement forms that are the OUTPUTS of _pop_ctrl:
                 self._statements.setdefault(domain, []).append(E)   -> E is appended to the result list `stmts`
                 self._top_comb_statements.append(E)                 -> E is appended to the result list `top`
                 data["signal"] = [x =] Signal(shape, [init=E,] name=.., src_loc_at=..)  -> results `signal`, `init`
  expressions  names, None, int and pattern-string constants, + - * on ints, + and * on strings/lists,
               comparisons of ints, `not <list>`, `k [not] in <dict>`, len, zip, range, next(iter(d)), list literals,
               tuples, single-generator list comprehensions / generator expressions, d[k], d.get(k, default),
               d.items(), s.rjust / s.ljust, v.bool(), v.eq(e), Cat(list), Operator(op, [a, b]), Switch(test, cases),
               Signal(..), Enum(.., [(label, value) for ..]), OrderedDict().

Trusted reading (part of the translator's trusted base, fixed PRELUDE of the generated file):
  * Pattern strings are the model's `pattern` = list (option bool), MOST SIGNIFICANT BIT FIRST:
      "1" -> [Some true], "0" -> [Some false], "-" -> [None]; a longer literal is the list of its characters;
      s + t -> s ++ t;  "-" * k -> py_mul [None] k = k copies (none for k <= 0), i.e. repeat None k;
      s.rjust(n, "-") -> py_rjust s n None = left-padding with None up to length n (s itself when it is longer);
      s.ljust(n, "-") -> py_ljust = right-padding.
  * Values are `expr`, statements `stmt`, Python ints `Z`, clock-domain names and FSM state names `nat`;
    len(value) -> ewidth; len(list) -> py_len (a Z); v.bool() -> EOp1 OBool v; Cat(list) -> ECat list;
    v.eq(e) -> SAssign v e; Operator("==", [a, b]) -> EOp2 OEq a b; an int operand of Operator / eq is Value.cast to
    a constant of minimal shape (mk_const_auto).  Each of these is checked against the text of the one-line method /
    constructor it abbreviates (READINGS below); the constructors' own argument validation is not repeated.
  * Switch(test, cases): a case (p, stmts, src_loc) with p a str -> (Some [p], stmts); p None -> (None, stmts); p a
    tuple of already normalised strings -> (Some p, stmts); p an int k -> (Some [bin_pattern (ewidth test) k], stmts)
    when the test's shape represents k and (Some [], stmts) (never matches; the constructor warns) otherwise
    (checked against the text of Switch.__init__).
  * A per-domain statement dict ({domain: [stmt, ..]}) is a function nat -> option (list stmt); d.get(domain, [])
    -> py_get d domain [].  The bookkeeping that decides FOR WHICH domains the construct is emitted
        domains = {};  for <body> in <bodies>: for domain in <body>: domains[domain] = None;  for domain in domains:
    is compared with its expected text and the body of `for domain in domains:` is translated for ONE domain (a
    parameter): the generated function says what is appended to that domain's statement list when the domain occurs.
  * Insertion-ordered dicts (encoding, decoding, states, ongoing) are association lists in insertion order: d[k] ->
    py_dict_get (None = KeyError), d[k] = v -> py_dict_set (replace in place / append), d.items() -> the list,
    next(iter(d)) -> py_first_key (None = StopIteration), d.update(items) -> py_dict_update, OrderedDict() -> [].
    A function that can raise returns `option` (None = KeyError / StopIteration).
  * src_loc values, the FSM's name and every f-string (signal / enum member names) carry no semantics and are erased:
    a tuple component, zip argument or keyword argument of that kind is dropped.  Dropping `if_src_locs` from the zip
    and `fsm_state_src_locs[name]` (a KeyError there) assumes those containers are filled in step with `bodies` /
    `states`; the unit checks that every `…["bodies"].append(..)` in If/Elif/Else is directly followed by
    `…["src_locs"].append(src_loc)` and that State sets `["states"][name]` and `["state_src_locs"][name]` together.
  * Signal(shape, init=E, ..) -> (py_signal fresh shape, E) where `fresh` (a parameter) is the identity of the new
    signal, init defaults to 0; an int shape n -> Sh n false; no shape -> Sh 1 false; Enum(_, [(label, v) ..]) as a
    shape -> cast_enum [v ..] (Shape._cast_plain_enum, model of C10).  At most one Signal is created per path.
"""
import ast, os, sys
sys.path.insert(0, os.path.dirname(os.path.abspath(__file__)))
from py2gallina import Unsupported, find_function

NAME = "dsl"
OUTPUTS = ["DslGen.v"]
REPO = os.environ.get("VERIF_REPO", "/repo")

HEADER = """(* GENERATED by /verif/translator/unit_dsl.py from amaranth/hdl/_dsl.py — do not edit *)
From Coq Require Import ZArith List Bool.
From V.Model Require Import Bits Shape Ast Denote Stmt Derived.
Import ListNotations.
Open Scope Z_scope.

"""

PRELUDE = """(* ---- fixed prelude: Gallina meaning of the Python builtins / Amaranth constructors used by the source (trusted) ---- *)
(* {domain: [stmt, ..]} *)
Definition ddict := nat -> option (list stmt).
Definition py_get {V : Type} (d : nat -> option V) (k : nat) (dflt : V) : V :=
  match d k with Some v => v | None => dflt end.
Definition py_len {A : Type} (l : list A) : Z := Z.of_nat (length l).
Definition py_is_empty {A : Type} (l : list A) : bool := match l with [] => true | _ => false end.
(* s * k, s.rjust(n, c), s.ljust(n, c) on strings = lists of characters *)
Definition py_mul {A : Type} (s : list A) (k : Z) : list A := concat (repeat s (Z.to_nat k)).
Definition py_rjust {A : Type} (s : list A) (n : Z) (c : A) : list A := repeat c (Z.to_nat (n - py_len s)) ++ s.
Definition py_ljust {A : Type} (s : list A) (n : Z) (c : A) : list A := s ++ repeat c (Z.to_nat (n - py_len s)).
(* insertion-ordered dict = association list; eqb decides key equality *)
Fixpoint py_dict_get {K V : Type} (eqb : K -> K -> bool) (d : list (K * V)) (k : K) : option V :=
  match d with [] => None | (k', v) :: r => if eqb k' k then Some v else py_dict_get eqb r k end.
Definition py_dict_in {K V : Type} (eqb : K -> K -> bool) (d : list (K * V)) (k : K) : bool :=
  match py_dict_get eqb d k with Some _ => true | None => false end.
Fixpoint py_dict_set {K V : Type} (eqb : K -> K -> bool) (d : list (K * V)) (k : K) (v : V) : list (K * V) :=
  match d with
  | [] => [(k, v)]
  | (k', v') :: r => if eqb k' k then (k', v) :: r else (k', v') :: py_dict_set eqb r k v
  end.
Definition py_dict_update {K V : Type} (eqb : K -> K -> bool) (d : list (K * V)) (items : list (K * V)) : list (K * V) :=
  fold_left (fun d kv => py_dict_set eqb d (fst kv) (snd kv)) items d.
(* next(iter(d)) *)
Definition py_first_key {K V : Type} (d : list (K * V)) : option K :=
  match d with [] => None | kv :: _ => Some (fst kv) end.
(* a for loop whose body can raise *)
Fixpoint py_foldM {A B : Type} (f : A -> B -> option A) (l : list B) (a : A) : option A :=
  match l with [] => Some a | x :: r => match f a x with Some a' => py_foldM f r a' | None => None end end.
(* Switch(test, cases): what the constructor makes of the patterns *)
Definition py_int_patterns (test : expr) (k : Z) : list pattern :=
  if in_rangeb (shape_of test) k then [bin_pattern (ewidth test) k] else [].
Definition py_switch_str (test : expr) (cases : list (option pattern * list stmt)) : stmt :=
  SSwitch test (map (fun c => (match fst c with Some p => Some [p] | None => None end, snd c)) cases).
Definition py_switch_norm (test : expr) (cases : list (option (list pattern) * list stmt)) : stmt :=
  SSwitch test cases.
Definition py_switch_int (test : expr) (cases : list (Z * list stmt)) : stmt :=
  SSwitch test (map (fun c => (Some (py_int_patterns test (fst c)), snd c)) cases).
(* Signal(shape): `fresh` is the identity of the new signal *)
Definition py_signal (fresh : nat) (s : shape) : expr := ESig fresh s.

"""

# ---- the text of the methods / constructors that justify the readings above ---------------------------------------
READINGS = {
    ("amaranth/hdl/_ast.py", "Value.bool"): "return Operator('b', [self])",
    ("amaranth/hdl/_ast.py", "Value.eq"): "return Assign(self, value, src_loc_at=src_loc_at + 1)",
    ("amaranth/hdl/_ast.py", "Operator.__init__"):
        "super().__init__(src_loc_at=1 + src_loc_at)\nself._operator = operator\n"
        "self._operands = tuple((Value.cast(op) for op in operands))",
    ("amaranth/hdl/_ast.py", "Cat"):
        "parts = list(flatten(parts))\nif any((isinstance(part, IOValue) for part in parts)):\n"
        "    return IOConcat(parts, src_loc_at=src_loc_at + 1)\nelse:\n"
        "    return Concat(parts, src_loc_at=src_loc_at + 1)",
    ("amaranth/hdl/_ast.py", "Switch.__init__"):
        "if src_loc is None:\n    super().__init__(src_loc_at=src_loc_at)\nelse:\n    self.src_loc = src_loc\n"
        "self._test = Value.cast(test)\nnew_cases = []\n"
        "for patterns, stmts, case_src_loc in cases:\n"
        "    if patterns is not None:\n"
        "        if not isinstance(patterns, tuple):\n            patterns = (patterns,)\n"
        "        new_patterns = ()\n        key_mask = (1 << len(self.test)) - 1\n"
        "        for key in _normalize_patterns(patterns, self._test.shape()):\n"
        "            if isinstance(key, int):\n                key = to_binary(key & key_mask, len(self.test))\n"
        "            new_patterns = (*new_patterns, key)\n"
        "    else:\n        new_patterns = None\n"
        "    new_cases.append((new_patterns, Statement.cast(stmts), case_src_loc))\n"
        "self._cases = tuple(new_cases)",
    ("amaranth/hdl/_dsl.py", "FSM.__init__"):
        "self._data = data\nself.encoding = data['encoding']\nself.decoding = data['decoding']",
}

OPERATORS2 = {"==": "OEq", "!=": "ONe", "<": "OLt", "<=": "OLe", ">": "OGt", ">=": "OGe", "+": "OAdd", "-": "OSub",
              "&": "OAnd", "|": "OOr", "^": "OXor"}

KEYWORDS = {"match", "end", "with", "in", "fun", "let", "if", "then", "else", "return", "as", "at", "fix", "forall",
            "exists", "for", "where", "using", "mod", "sig", "Type", "Set", "Prop", "cofix", "struct", "name"}

ER = "erased"


def fail(node, why):
    try:
        text = ast.unparse(node)[:160]
    except Exception:
        text = "?"
    raise Unsupported(f"line {getattr(node, 'lineno', '?')}: {why}: {text}")


def mangle(name):
    return name + "_" if name in KEYWORDS else name


def body_of(f):
    return [s for s in f.body if not (isinstance(s, ast.Expr) and isinstance(s.value, ast.Constant)
                                      and isinstance(s.value.value, str))]


# ---- types ----------------------------------------------------------------------------------------------------------
# "expr" "stmt" "Z" "bool" "pat" "nat" (domain / state name) "ddict" "shape" ER ; ("list", T) ("opt", T) ("tup", (T..))
# ("dict", K, V) ; None = not yet known
def unify(a, b, node=None):
    if a is None:
        return b
    if b is None or a == b:
        return a
    if isinstance(a, tuple) and isinstance(b, tuple) and a[0] == b[0] and len(a) == len(b):
        if a[0] == "tup":
            if len(a[1]) != len(b[1]):
                raise Unsupported(f"line {getattr(node, 'lineno', '?')}: tuple arity {a} / {b}")
            return ("tup", tuple(unify(x, y, node) for x, y in zip(a[1], b[1])))
        return (a[0],) + tuple(unify(x, y, node) for x, y in zip(a[1:], b[1:]))
    raise Unsupported(f"line {getattr(node, 'lineno', '?')}: incompatible types {a} / {b}")


def join_type(a, b, node=None):
    """type of a variable after an if statement whose branches leave it with types a and b (T joins opt T)"""
    if isinstance(a, tuple) and a[0] == "opt" and not (isinstance(b, tuple) and b[0] == "opt"):
        return ("opt", unify(a[1], b, node))
    if isinstance(b, tuple) and b[0] == "opt" and not (isinstance(a, tuple) and a[0] == "opt"):
        return ("opt", unify(b[1], a, node))
    return unify(a, b, node)


def erased(t):
    """values of this type have no Gallina counterpart"""
    return t == ER or (isinstance(t, tuple) and ((t[0] == "list" and erased(t[1])) or (t[0] == "dict" and erased(t[2]))))


def coerce(c, frm, to, node=None):
    if isinstance(to, tuple) and to[0] == "opt" and not (isinstance(frm, tuple) and frm[0] == "opt"):
        unify(to[1], frm, node)
        return f"(Some {c})"
    unify(frm, to, node)
    return c


def coq_type(t):
    if t in ("expr", "stmt", "Z", "bool", "nat", "ddict", "shape"):
        return t
    if t == "pat":
        return "pattern"
    if isinstance(t, tuple):
        if t[0] == "list":
            return f"(list {coq_type(t[1])})"
        if t[0] == "opt":
            return f"(option {coq_type(t[1])})"
        if t[0] == "dict":
            return f"(list ({coq_type(t[1])} * {coq_type(t[2])}))"
        if t[0] == "tup":
            parts = [coq_type(x) for x in t[1] if x != ER]
            return "(" + " * ".join(parts) + ")"
    raise Unsupported(f"type {t} cannot be printed")


def eqb_of(keytype, node):
    if keytype == "nat":
        return "Nat.eqb"
    if keytype == "Z":
        return "Z.eqb"
    fail(node, f"dict key type {keytype}")


def tup_term(items):
    """items: [(coq, type)], erased components dropped"""
    live = [c for c, t in items if t != ER]
    if not live:
        raise Unsupported("tuple with only erased components")
    return live[0] if len(live) == 1 else "(" + ", ".join(live) + ")"


def wrap(binds, inner):
    """inner : option _ ; binds [(var, option term)] evaluated in order"""
    out = inner
    for var, term in reversed(binds):
        out = f"match {term} with None => None | Some {var} => {out} end"
    return out


def terminates(stmts):
    if not stmts:
        return False
    s = stmts[-1]
    if isinstance(s, (ast.Return, ast.Raise)):
        return True
    if isinstance(s, ast.If):
        return terminates(s.body) and terminates(s.orelse)
    return False


OUT_STMTS_PREFIX = "self._statements.setdefault(domain, []).append("
OUT_TOP_PREFIX = "self._top_comb_statements.append("


class Fn:
    """Translation of one function body. `data`: key -> (parameter name, type) for data["key"]; `aliases`: unparsed
    expression text -> (variable, type) (for the allocation snippets); `outs`: ordered result variables;
    `idioms`: accepted texts of the loop that fills `domains`."""
    def __init__(self, partial, data=None, aliases=None, outs=(), idioms=(), erased_exprs=()):
        self.partial = partial
        self.data = dict(data or {})
        self.aliases = dict(aliases or {})
        self.erased_exprs = set(erased_exprs)
        self.outs = list(outs)
        self.idioms = set(idioms)
        self.env = {}
        self.n = 0
        self.used_data = []
        self.uses_fresh = False

    def fresh(self):
        self.n += 1
        return f"t{self.n}_"

    # ------------------------------------------------------------------ expressions
    def alias(self, node):
        try:
            text = ast.unparse(node)
        except Exception:
            return None
        if text in self.erased_exprs:
            return (None, ER)
        if text in self.aliases:
            var, ty = self.aliases[text]
            return (mangle(var), self.env.get(var, ty))
        return None

    def alias_var(self, node):
        """the variable an aliased expression (e.g. fsm_data['encoding']) stands for"""
        text = ast.unparse(node)
        if text in self.aliases and text not in self.erased_exprs:
            return self.aliases[text][0]
        return None

    def ex(self, node, binds):
        al = self.alias(node)
        if al is not None:
            return al
        if isinstance(node, ast.Constant):
            v = node.value
            if v is None:
                return "None", ("opt", None)
            if type(v) is int:
                return (f"({v})" if v < 0 else str(v)), "Z"
            if type(v) is str and v and all(ch in "01-" for ch in v):
                m = {"1": "Some true", "0": "Some false", "-": "None"}
                return "[" + "; ".join(m[ch] for ch in v) + "]", "pat"
            fail(node, "constant")
        if isinstance(node, ast.JoinedStr):
            return None, ER
        if isinstance(node, ast.Name):
            if node.id not in self.env:
                fail(node, "unknown variable")
            t = self.env[node.id]
            return (None if t == ER else mangle(node.id)), t
        if isinstance(node, ast.BinOp):
            return self.binop(node, binds)
        if isinstance(node, ast.UnaryOp) and isinstance(node.op, ast.Not):
            c, t = self.ex(node.operand, binds)
            if t == "bool":
                return f"(negb {c})", "bool"
            if isinstance(t, tuple) and t[0] in ("list", "dict"):
                return f"(py_is_empty {c})", "bool"
            fail(node, "not of this type")
        if isinstance(node, ast.Compare) and len(node.ops) == 1:
            return self.compare(node, binds)
        if isinstance(node, ast.List):
            items = [self.ex(e, binds) for e in node.elts]
            et = None
            for _, t in items:
                et = unify(et, t, node)
            return "[" + "; ".join(c for c, _ in items) + "]", ("list", et)
        if isinstance(node, ast.Tuple):
            items = [self.ex(e, binds) for e in node.elts]
            return tup_term(items), ("tup", tuple(t for _, t in items))
        if isinstance(node, ast.Subscript):
            return self.subscript(node, binds)
        if isinstance(node, (ast.ListComp, ast.GeneratorExp)):
            return self.comprehension(node, binds)
        if isinstance(node, ast.Call):
            return self.call(node, binds)
        fail(node, "expression")

    def binop(self, node, binds):
        a, ta = self.ex(node.left, binds)
        b, tb = self.ex(node.right, binds)
        op = type(node.op)
        if ta == "Z" and tb == "Z":
            sym = {ast.Add: "+", ast.Sub: "-", ast.Mult: "*"}
            if op in sym:
                return f"({a} {sym[op]} {b})", "Z"
        if op is ast.Add and ta == "pat" and tb == "pat":
            return f"({a} ++ {b})", "pat"
        if op is ast.Mult and ta == "pat" and tb == "Z":
            return f"(py_mul {a} {b})", "pat"
        if op is ast.Add and isinstance(ta, tuple) and isinstance(tb, tuple) and ta[0] == tb[0] == "list":
            ea, eb = ta[1], tb[1]
            a_opt = isinstance(ea, tuple) and ea[0] == "opt"
            b_opt = isinstance(eb, tuple) and eb[0] == "opt"
            if b_opt and not a_opt and ea is not None:      # [Value, ..] + [None]: elements become optional
                et = ("opt", unify(eb[1], ea, node))
                return f"(map Some {a} ++ {b})", ("list", et)
            if a_opt and not b_opt and eb is not None:
                et = ("opt", unify(ea[1], eb, node))
                return f"({a} ++ map Some {b})", ("list", et)
            return f"({a} ++ {b})", ("list", unify(ea, eb, node))
        fail(node, "binary operator")

    def compare(self, node, binds):
        op, right = node.ops[0], node.comparators[0]
        if isinstance(op, (ast.In, ast.NotIn)):
            k, tk = self.ex(node.left, binds)
            d, td = self.ex(right, binds)
            if isinstance(td, tuple) and td[0] == "dict":
                unify(td[1], tk, node)
                c = f"(py_dict_in {eqb_of(tk, node)} {d} {k})"
                return (c if isinstance(op, ast.In) else f"(negb {c})"), "bool"
            fail(node, "membership test")
        a, ta = self.ex(node.left, binds)
        b, tb = self.ex(right, binds)
        if ta == "Z" and tb == "Z":
            m = {ast.Lt: f"({a} <? {b})", ast.LtE: f"({a} <=? {b})", ast.Gt: f"({b} <? {a})",
                 ast.GtE: f"({b} <=? {a})", ast.Eq: f"({a} =? {b})", ast.NotEq: f"(negb ({a} =? {b}))"}
            if type(op) in m:
                return m[type(op)], "bool"
        fail(node, "comparison")

    def subscript(self, node, binds):
        # data["key"] -> parameter
        if isinstance(node.value, ast.Name) and node.value.id == "data" and "data" not in self.env and \
                isinstance(node.slice, ast.Constant) and isinstance(node.slice.value, str):
            key = node.slice.value
            if key not in self.data:
                fail(node, "unknown data key")
            self.used_data.append(key)
            par, ty = self.data[key]
            return (None if ty == ER else par), ty
        d, td = self.ex(node.value, binds)
        if isinstance(td, tuple) and td[0] == "dict":
            k, tk = self.ex(node.slice, binds)
            unify(td[1], tk, node)
            if td[2] == ER:
                return None, ER
            var = self.fresh()
            binds.append((var, f"py_dict_get {eqb_of(td[1], node)} {d} {k}"))
            return var, td[2]
        fail(node, "subscript")

    def bind_target(self, target, ty, node):
        """Gallina pattern for a loop / comprehension target of element type ty; binds the names in env."""
        if isinstance(target, ast.Name):
            self.env[target.id] = ty
            return None if ty == ER else mangle(target.id)
        if isinstance(target, ast.Tuple) and isinstance(ty, tuple) and ty[0] == "tup" and len(ty[1]) == len(target.elts):
            parts = [self.bind_target(e, t, node) for e, t in zip(target.elts, ty[1])]
            live = [p for p in parts if p is not None]
            if not live:
                fail(node, "target with only erased components")
            return live[0] if len(live) == 1 else "(" + ", ".join(live) + ")"
        fail(node, f"cannot bind target to element type {ty}")

    @staticmethod
    def target_names(target):
        return [n.id for n in ast.walk(target) if isinstance(n, ast.Name)]

    @staticmethod
    def fun_pat(p):
        return "'" + p if p.startswith("(") else p

    def comprehension(self, node, binds):
        if len(node.generators) != 1 or node.generators[0].ifs or node.generators[0].is_async:
            fail(node, "comprehension shape")
        g = node.generators[0]
        it, tit = self.ex(g.iter, binds)
        if not (isinstance(tit, tuple) and tit[0] == "list"):
            fail(node, "comprehension over a non-list")
        saved = dict(self.env)
        for nm in self.target_names(g.target):
            if nm in self.env:
                fail(node, "comprehension target shadows a live variable")
        pat = self.bind_target(g.target, tit[1], node)
        inner = []
        c, t = self.ex(node.elt, inner)
        self.env = saved
        if inner:
            var = self.fresh()
            binds.append((var, f"opt_map (fun {self.fun_pat(pat)} => {wrap(inner, f'Some {c}')}) {it}"))
            return var, ("list", t)
        return f"(map (fun {self.fun_pat(pat)} => {c}) {it})", ("list", t)

    def kwargs(self, node, allowed=()):
        """keyword arguments that carry no semantics are dropped; returns the others"""
        out = {}
        for kw in node.keywords:
            if kw.arg == "src_loc_at" and isinstance(kw.value, ast.Constant) and type(kw.value.value) is int:
                continue
            if kw.arg == "src_loc" and isinstance(kw.value, ast.Name) and self.env.get(kw.value.id) == ER:
                continue
            if kw.arg == "name" and (isinstance(kw.value, ast.JoinedStr) or
                                     (isinstance(kw.value, ast.Constant) and isinstance(kw.value.value, str))):
                continue
            if kw.arg in allowed:
                out[kw.arg] = kw.value
                continue
            fail(node, f"keyword argument {kw.arg}")
        return out

    def value_operand(self, c, t, node):
        if t == "expr":
            return c
        if t == "Z":
            return f"(mk_const_auto {c})"
        fail(node, f"operand of type {t} where a value is expected")

    def call(self, node, binds):
        f = node.func
        if isinstance(f, ast.Name):
            fn = f.id
            if fn == "len" and len(node.args) == 1 and not node.keywords:
                c, t = self.ex(node.args[0], binds)
                if t == "expr":
                    return f"(ewidth {c})", "Z"
                if t == "pat" or (isinstance(t, tuple) and t[0] in ("list", "dict")):
                    return f"(py_len {c})", "Z"
                fail(node, "len of this type")
            if fn == "zip" and not node.keywords:
                args = [self.ex(a, binds) for a in node.args]
                for _, t in args:
                    if not (isinstance(t, tuple) and t[0] == "list"):
                        fail(node, "zip of a non-list")
                live = [(c, t) for c, t in args if t[1] != ER]
                if len(live) != 2:
                    fail(node, "zip arity")
                return f"(combine {live[0][0]} {live[1][0]})", ("list", ("tup", tuple(t[1] for _, t in args)))
            if fn == "range" and len(node.args) == 1 and not node.keywords:
                c, t = self.ex(node.args[0], binds)
                if t == "Z":
                    return f"(py_range 0 {c} 1)", ("list", "Z")
            if fn == "next" and len(node.args) == 1 and not node.keywords and isinstance(node.args[0], ast.Call) and \
                    isinstance(node.args[0].func, ast.Name) and node.args[0].func.id == "iter" and \
                    len(node.args[0].args) == 1 and not node.args[0].keywords:
                d, td = self.ex(node.args[0].args[0], binds)
                if isinstance(td, tuple) and td[0] == "dict":
                    var = self.fresh()
                    binds.append((var, f"py_first_key {d}"))
                    return var, td[1]
            if fn == "OrderedDict" and not node.args and not node.keywords:
                return "[]", ("dict", None, None)
            if fn == "Cat" and len(node.args) == 1 and not node.keywords:
                c, t = self.ex(node.args[0], binds)
                if isinstance(t, tuple) and t[0] == "list":
                    unify(t[1], "expr", node)
                    return f"(ECat {c})", "expr"
            if fn == "Operator" and len(node.args) == 2 and not self.kwargs(node) and \
                    isinstance(node.args[0], ast.Constant) and isinstance(node.args[1], ast.List):
                op = node.args[0].value
                ops = [self.ex(a, binds) for a in node.args[1].elts]
                if op in OPERATORS2 and len(ops) == 2:
                    a, b = [self.value_operand(c, t, node) for c, t in ops]
                    return f"(EOp2 {OPERATORS2[op]} {a} {b})", "expr"
            if fn == "Switch" and len(node.args) == 2 and not self.kwargs(node):
                t_, tt = self.ex(node.args[0], binds)
                cs, tcs = self.ex(node.args[1], binds)
                if tt != "expr" or not (isinstance(tcs, tuple) and tcs[0] == "list"):
                    fail(node, "Switch arguments")
                ct = tcs[1]
                if not (isinstance(ct, tuple) and ct[0] == "tup" and len(ct[1]) == 3 and ct[1][2] == ER):
                    fail(node, f"Switch case type {ct}")
                unify(ct[1][1], ("list", "stmt"), node)
                pt = ct[1][0]
                if pt == ("opt", "pat"):
                    return f"(py_switch_str {t_} {cs})", "stmt"
                if pt == ("opt", ("list", "pat")):
                    return f"(py_switch_norm {t_} {cs})", "stmt"
                if pt == "Z":
                    return f"(py_switch_int {t_} {cs})", "stmt"
                fail(node, f"Switch pattern type {pt}")
            if fn == "Signal":
                return self.signal(node, binds)
            fail(node, "call")
        if isinstance(f, ast.Attribute):
            m = f.attr
            if m == "bool" and not node.args and not node.keywords:
                c, t = self.ex(f.value, binds)
                if t == "expr":
                    return f"(EOp1 OBool {c})", "expr"
            if m in ("rjust", "ljust") and len(node.args) == 2 and not node.keywords:
                s, ts = self.ex(f.value, binds)
                n, tn = self.ex(node.args[0], binds)
                fill = node.args[1]
                if ts == "pat" and tn == "Z" and isinstance(fill, ast.Constant) and fill.value in ("0", "1", "-"):
                    ch = {"1": "(Some true)", "0": "(Some false)", "-": "None"}[fill.value]
                    return f"(py_{m} {s} {n} {ch})", "pat"
            if m == "get" and len(node.args) == 2 and not node.keywords:
                d, td = self.ex(f.value, binds)
                k, tk = self.ex(node.args[0], binds)
                dflt, tdf = self.ex(node.args[1], binds)
                if td == "ddict" and tk == "nat":
                    unify(tdf, ("list", "stmt"), node)
                    return f"(py_get {d} {k} {dflt})", ("list", "stmt")
            if m == "items" and not node.args and not node.keywords:
                d, td = self.ex(f.value, binds)
                if isinstance(td, tuple) and td[0] == "dict":
                    return d, ("list", ("tup", (td[1], td[2])))
            if m == "eq" and len(node.args) == 1 and not node.keywords:
                l, tl = self.ex(f.value, binds)
                r, tr = self.ex(node.args[0], binds)
                if tl == "expr":
                    return f"(SAssign {l} {self.value_operand(r, tr, node)})", "stmt"
        fail(node, "call")

    def signal(self, node, binds):
        """Signal(shape?, init=?, name=..) -> expression; the init value is left in self.sig_init"""
        kw = self.kwargs(node, allowed=("init",))
        if self.env.get("__fresh_used"):
            fail(node, "a second signal is created on this path")
        self.env["__fresh_used"] = True
        self.uses_fresh = True
        if len(node.args) == 0:
            sh = "(Sh 1 false)"
        elif len(node.args) == 1:
            a = node.args[0]
            if isinstance(a, ast.Constant) and type(a.value) is int and a.value >= 0:
                sh = f"(Sh {a.value} false)"
            elif isinstance(a, ast.Call) and isinstance(a.func, ast.Name) and a.func.id == "Enum" and \
                    len(a.args) == 2 and not a.keywords and isinstance(a.args[0], (ast.JoinedStr, ast.Constant)):
                members, tm = self.ex(a.args[1], binds)
                if tm != ("list", ("tup", (ER, "Z"))):
                    fail(node, f"Enum members of type {tm}")
                sh = f"(cast_enum {members})"
            else:
                fail(node, "Signal shape")
        else:
            fail(node, "Signal arguments")
        if "init" in kw:
            i, ti = self.ex(kw["init"], binds)
            if ti != "Z":
                fail(node, "Signal init")
            self.sig_init = i
        else:
            self.sig_init = "0"
        return f"(py_signal fresh {sh})", "expr"

    # ------------------------------------------------------------------ statements
    def assigned(self, stmts):
        """variables (incl. result pseudo-variables) a statement list assigns, in order of first assignment"""
        out = []

        def add(v):
            if v not in out:
                out.append(v)

        def base_var(node):
            return self.alias_var(node) or (node.id if isinstance(node, ast.Name) else None)
        for s in stmts:
            if isinstance(s, ast.Assign):
                for tg in s.targets:
                    if isinstance(tg, ast.Subscript):
                        if ast.unparse(tg) == "data['signal']":
                            add("OUT_signal"); add("OUT_init")
                        else:
                            b = base_var(tg.value)
                            if b is None:
                                fail(s, "assignment target")
                            add(b)
                    else:
                        for nm in self.target_names(tg):
                            add(nm)
            elif isinstance(s, ast.Expr):
                text = ast.unparse(s)
                if text.startswith(OUT_STMTS_PREFIX):
                    add("OUT_stmts")
                elif text.startswith(OUT_TOP_PREFIX):
                    add("OUT_top")
                elif isinstance(s.value, ast.Call) and isinstance(s.value.func, ast.Attribute) and \
                        s.value.func.attr in ("append", "update"):
                    b = base_var(s.value.func.value)
                    if b is None:
                        fail(s, "mutated object")
                    add(b)
                elif isinstance(s.value, ast.Constant) and isinstance(s.value.value, str):
                    pass
                else:
                    fail(s, "expression statement")
            elif isinstance(s, ast.If):
                for v in self.assigned(s.body) + self.assigned(s.orelse):
                    add(v)
            elif isinstance(s, ast.For):
                for v in self.assigned(s.body):
                    add(v)
            elif isinstance(s, ast.Return):
                pass
            else:
                fail(s, "statement")
        return out

    def result(self, node=None):
        items = []
        for o in self.outs:
            if o not in self.env:
                raise Unsupported(f"line {getattr(node, 'lineno', '?')}: result {o} is not defined at the end of the function")
            items.append((mangle(o), self.env[o]))
        t = tup_term(items)
        return f"Some {t}" if self.partial else t

    def let(self, var, c, binds, rest_term):
        """let var := c in rest, under the partial sub-terms of c"""
        body = f"let {mangle(var)} := {c} in\n  {rest_term}"
        if binds:
            if not self.partial:
                raise Unsupported("a sub-term can raise in a function translated as total")
            return wrap(binds, body)
        return body

    def blk(self, stmts, k):
        if not stmts:
            return k()
        s, rest = stmts[0], stmts[1:]
        if isinstance(s, ast.Expr) and isinstance(s.value, ast.Constant) and isinstance(s.value.value, str):
            return self.blk(rest, k)                                  # docstring
        if isinstance(s, ast.Return):
            if s.value is not None:
                fail(s, "return with a value")
            if rest:
                fail(rest[0], "statement after return")
            return self.result(s)
        if isinstance(s, ast.Assign):
            return self.assign(s, rest, k)
        if isinstance(s, ast.Expr):
            return self.expr_stmt(s, rest, k)
        if isinstance(s, ast.If):
            return self.if_stmt(s, rest, k)
        if isinstance(s, ast.For):
            return self.for_stmt(s, rest, k)
        fail(s, "statement")

    def set_var(self, var, ty, node):
        if var in self.env and self.env[var] is not None:
            ty = unify(self.env[var], ty, node)      # a variable keeps its type (a list of unknown may be refined)
        self.env[var] = ty

    def assign(self, s, rest, k):
        # ---- domains idiom
        if ast.unparse(s) == "domains = {}":
            if len(rest) != 2 or ast.unparse(rest[0]) not in self.idioms or not isinstance(rest[1], ast.For) or \
                    ast.unparse(rest[1].target) != "domain" or ast.unparse(rest[1].iter) != "domains" or rest[1].orelse:
                fail(s, "per-domain bookkeeping differs from the expected text")
            if "domain" in self.env:
                fail(s, "domain already bound")
            self.env["domain"] = "nat"
            return self.blk(rest[1].body, k)
        # ---- data["signal"] = [x =] Signal(...)
        if ast.unparse(s.targets[0]) == "data['signal']":
            others = s.targets[1:]
            if not all(isinstance(t, ast.Name) for t in others) or len(others) > 1 or \
                    not (isinstance(s.value, ast.Call) and isinstance(s.value.func, ast.Name) and s.value.func.id == "Signal"):
                fail(s, "signal definition")
            binds = []
            c, t = self.ex(s.value, binds)
            init = self.sig_init
            self.env["OUT_signal"] = "expr"
            self.env["OUT_init"] = "Z"
            for o in others:
                self.set_var(o.id, "expr", s)
            body = self.blk(rest, k)
            for o in others:
                body = f"let {mangle(o.id)} := OUT_signal in\n  {body}"
            body = f"let OUT_init := {init} in\n  {body}"
            return self.let("OUT_signal", c, binds, body)
        if len(s.targets) != 1:
            fail(s, "multiple targets")
        tg = s.targets[0]
        if isinstance(tg, ast.Name):
            binds = []
            c, t = self.ex(s.value, binds)
            if erased(t):
                self.env[tg.id] = t
                return self.blk(rest, k)
            self.set_var(tg.id, t, s)
            return self.let(tg.id, c, binds, self.blk(rest, k))
        if isinstance(tg, ast.Tuple) and isinstance(s.value, ast.Tuple) and len(tg.elts) == len(s.value.elts) and \
                all(isinstance(e, ast.Name) for e in tg.elts):
            names = [e.id for e in tg.elts]
            for v in s.value.elts:
                for n in ast.walk(v):
                    if isinstance(n, ast.Name) and n.id in names:
                        fail(s, "simultaneous assignment reads one of its targets")
            vals = []
            for v in s.value.elts:
                binds = []
                c, t = self.ex(v, binds)
                if binds:
                    fail(s, "partial value in a tuple assignment")
                vals.append((c, t))
            for nm, (c, t) in zip(names, vals):
                if erased(t):
                    self.env[nm] = t
                else:
                    self.set_var(nm, t, s)
            body = self.blk(rest, k)
            for nm, (c, t) in reversed(list(zip(names, vals))):
                if not erased(t):
                    body = f"let {mangle(nm)} := {c} in\n  {body}"
            return body
        if isinstance(tg, ast.Subscript):
            # d[k] = v on a dict variable
            var = self.alias_var(tg.value)
            if var is None:
                if isinstance(tg.value, ast.Name) and tg.value.id in self.env:
                    var = tg.value.id
                else:
                    fail(s, "subscript assignment target")
            td = self.env.get(var)
            if not (isinstance(td, tuple) and td[0] == "dict"):
                fail(s, "subscript assignment to a non-dict")
            binds = []
            kx, tk = self.ex(tg.slice, binds)
            vx, tv = self.ex(s.value, binds)
            td = ("dict", unify(td[1], tk, s), unify(td[2], tv, s))
            self.env[var] = td
            c = f"py_dict_set {eqb_of(td[1], s)} {mangle(var)} {kx} {vx}"
            return self.let(var, c, binds, self.blk(rest, k))
        fail(s, "assignment")

    def expr_stmt(self, s, rest, k):
        text = ast.unparse(s)
        call = s.value
        for prefix, out in ((OUT_STMTS_PREFIX, "OUT_stmts"), (OUT_TOP_PREFIX, "OUT_top")):
            if text.startswith(prefix):
                if not (isinstance(call, ast.Call) and len(call.args) == 1 and not call.keywords):
                    fail(s, "output statement")
                if out not in self.outs:
                    fail(s, "this function does not have that output")
                binds = []
                c, t = self.ex(call.args[0], binds)
                if t != "stmt":
                    fail(s, "a non-statement is appended to a statement list")
                return self.let(out, f"{out} ++ [{c}]", binds, self.blk(rest, k))
        if isinstance(call, ast.Call) and isinstance(call.func, ast.Attribute) and len(call.args) == 1 and not call.keywords:
            obj = call.func.value
            if not (isinstance(obj, ast.Name) and obj.id in self.env):
                fail(s, "method call on something that is not a local variable")
            var, tv = obj.id, self.env[obj.id]
            binds = []
            if call.func.attr == "append" and isinstance(tv, tuple) and tv[0] == "list":
                c, t = self.ex(call.args[0], binds)
                self.env[var] = ("list", unify(tv[1], t, s))
                return self.let(var, f"{mangle(var)} ++ [{c}]", binds, self.blk(rest, k))
            if call.func.attr == "update" and isinstance(tv, tuple) and tv[0] == "dict":
                c, t = self.ex(call.args[0], binds)
                if not (isinstance(t, tuple) and t[0] == "list" and isinstance(t[1], tuple) and t[1][0] == "tup"
                        and len(t[1][1]) == 2):
                    fail(s, "update argument")
                td = ("dict", unify(tv[1], t[1][1][0], s), unify(tv[2], t[1][1][1], s))
                self.env[var] = td
                return self.let(var, f"py_dict_update {eqb_of(td[1], s)} {mangle(var)} {c}", binds, self.blk(rest, k))
        fail(s, "expression statement")

    def refinement(self, test):
        """(variable, inner type, positive?) for `x is not None` / `x is None` on an optional variable"""
        if isinstance(test, ast.Compare) and len(test.ops) == 1 and isinstance(test.ops[0], (ast.Is, ast.IsNot)) and \
                isinstance(test.left, ast.Name) and isinstance(test.comparators[0], ast.Constant) and \
                test.comparators[0].value is None:
            v = test.left.id
            t = self.env.get(v)
            if isinstance(t, tuple) and t[0] == "opt":
                return v, t[1], isinstance(test.ops[0], ast.IsNot)
            fail(test, "None test on a variable that is not optional")
        return None

    def if_stmt(self, s, rest, k):
        ref = self.refinement(s.test)
        if ref is None:
            binds = []
            c, t = self.ex(s.test, binds)
            if t != "bool" or binds:
                fail(s, "condition")

            def render(a, b):
                return f"if {c} then\n  {a}\n  else\n  {b}"
            first, second = s.body, s.orelse

            def enter_first():
                pass
        else:
            var, inner, positive = ref
            first, second = (s.body, s.orelse) if positive else (s.orelse, s.body)   # first = the Some branch

            def render(a, b):
                return f"match {mangle(var)} with\n  | Some {mangle(var)} => {a}\n  | None => {b}\n  end"

            def enter_first():
                self.env[var] = inner
        env0 = dict(self.env)

        def run(branch, is_first, kk):
            self.env = dict(env0)
            if is_first:
                enter_first()
            return self.blk(branch, kk)
        t1, t2 = terminates(first), terminates(second)
        if t1 or t2:
            # early exit in one branch: the other one continues with the rest of the block
            if t1 and t2:
                a = run(first, True, k)
                b = run(second, False, k)
                return render(a, b)
            if t1:
                a = run(first, True, k)
                b = run(list(second) + rest, False, k)
                return render(a, b)
            b = run(second, False, k)
            a = run(list(first) + rest, True, k)
            return render(a, b)
        # join: the variables either branch assigns
        jv = [v for v in self.assigned(list(s.body)) + self.assigned(list(s.orelse))]
        jv = list(dict.fromkeys(jv))
        if not jv:
            fail(s, "if statement without effect")
        ends = []

        def probe():
            ends.append(dict(self.env))
            return "_"
        run(first, True, probe)
        run(second, False, probe)
        jt = {}
        dropped = [v for v in jv if ER in (ends[0].get(v), ends[1].get(v))]
        jv = [v for v in jv if v not in dropped]
        if not jv:
            fail(s, "if statement without effect")
        for v in jv:
            ta, tb = ends[0].get(v, "?"), ends[1].get(v, "?")
            if ta == "?" or tb == "?":
                fail(s, f"variable {v} is not defined on both paths")
            jt[v] = join_type(ta, tb, s)
        fresh_used = ends[0].get("__fresh_used") or ends[1].get("__fresh_used")

        def tail():
            items = [(coerce(mangle(v), self.env[v], jt[v], s), jt[v]) for v in jv]
            t = tup_term(items)
            return f"Some {t}" if self.partial else t
        n0 = self.n
        a = run(first, True, tail)
        b = run(second, False, tail)
        self.env = dict(env0)
        for v in jv:
            self.env[v] = jt[v]
        for v in dropped:
            self.env[v] = ER
        if fresh_used:
            self.env["__fresh_used"] = True
        pat = tup_term([(mangle(v), jt[v]) for v in jv])
        cont = self.blk(rest, k)
        if self.partial:
            return f"match ({render(a, b)}) with\n  | None => None\n  | Some {pat} =>\n  {cont}\n  end"
        return f"let {self.fun_pat(pat)} := ({render(a, b)}) in\n  {cont}"

    def for_stmt(self, s, rest, k):
        if s.orelse:
            fail(s, "for-else")
        binds = []
        it, tit = self.ex(s.iter, binds)
        if not (isinstance(tit, tuple) and tit[0] == "list"):
            fail(s, "for over a non-list")
        for nm in self.target_names(s.target):
            if nm in self.env:
                fail(s, f"loop target {nm} rebinds a live variable")
        env0 = dict(self.env)
        accs = [v for v in self.env if v in self.assigned(list(s.body)) and not v.startswith("__") and self.env[v] != ER]
        if not accs:
            fail(s, "loop without effect on a live variable")
        # first pass: the types of the accumulators at the end of the body (an empty list gets its element type there)
        ends = []

        def probe():
            ends.append(dict(self.env))
            return "_"
        self.bind_target(s.target, tit[1], s)
        self.blk(list(s.body), probe)
        if ends[0].get("__fresh_used") and not env0.get("__fresh_used"):
            fail(s, "a signal is created inside a loop")
        self.env = dict(env0)
        for v in accs:
            self.env[v] = unify(env0[v], ends[0][v], s)
        env1 = dict(self.env)
        pat_elem = self.bind_target(s.target, tit[1], s)

        def tail():
            items = [(coerce(mangle(v), self.env[v], env1[v], s), env1[v]) for v in accs]
            t = tup_term(items)
            return f"Some {t}" if self.partial else t
        body = self.blk(list(s.body), tail)
        self.env = dict(env1)
        pat = tup_term([(mangle(v), env1[v]) for v in accs])
        cont = self.blk(rest, k)
        fold = "py_foldM" if self.partial else "fold_left"
        loop = f"{fold} (fun {self.fun_pat(pat)} {self.fun_pat(pat_elem)} =>\n  {body})\n  {it} {pat}"
        if self.partial:
            return wrap(binds, f"match {loop} with\n  | None => None\n  | Some {pat} =>\n  {cont}\n  end")
        if binds:
            fail(s, "partial iterable in a total function")
        return f"let {self.fun_pat(pat)} := {loop} in\n  {cont}"


# ---- structure checks ---------------------------------------------------------------------------------------------
def check_readings():
    trees = {}
    for (rel, qual), expected in READINGS.items():
        if rel not in trees:
            with open(os.path.join(REPO, rel)) as fh:
                trees[rel] = ast.parse(fh.read())
        f = find_function(trees[rel], qual)
        got = "\n".join(ast.unparse(s) for s in body_of(f))
        if got != expected:
            raise Unsupported(f"{qual}: body changed; the trusted reading of the translator no longer applies")


def check_parallel_appends(tree):
    """bodies / src_locs and states / state_src_locs are filled in step (justifies dropping the src_loc containers)"""
    for meth, expect in (("If", 1), ("Elif", 1), ("Else", 1)):
        f = find_function(tree, "Module." + meth)
        found = 0
        for node in ast.walk(f):
            for field in ("body", "orelse", "finalbody"):
                stmts = getattr(node, field, None)
                if not isinstance(stmts, list):
                    continue
                for i, s in enumerate(stmts):
                    if isinstance(s, ast.stmt) and ast.unparse(s).startswith("if_data['bodies'].append("):
                        nxt = stmts[i + 1] if i + 1 < len(stmts) else None
                        if nxt is None or ast.unparse(nxt) != "if_data['src_locs'].append(src_loc)":
                            raise Unsupported(f"Module.{meth}: bodies and src_locs are not appended together")
                        found += 1
        text = ast.unparse(f)
        if found != expect or text.count("['bodies']") != found or text.count("['src_locs']") != found:
            raise Unsupported(f"Module.{meth}: unexpected use of the bodies / src_locs lists")
    f = find_function(tree, "Module.State")
    found = 0
    for node in ast.walk(f):
        for field in ("body", "orelse", "finalbody"):
            stmts = getattr(node, field, None)
            if not isinstance(stmts, list):
                continue
            for i, s in enumerate(stmts):
                if isinstance(s, ast.stmt) and ast.unparse(s) == "fsm_data['states'][name] = self._statements":
                    nxt = stmts[i + 1] if i + 1 < len(stmts) else None
                    if nxt is None or ast.unparse(nxt) != "fsm_data['state_src_locs'][name] = src_loc":
                        raise Unsupported("Module.State: states and state_src_locs are not set together")
                    found += 1
    text = ast.unparse(f)
    if found != 1 or text.count("['state_src_locs']") != 1 or text.count("fsm_data['states'][name] =") != 1:
        raise Unsupported("Module.State: unexpected use of the states / state_src_locs dicts")


IF_IDIOM = "for if_case in if_bodies:\n    for domain in if_case:\n        domains[domain] = None"
SWITCH_IDIOM = "for _patterns, stmts, _src_loc in switch_cases:\n    for domain in stmts:\n        domains[domain] = None"
FSM_IDIOM = "for stmts in fsm_states.values():\n    for domain in stmts:\n        domains[domain] = None"

IF_DATA = {"tests": ("d_tests", ("list", "expr")), "bodies": ("d_bodies", ("list", "ddict")),
           "src_locs": ("d_src_locs", ("list", ER))}
SWITCH_DATA = {"test": ("d_test", "expr"),
               "cases": ("d_cases", ("list", ("tup", (("opt", ("list", "pat")), "ddict", ER))))}
FSM_DATA = {"name": ("d_name", ER), "init": ("d_init", ("opt", "nat")), "encoding": ("d_encoding", ("dict", "nat", "Z")),
            "decoding": ("d_decoding", ("dict", "Z", "nat")), "states": ("d_states", ("dict", "nat", "ddict")),
            "ongoing": ("d_ongoing", ("dict", "nat", "expr")), "state_src_locs": ("d_state_src_locs", ("dict", "nat", ER))}


def definition(name, params, result, term):
    ps = " ".join(f"({p} : {coq_type(t)})" for p, t in params if not erased(t))
    return f"Definition {name} {ps} : {result} :=\n  {term}.\n\n"


def branch_function(coqname, stmts, data, partial, outs, idioms, result_type):
    fn = Fn(partial, data=data, outs=outs, idioms=idioms)
    fn.env["src_loc"] = ER                      # src_loc = data["src_loc"], first statement of _pop_ctrl
    inits = []
    for o in outs:
        if o in ("OUT_stmts", "OUT_top"):
            fn.env[o] = ("list", "stmt")
            inits.append(o)
    term = fn.blk(stmts, lambda: fn.result())
    for o in reversed(inits):
        term = f"let {o} := [] in\n  {term}"
    missing = [k for k in data if k not in fn.used_data]
    if missing:
        raise Unsupported(f"{coqname}: data keys {missing} are no longer read")
    params = [("domain", "nat")] + ([("fresh", "nat")] if fn.uses_fresh else []) + [data[k] for k in data]
    return definition(coqname, params, result_type, term)


def alloc_function(coqname, tree, qual, prefix, extra_aliases, setter=False):
    """the statement `if name not in <encoding>:` of one of the three places that reference a state name"""
    if setter:
        cls = find_function(tree, qual.rsplit(".", 1)[0])
        cands = [n for n in cls.body if isinstance(n, ast.FunctionDef) and n.name == qual.rsplit(".", 1)[1] and
                 any(ast.unparse(d).endswith(".setter") for d in n.decorator_list)]
        if len(cands) != 1:
            raise Unsupported(f"{qual}: setter not found")
        f = cands[0]
    else:
        f = find_function(tree, qual)
    if "name" not in [a.arg for a in f.args.args]:
        raise Unsupported(f"{qual}: parameter `name` is missing")
    enc_text, og_text, name_text = [f"{prefix[k]}" for k in ("encoding", "ongoing", "name")]
    hits = [n for n in ast.walk(f) if isinstance(n, ast.If) and ast.unparse(n.test) == f"name not in {enc_text}"]
    if len(hits) != 1 or hits[0].orelse:
        raise Unsupported(f"{qual}: the statement `if name not in {enc_text}:` was not found exactly once")
    text = ast.unparse(f)
    # the encoding / ongoing dicts may not be written anywhere else in the method
    for t in (enc_text, og_text):
        if text.count(t + "[name] =") != 1:
            raise Unsupported(f"{qual}: {t} is assigned outside the allocation statement")
    aliases = {enc_text: ("encoding", ("dict", "nat", "Z")), og_text: ("ongoing", ("dict", "nat", "expr"))}
    aliases.update(extra_aliases)
    fn = Fn(False, aliases=aliases, outs=["encoding", "ongoing"], erased_exprs=[name_text])
    fn.env.update({"encoding": ("dict", "nat", "Z"), "ongoing": ("dict", "nat", "expr"), "name": "nat"})
    term = fn.blk([hits[0]], lambda: fn.result())
    params = [("encoding", ("dict", "nat", "Z")), ("ongoing", ("dict", "nat", "expr")), ("name_", "nat")] + \
             ([("fresh", "nat")] if fn.uses_fresh else [])
    return definition(coqname, params, "(list (nat * Z) * list (nat * expr))", term)


def unit():
    check_readings()
    with open(os.path.join(REPO, "amaranth/hdl/_dsl.py")) as fh:
        tree = ast.parse(fh.read())
    check_parallel_appends(tree)
    f = find_function(tree, "Module._pop_ctrl")
    if [a.arg for a in f.args.args] != ["self"] or f.args.vararg or f.args.kwarg or f.args.kwonlyargs:
        raise Unsupported("_pop_ctrl: signature changed")
    b = body_of(f)
    heads = [ast.unparse(s) if not isinstance(s, ast.If) else "if " + ast.unparse(s.test) for s in b]
    if heads != ["name, data = self._ctrl_stack.pop()", "src_loc = data['src_loc']",
                 "if name == 'If'", "if name == 'Switch'", "if name == 'FSM'"] or any(s.orelse for s in b[2:]):
        raise Unsupported(f"_pop_ctrl: top-level structure changed: {heads}")
    out = HEADER + PRELUDE
    out += "(* ---- Module._pop_ctrl, name == \"If\": what is appended to the statements of `domain` ---- *)\n"
    out += branch_function("g_pop_if", b[2].body, IF_DATA, False, ["OUT_stmts"], [IF_IDIOM], "list stmt")
    out += "(* ---- Module._pop_ctrl, name == \"Switch\" ---- *)\n"
    out += branch_function("g_pop_switch", b[3].body, SWITCH_DATA, False, ["OUT_stmts"], [SWITCH_IDIOM], "list stmt")
    out += ("(* ---- Module._pop_ctrl, name == \"FSM\": (state register, its init value, statements appended to the\n"
            "   top-level comb list, statements appended to the list of `domain`); None = KeyError / StopIteration ---- *)\n")
    out += branch_function("g_pop_fsm", b[4].body, FSM_DATA, True, ["OUT_signal", "OUT_init", "OUT_top", "OUT_stmts"],
                           [FSM_IDIOM], "option (expr * Z * list stmt * list stmt)")
    out += "(* ---- first reference of a state name: Module.State, `m.next = name`, FSM.ongoing(name) ---- *)\n"
    out += alloc_function("g_state_alloc", tree, "Module.State",
                          {"encoding": "fsm_data['encoding']", "ongoing": "fsm_data['ongoing']", "name": "fsm_data['name']"}, {})
    out += alloc_function("g_next_alloc", tree, "Module.next",
                          {"encoding": "ctrl_data['encoding']", "ongoing": "ctrl_data['ongoing']", "name": "ctrl_data['name']"},
                          {}, setter=True)
    out += alloc_function("g_ongoing_alloc", tree, "FSM.ongoing",
                          {"encoding": "self.encoding", "ongoing": "self._data['ongoing']", "name": "self._data['name']"}, {})
    return {"DslGen.v": out}

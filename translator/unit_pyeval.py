"""Translator unit "pyeval": amaranth/sim/_pyeval.py  ->  coq/Gen/PyEvalGen.v

Translated functions (regenerated from the current source text on every run):
  _eval_matches       -> eval_matches       : Z -> option (list pattern) -> bool
  eval_value          -> eval_value         : env -> expr -> Z                          (Fixpoint over expr)
  _eval_assign_inner  -> eval_assign_inner  : env -> expr -> Z -> Z -> Z -> env -> env  (Fixpoint over expr)
  eval_assign         -> eval_assign        : env -> expr -> Z -> env -> env

Method: the body of eval_value / _eval_assign_inner is *specialised* once for every constructor of the model's
`expr` (30 patterns: EConst, ESig, 8 x EOp1, 16 x EOp2, ESlice, EPart, ECat, ESwitch).  In one specialisation the tests
`isinstance(value, C)`, `len(value.operands) == n`, `value.operator == "s"`, `value.operator in ("u", "s")` have a
known truth value (tables CLASS_OF / OP1 / OP2 below); an `if` with a statically known test is replaced by the branch
taken; everything else (every operator, constant, comparison, statement order, loop) is produced by walking the Python
ast (expressions through py2gallina.tr_expr).  A constructor that reaches `assert False`, a statement that is never
reached by any constructor and is not in the narrow text whitelist below, an unknown class / operator string /
field / call: all raise Unsupported.

TRUSTED BASE of this unit (besides py2gallina's operator mapping):
  * the constructor tables: Python class <-> expr constructor, operator string <-> op1/op2 constructor (OP1, OP2),
    `value.operands[i]`, `.value/.start/.stop/.offset/.width/.stride/.parts/.test/.cases` <-> constructor arguments;
    the modelled classes are pairwise unrelated by inheritance (checked against hdl/_ast.py on every run), so the
    order of the isinstance chain does not matter;
  * `Const.value` is `const_norm shape value` (the constructor normalises; that code is translated by unit "shape":
    ShapeGen.const_wrap, theorem C10_gen_const_wrap); `x.shape()` is Ast.shape_of x (Operator.shape is translated
    by unit "opshape"); `len(x)` is `width (shape_of x)` (Value.__len__); `Signal._signed` is the sign of its shape;
  * `format(x, 'b').count('1')` is Bits.popcount x (number of one bits, x >= 0; here x = op_a & mask with
    mask = (1 << width) - 1), so `format(x, 'b').count('1') % 2` is `popcount x mod 2`, which is Bits.parity x by
    definition;
  * `int(bool)` is Z.b2z; `-1 << n` is Z.shiftl (-1) n;
  * normalised switch patterns are strings over '0' '1' '-' (SwitchValue.__init__ converts integer keys with
    to_binary), modelled as Ast.pattern = list (option bool), MSB first, None = '-': `isinstance(pattern, str)` is
    true; `int("".join(f(b) for b in pattern) or "0", 2)` is `int2 (map f pattern)` (base-2 digits, most significant
    first, empty string -> 0; a '-' reaching int() -- a ValueError in Python -- is a poison digit 2, so that equality
    with the model fails unless the source replaces every '-' first);
  * simulator state: `sim.get_signal(sig)` is the signal's index, `sim.slots[slot].curr` / `.next` are the
    environments curr / next, `sim.slots[slot].update(v)` (_PySignalState.update with the default mask ~0:
    next = (next & ~mask) | (v & mask) = v) is `Stmt.upd next slot v`; a procedure that mutates `sim` is a function
    env -> env, a bare `return` returns the current `next`;
  * WHITELIST below: statements that are not translated (exact text compared), with the reason.
"""
import ast, os, sys
sys.path.insert(0, os.path.dirname(os.path.abspath(__file__)))
import py2gallina as P
from py2gallina import Unsupported, Ctx, tr_expr, as_bool, find_function, fail, assigned_names

NAME = "pyeval"
OUTPUTS = ["PyEvalGen.v"]
SRC = "amaranth/sim/_pyeval.py"

# ---------------------------------------------------------------- tables (trusted)
OP1 = [("u", "OU"), ("s", "OS"), ("-", "ONeg"), ("~", "ONot"), ("b", "OBool"), ("r|", "ORor"), ("r&", "ORand"),
       ("r^", "ORxor")]
OP2 = [("|", "OOr"), ("&", "OAnd"), ("^", "OXor"), ("+", "OAdd"), ("-", "OSub"), ("*", "OMul"), ("//", "ODiv"),
       ("%", "OMod"), ("<<", "OShl"), (">>", "OShr"), ("==", "OEq"), ("!=", "ONe"), ("<", "OLt"), ("<=", "OLe"),
       (">", "OGt"), (">=", "OGe")]
OP_STRINGS = {s for s, _ in OP1} | {s for s, _ in OP2}

MODELLED = ["Const", "Operator", "Slice", "Part", "Concat", "SwitchValue", "Signal"]
OUT_OF_MODEL = ["MemoryData._Row", "ResetSignal", "ClockSignal", "AnyValue", "Initial"]


class Ctor:
    def __init__(self, pat, cls, fields=None, operands=None, opstr=None, slot=None):
        self.pat, self.cls, self.fields = pat, cls, dict(fields or {})
        self.operands, self.opstr, self.slot = list(operands or []), opstr, slot
        self.arity = len(self.operands) if cls == "Operator" else None


def ctors():
    out = [Ctor("EConst v_ s_", "Const", {"value": ("(Shape.const_norm s_ v_)", "Z")}),
           Ctor("ESig i_ s_", "Signal", {"_signed": ("(Bits.sgn s_)", "bool")}, slot=("i_", "slot"))]
    for s, c in OP1:
        out.append(Ctor(f"EOp1 {c} a_", "Operator", operands=[("a_", "expr")], opstr=s))
    for s, c in OP2:
        out.append(Ctor(f"EOp2 {c} a_ b_", "Operator", operands=[("a_", "expr"), ("b_", "expr")], opstr=s))
    out += [Ctor("ESlice a_ lo_ hi_", "Slice", {"value": ("a_", "expr"), "start": ("lo_", "Z"), "stop": ("hi_", "Z")}),
            Ctor("EPart a_ off_ w_ st_", "Part", {"value": ("a_", "expr"), "offset": ("off_", "expr"),
                                                  "width": ("w_", "Z"), "stride": ("st_", "Z")}),
            Ctor("ECat parts_", "Concat", {"parts": ("parts_", "list expr")}),
            Ctor("ESwitch test_ cases_", "SwitchValue", {"test": ("test_", "expr"),
                                                         "cases": ("cases_", "list (optpats*expr)")})]
    return out


# statements that are NOT translated: exact unparsed text -> reason
WHITELIST = {
    # eval_value: tail of the isinstance chain
    "if isinstance(value, MemoryData._Row):\n"
    "    slot = sim.get_memory(value._memory)\n"
    "    return sim.slots[slot].read(value._index)\n"
    "elif isinstance(value, (ResetSignal, ClockSignal, AnyValue, Initial)):\n"
    "    raise ValueError(f'Value {value!r} cannot be used in simulation')\n"
    "else:\n"
    "    assert False":
        "memory rows, ClockSignal/ResetSignal/AnyValue/Initial are not expressions of the model (Ast.expr)",
    # _eval_assign_inner: memory row target
    "lhs_stop = lhs_start + rhs_len\n"
    "if lhs_stop > len(lhs):\n"
    "    lhs_stop = len(lhs)\n"
    "if lhs_start >= len(lhs):\n"
    "    return\n"
    "slot = sim.get_memory(lhs._memory)\n"
    "mask = (1 << lhs_stop) - (1 << lhs_start)\n"
    "sim.slots[slot].write(lhs._index, rhs << lhs_start, mask)":
        "memory rows are not targets of the model's expr (Stmt.tb_row_write models this branch separately)",
    # _eval_matches: integer patterns
    "if pattern == test:\n"
    "    return True":
        "patterns of a SwitchValue are normalised to strings by its constructor; the model has string patterns only",
    "assert False": "unreachable: every constructor returns before it (checked: reaching it raises Unsupported)",
}
# statements skipped when met (exact text), the translation continues with the next statement
SKIP_WHEN_MET = {
    "if sim.slots[slot].is_comb:\n"
    "    raise DriverConflict('Combinationally driven signals cannot be overriden by testbenches')":
        "the model has no combinationally driven signals in testbench writes (exception not modelled)",
}
# `raise` translated as "return the state unchanged" (the model's `| _ => nx`); unreachable for wf_lhs targets
RAISE_AS_UNCHANGED = {
    "raise ValueError(f'Value {lhs!r} cannot be assigned')":
        "type-check raise for non-assignable targets; every C05 theorem about writes assumes wf_lhs",
}

COQ_KEYWORDS = set("as at cofix else end exists exists2 fix for forall fun if IF in let match mod return then using "
                   "where with Prop Set Type SProp".split())
EMITTED_GLOBALS = {"map", "negb", "andb", "orb", "Some", "None", "true", "false", "int2", "pchar_eqb", "pc_0", "pc_1",
                   "pc_dash", "eval_value", "eval_matches", "eval_assign_inner", "eval_assign", "nat", "Z", "bool",
                   "list", "option"}

TY = {"Z": "Z", "bool": "bool", "shape": "Bits.shape", "expr": "Ast.expr", "env": "Ast.env", "slot": "nat",
      "pattern": "Ast.pattern", "optpats": "(option (list Ast.pattern))", "pchar": "(option bool)"}


def coqty(t):
    if t.startswith("list "):
        return f"(list {coqty(t[5:])})"
    if t.startswith("(") and t.endswith(")") and "*" in t:
        return "(" + " * ".join(coqty(x) for x in t[1:-1].split("*")) + ")"
    if t not in TY:
        raise Unsupported(f"no Coq type for {t}")
    return TY[t]


PRELUDE = """(* characters of a normalised pattern string: None = '-', Some false = '0', Some true = '1' *)
Definition pc_dash : option bool := None.
Definition pc_0 : option bool := Some false.
Definition pc_1 : option bool := Some true.
Definition pchar_eqb (a b : option bool) : bool :=
  match a, b with None, None => true | Some x, Some y => Bool.eqb x y | _, _ => false end.
(* int(s or "0", 2); '-' is not a digit (ValueError in Python): poison digit 2 *)
Definition int2 (s : list (option bool)) : Z :=
  fold_left (fun acc c => 2 * acc + match c with Some true => 1 | Some false => 0 | None => 2 end) s 0.

"""


def unparse_block(stmts):
    return "\n".join(ast.unparse(s) for s in stmts)


ANY = object()


def is_name(n, ident=ANY):
    return isinstance(n, ast.Name) and (ident is ANY or n.id == ident)


def is_const(n, ty=None):
    return isinstance(n, ast.Constant) and (ty is None or type(n.value) is ty)


class Tr:
    """Translation of one function body, for one constructor of the dispatch variable (or none)."""

    def __init__(self, fname, disp, ctor, sim, stateful, ret, visited, curr):
        self.fname, self.disp, self.ctor, self.sim = fname, disp or "<no dispatch>", ctor, sim or "<no sim>"
        self.stateful, self.ret, self.visited, self.curr = stateful, ret, visited, curr
        self.loops = []
        self.nloops = 0

    # ------------------------------------------------------------ static tests
    def isinstance_static(self, node, clsnode):
        names = [ast.unparse(e) for e in clsnode.elts] if isinstance(clsnode, ast.Tuple) else [ast.unparse(clsnode)]
        for nm in names:
            if nm not in MODELLED and nm not in OUT_OF_MODEL:
                fail(node, f"isinstance against unknown class {nm}")
        return self.ctor.cls in names

    def is_disp_attr(self, n, attr):
        return isinstance(n, ast.Attribute) and n.attr == attr and is_name(n.value, self.disp) and self.ctor is not None

    def static(self, ctx, n):
        """True / False when the test is decided by the constructor, None when it is a run-time test."""
        if isinstance(n, ast.BoolOp):
            stop = isinstance(n.op, ast.Or)
            dyn = False
            for v in n.values:
                r = self.static(ctx, v)
                if r is stop:
                    return stop          # later operands are not evaluated by Python either / operands are pure
                if r is None:
                    dyn = True
            return None if dyn else (not stop)
        if isinstance(n, ast.Call) and is_name(n.func, "isinstance"):
            if len(n.args) != 2 or n.keywords or not is_name(n.args[0]):
                fail(n, "isinstance form")
            var = n.args[0].id
            if var == self.disp and self.ctor is not None:
                return self.isinstance_static(n, n.args[1])
            if ctx.types.get(var) == "pattern" and is_name(n.args[1], "str"):
                return True
            fail(n, "isinstance on a variable that is not dispatched on")
        if isinstance(n, ast.Compare) and len(n.ops) == 1:
            left, op, right = n.left, n.ops[0], n.comparators[0]
            if isinstance(left, ast.Call) and is_name(left.func, "len") and len(left.args) == 1 and \
                    self.is_disp_attr(left.args[0], "operands"):
                if self.ctor.cls != "Operator" or not isinstance(op, ast.Eq) or not is_const(right, int):
                    fail(n, "len(operands) test")
                return self.ctor.arity == right.value
            if self.is_disp_attr(left, "operator"):
                if self.ctor.cls != "Operator":
                    fail(n, f".operator of a {self.ctor.cls}")
                if isinstance(op, (ast.Eq, ast.NotEq)) and is_const(right, str):
                    lits = [right.value]
                elif isinstance(op, (ast.In, ast.NotIn)) and isinstance(right, ast.Tuple) and \
                        all(is_const(e, str) for e in right.elts):
                    lits = [e.value for e in right.elts]
                else:
                    fail(n, "operator test form")
                for l in lits:
                    if l not in OP_STRINGS:
                        fail(n, f"operator string {l!r} is not in the table")
                r = self.ctor.opstr in lits
                return r if isinstance(op, (ast.Eq, ast.In)) else not r
        return None

    # ------------------------------------------------------------ expressions
    def expr(self, ctx, node):
        binds = []
        v, t = tr_expr(ctx, node, binds)
        if binds:
            fail(node, "partial call")
        return v, t

    def pchar(self, ctx, n, var):
        if is_const(n, str) and n.value in ("0", "1", "-"):
            return {"0": "pc_0", "1": "pc_1", "-": "pc_dash"}[n.value]
        if is_name(n, var):
            return var
        if isinstance(n, ast.IfExp):
            t = n.test
            if isinstance(t, ast.Compare) and len(t.ops) == 1 and isinstance(t.ops[0], (ast.Eq, ast.NotEq)):
                c = f"(pchar_eqb {self.pchar(ctx, t.left, var)} {self.pchar(ctx, t.comparators[0], var)})"
                if isinstance(t.ops[0], ast.NotEq):
                    c = f"(negb {c})"
                return f"(if {c} then {self.pchar(ctx, n.body, var)} else {self.pchar(ctx, n.orelse, var)})"
        fail(n, "pattern character expression")

    def specials(self, ctx, node):
        # tests decided by the constructor, inside a larger run-time expression
        if isinstance(node, (ast.BoolOp, ast.Compare)) or (isinstance(node, ast.Call) and is_name(node.func, "isinstance")):
            r = self.static(ctx, node)
            if r is not None:
                return ("true" if r else "false"), "bool"
        d, c = self.disp, self.ctor
        if isinstance(node, ast.Attribute):
            if is_name(node.value, d) and c is not None:
                if node.attr in c.fields:
                    return c.fields[node.attr]
                fail(node, f"field .{node.attr} of {c.cls}")
            # sim.slots[slot].curr / .next
            v = node.value
            if node.attr in ("curr", "next") and isinstance(v, ast.Subscript) and isinstance(v.value, ast.Attribute) \
                    and v.value.attr == "slots" and is_name(v.value.value, self.sim):
                s, t = tr_expr(ctx, v.slice, [])
                if t != "slot":
                    fail(node, "slot index")
                if node.attr == "curr":
                    return f"({self.curr} {s})", "Z"
                if not self.stateful:
                    fail(node, ".next in a pure function")
                return f"(next_ {s})", "Z"
            if node.attr in ("width", "signed"):
                s, t = tr_expr(ctx, node.value, [])
                if t != "shape":
                    fail(node, f".{node.attr} of a {t}")
                return (f"(Bits.width {s})", "Z") if node.attr == "width" else (f"(Bits.sgn {s})", "bool")
            fail(node, "attribute")
        if isinstance(node, ast.Subscript):
            if self.is_disp_attr(node.value, "operands") and is_const(node.slice, int):
                if c.cls != "Operator" or not 0 <= node.slice.value < c.arity:
                    fail(node, "operand index")
                return c.operands[node.slice.value]
            fail(node, "subscript")
        if isinstance(node, ast.Call):
            f = node.func
            if node.keywords:
                fail(node, "keyword arguments")
            # x.shape()
            if isinstance(f, ast.Attribute) and f.attr == "shape" and not node.args:
                s, t = tr_expr(ctx, f.value, [])
                if t != "expr":
                    fail(node, ".shape() of a non-expression")
                return f"(Ast.shape_of {s})", "shape"
            # format(x, 'b').count('1')
            if isinstance(f, ast.Attribute) and f.attr == "count" and len(node.args) == 1 and is_const(node.args[0], str) \
                    and node.args[0].value == "1" and isinstance(f.value, ast.Call) and is_name(f.value.func, "format") \
                    and len(f.value.args) == 2 and not f.value.keywords and is_const(f.value.args[1], str) \
                    and f.value.args[1].value == "b":
                s, t = tr_expr(ctx, f.value.args[0], [])
                if t != "Z":
                    fail(node, "format of a non-integer")
                return f"(Bits.popcount {s})", "Z"
            # sim.get_signal(value)
            if isinstance(f, ast.Attribute) and f.attr == "get_signal" and is_name(f.value, self.sim) and \
                    len(node.args) == 1 and is_name(node.args[0], d) and c is not None:
                if c.slot is None:
                    fail(node, f"get_signal of a {c.cls}")
                return c.slot
            if is_name(f, "len") and len(node.args) == 1:
                s, t = tr_expr(ctx, node.args[0], [])
                if t != "expr":
                    fail(node, "len of a non-expression")
                return f"(Bits.width (Ast.shape_of {s}))", "Z"
            if is_name(f, "eval_value") and len(node.args) == 2 and is_name(node.args[0], self.sim):
                s, t = tr_expr(ctx, node.args[1], [])
                if t != "expr":
                    fail(node, "eval_value of a non-expression")
                return f"(eval_value {self.curr} {s})", "Z"
            if is_name(f, "int") and len(node.args) == 1:
                s, t = tr_expr(ctx, node.args[0], [])
                if t == "bool":
                    return f"(Z.b2z {s})", "Z"
                if t == "Z":
                    return s, "Z"
                fail(node, "int() of a " + t)
            if is_name(f, "int") and len(node.args) == 2:
                # int("".join(<elt> for b in pattern) or "0", 2)
                a0, a1 = node.args
                if is_const(a1, int) and a1.value == 2 and isinstance(a0, ast.BoolOp) and isinstance(a0.op, ast.Or) \
                        and len(a0.values) == 2 and is_const(a0.values[1], str) and a0.values[1].value == "0":
                    j = a0.values[0]
                    if isinstance(j, ast.Call) and isinstance(j.func, ast.Attribute) and j.func.attr == "join" and \
                            is_const(j.func.value, str) and j.func.value.value == "" and len(j.args) == 1 and \
                            not j.keywords and isinstance(j.args[0], ast.GeneratorExp) and \
                            len(j.args[0].generators) == 1:
                        g = j.args[0].generators[0]
                        if is_name(g.target) and not g.ifs and not g.is_async and is_name(g.iter) and \
                                ctx.types.get(g.iter.id) == "pattern":
                            b = g.target.id
                            check_ident(b, node)
                            return f"(int2 (map (fun {b} => {self.pchar(ctx, j.args[0].elt, b)}) {g.iter.id}))", "Z"
                fail(node, "int(..., 2) form")
        return None

    # ------------------------------------------------------------ statements
    def mark(self, stmts):
        for s in stmts:
            for n in ast.walk(s):
                if isinstance(n, ast.stmt):
                    self.visited.add(id(n))

    def pure(self, stmts):
        for s in stmts:
            if isinstance(s, ast.Assign) and len(s.targets) == 1 and is_name(s.targets[0]):
                continue
            if isinstance(s, ast.AugAssign) and is_name(s.target):
                continue
            if isinstance(s, ast.If) and self.pure(s.body) and self.pure(s.orelse):
                continue
            return False
        return True

    def block(self, ctx, stmts, k):
        """Gallina for the statement list; k(ctx) is the Gallina for falling off its end."""
        if not stmts:
            return k(ctx)
        s, rest = stmts[0], stmts[1:]
        self.visited.add(id(s))
        cont = lambda c: self.block(c, rest, k)
        text = ast.unparse(s)
        if isinstance(s, ast.Expr) and is_const(s.value, str):
            return cont(ctx)                                   # docstring
        if text in SKIP_WHEN_MET:
            self.mark([s])
            return cont(ctx)
        if isinstance(s, ast.Assert):
            if text == "assert False":
                fail(s, f"`assert False` is reachable for constructor {self.ctor.pat if self.ctor else '-'}")
            fail(s, "assert")
        if isinstance(s, ast.Return):
            if rest:
                fail(rest[0], "statement after return")
            if s.value is None:
                if not self.stateful:
                    fail(s, "bare return in a function that returns a value")
                return "next_"
            if self.stateful:
                fail(s, "return of a value in a procedure")
            v, t = self.expr(ctx, s.value)
            if t != self.ret:
                fail(s, f"return type {t}, expected {self.ret}")
            return v
        if isinstance(s, ast.Raise):
            if text in RAISE_AS_UNCHANGED and self.stateful:
                if rest:
                    fail(rest[0], "statement after raise")
                return "next_"
            fail(s, "raise")
        if isinstance(s, ast.Continue):
            if rest:
                fail(rest[0], "statement after continue")
            if not self.loops:
                fail(s, "continue outside a loop")
            return self.loops[-1](ctx)
        if isinstance(s, (ast.Assign, ast.AugAssign)):
            if isinstance(s, ast.Assign):
                if len(s.targets) != 1 or not is_name(s.targets[0]):
                    fail(s, "assignment target")
                tgt = s.targets[0].id
                v, t = self.expr(ctx, s.value)
            else:
                if not is_name(s.target):
                    fail(s, "assignment target")
                tgt = s.target.id
                v, t = self.expr(ctx, ast.BinOp(left=ast.Name(id=tgt, ctx=ast.Load()), op=s.op, right=s.value))
            check_ident(tgt, s)
            if t not in TY and not t.startswith("list "):
                fail(s, f"value of type {t}")
            ctx.types[tgt] = t
            return f"(let {tgt} := {v} in\n {cont(ctx)})"
        if isinstance(s, ast.Expr) and isinstance(s.value, ast.Call):
            call = s.value
            f = call.func
            if not self.stateful or call.keywords:
                fail(s, "call statement")
            if is_name(f, "_eval_assign_inner") and len(call.args) == 5 and is_name(call.args[0], self.sim):
                args = [self.expr(ctx, a) for a in call.args[1:]]
                if [t for _, t in args] != ["expr", "Z", "Z", "Z"]:
                    fail(s, "argument types of _eval_assign_inner")
                a = " ".join(v for v, _ in args)
                return f"(let next_ := (eval_assign_inner curr_ {a} next_) in\n {cont(ctx)})"
            if isinstance(f, ast.Attribute) and f.attr == "update" and len(call.args) == 1 and \
                    isinstance(f.value, ast.Subscript) and isinstance(f.value.value, ast.Attribute) and \
                    f.value.value.attr == "slots" and is_name(f.value.value.value, self.sim):
                sl, st = self.expr(ctx, f.value.slice)
                v, t = self.expr(ctx, call.args[0])
                if st != "slot" or t != "Z":
                    fail(s, "update() argument types")
                return f"(let next_ := (Stmt.upd next_ {sl} {v}) in\n {cont(ctx)})"
            fail(s, "call statement")
        if isinstance(s, ast.If):
            # `x is None` on an option
            t = s.test
            if isinstance(t, ast.Compare) and len(t.ops) == 1 and isinstance(t.ops[0], ast.Is) and is_name(t.left) and \
                    is_const(t.comparators[0]) and t.comparators[0].value is None:
                x = t.left.id
                if ctx.types.get(x) != "optpats":
                    fail(s, "`is None` on a non-option")
                saved = dict(ctx.types)
                a = self.block(ctx, s.body, cont)
                ctx.types = dict(saved)
                ctx.types[x] = "list pattern"
                b = self.block(ctx, s.orelse, cont)
                return f"(match {x} with\n | None => {a}\n | Some {x} => {b}\n end)"
            r = self.static(ctx, t)
            if r is True:
                return self.block(ctx, s.body, cont)
            if r is False:
                return self.block(ctx, s.orelse, cont)
            c, ct = self.expr(ctx, t)
            cond = as_bool(c, ct, s)
            saved = dict(ctx.types)
            if self.pure(s.body) and self.pure(s.orelse):
                names = sorted(assigned_names(s.body) | assigned_names(s.orelse))
                tys = []

                def tupk(cx):
                    for n in names:
                        if n not in cx.types:
                            fail(s, f"{n} is not assigned on every path")
                    tys.append([cx.types[n] for n in names])
                    return names[0] if len(names) == 1 else "(" + ", ".join(names) + ")"
                a = self.block(ctx, s.body, tupk)
                ctx.types = dict(saved)
                b = self.block(ctx, s.orelse, tupk)
                if any(ty != tys[0] for ty in tys):
                    fail(s, "branches give different types")
                ctx.types = dict(saved)
                for n, ty in zip(names, tys[0]):
                    ctx.types[n] = ty
                pat = names[0] if len(names) == 1 else "'(" + ", ".join(names) + ")"
                return f"(let {pat} := (if {cond} then {a} else {b}) in\n {cont(ctx)})"
            a = self.block(ctx, s.body, cont)
            ctx.types = dict(saved)
            b = self.block(ctx, s.orelse, cont)
            return f"(if {cond}\n then {a}\n else {b})"
        if isinstance(s, ast.For):
            if s.orelse:
                fail(s, "for-else")
            it, ity = self.expr(ctx, s.iter)
            if not ity.startswith("list "):
                fail(s, "for over a non-list")
            ety = ity[5:]
            if is_name(s.target):
                tnames, ttys = [s.target.id], [ety]
                tpat = s.target.id
            elif isinstance(s.target, ast.Tuple) and all(is_name(e) for e in s.target.elts) and ety.startswith("("):
                tnames = [e.id for e in s.target.elts]
                ttys = ety[1:-1].split("*")
                if len(ttys) != len(tnames) or len(set(tnames)) != len(tnames):
                    fail(s, "loop target")
                tpat = "(" + ", ".join(tnames) + ")"
            else:
                fail(s, "loop target")
            for n in tnames:
                check_ident(n, s)
            for n in ast.walk(ast.Module(body=s.body, type_ignores=[])):
                if isinstance(n, ast.Break):
                    fail(n, "break")
            saved = dict(ctx.types)
            accs = sorted(n for n in assigned_names(s.body) if n in saved and n not in tnames)
            params = [(a, saved[a]) for a in accs] + ([("next_", "env")] if self.stateful else [])
            self.nloops += 1
            loop, lst, tl = f"loop{self.nloops}_", f"rest{self.nloops}_", f"tl{self.nloops}_"
            # after the loop (nil branch): loop targets and loop-local names are not available
            ctx.types = {n: t for n, t in saved.items() if n not in tnames}
            nil = self.block(ctx, rest, k)
            # one iteration
            ctx.types = dict(saved)
            for n, t in zip(tnames, ttys):
                ctx.types[n] = t

            def again(cx):
                for a, t in params[:len(accs)]:
                    if cx.types.get(a) != t:
                        fail(s, f"accumulator {a} changes type")
                return "(" + " ".join([loop, tl] + [a for a, _ in params]) + ")"
            self.loops.append(again)
            cons = self.block(ctx, list(s.body), again)
            self.loops.pop()
            ps = " ".join(f"({a} : {coqty(t)})" for a, t in params)
            return (f"((fix {loop} ({lst} : {coqty(ity)}) {ps} {{struct {lst}}} : {coqty(self.ret)} :=\n"
                    f"   match {lst} with\n   | [] => {nil}\n   | {tpat} :: {tl} => {cons}\n   end) "
                    + " ".join([it] + [a for a, _ in params]) + ")")
        fail(s, "statement")


def check_ident(name, node):
    if name.endswith("_") or name in COQ_KEYWORDS or name in EMITTED_GLOBALS or not name.isidentifier() \
            or not name.isascii():
        fail(node, f"identifier {name!r} clashes with generated names")


def check_names(fn):
    for n in ast.walk(fn):
        if isinstance(n, ast.Name):
            if isinstance(n.ctx, ast.Store):
                check_ident(n.id, n)
        elif isinstance(n, ast.arg):
            check_ident(n.arg, n)


def check_signature(fn, names):
    a = fn.args
    if [x.arg for x in a.args] != names or a.vararg or a.kwarg or a.kwonlyargs or a.defaults or a.posonlyargs \
            or fn.decorator_list:
        raise Unsupported(f"{fn.name}: signature changed")


def check_coverage(fn, visited):
    """Every statement is translated for some constructor, or its block is whitelisted by exact text."""
    def blocks(s):
        out = []
        for f in ("body", "orelse", "finalbody"):
            b = getattr(s, f, None)
            if isinstance(b, list) and b and isinstance(b[0], ast.stmt):
                out.append(b)
        return out

    def check(stmts):
        if all(id(s) not in visited for s in stmts):
            if unparse_block(stmts) not in WHITELIST:
                fail(stmts[0], f"{fn.name}: statements never translated and not whitelisted:\n{unparse_block(stmts)}\n")
            return
        for s in stmts:
            if id(s) not in visited:
                if ast.unparse(s) in WHITELIST:
                    continue
                fail(s, f"{fn.name}: statement never translated and not whitelisted:\n{ast.unparse(s)}\n")
            for b in blocks(s):
                check(b)
    check(fn.body)


def check_classes():
    """The modelled classes are pairwise unrelated by inheritance, so the isinstance chain order is immaterial."""
    root = os.environ.get("VERIF_REPO", "/repo")
    with open(os.path.join(root, "amaranth/hdl/_ast.py")) as f:
        tree = ast.parse(f.read())
    bases = {}
    for n in tree.body:
        if isinstance(n, ast.ClassDef):
            bases[n.name] = [ast.unparse(b) for b in n.bases]
    for c in MODELLED:
        if c not in bases:
            raise Unsupported(f"class {c} not found in hdl/_ast.py")
        for b in bases[c]:
            if b in MODELLED or b in OUT_OF_MODEL:
                raise Unsupported(f"class {c} derives from {b}: isinstance chain order matters")
    for c in OUT_OF_MODEL:
        if c in bases:
            for b in bases[c]:
                if b in MODELLED:
                    raise Unsupported(f"class {c} derives from {b}")


def fall_off_pure(fname):
    def k(ctx):
        raise Unsupported(f"{fname}: control reaches the end of the function without a return")
    return k


def gen_dispatch(fn, coq_name, disp, sim, stateful, ret, params, types, totals, curr):
    """Fixpoint: one specialisation of fn.body per constructor."""
    visited = set()
    branches = []
    for c in ctors():
        tr = Tr(fn.name, disp, c, sim, stateful, ret, visited, curr)
        ctx = Ctx(dict(types), total_funcs=totals, specials=tr.specials)
        k = (lambda cx: "next_") if stateful else fall_off_pure(fn.name)
        body = tr.block(ctx, list(fn.body), k)
        branches.append(f"  | {c.pat} =>\n {body}")
    check_coverage(fn, visited)
    return (f"Fixpoint {coq_name} {params} {{struct {disp}}} : {coqty(ret)} :=\n  match {disp} with\n"
            + "\n".join(branches) + "\n  end.\n\n")


def unit():
    root = os.environ.get("VERIF_REPO", "/repo")
    with open(os.path.join(root, SRC)) as f:
        tree = ast.parse(f.read())
    check_classes()
    out = (f"(* GENERATED by /verif/translator/unit_pyeval.py from {SRC} — do not edit *)\n"
           "From Coq Require Import ZArith List Bool.\n"
           "From V.Model Require Import Bits Shape Ast.\n"
           "From V.Model Require Stmt.\n"
           "Import ListNotations.\nOpen Scope Z_scope.\nOpen Scope bool_scope.\n\n") + PRELUDE

    # ---- _eval_matches
    fn = find_function(tree, "_eval_matches")
    check_signature(fn, ["test", "patterns"])
    check_names(fn)
    visited = set()
    tr = Tr(fn.name, None, None, None, False, "bool", visited, None)
    ctx = Ctx({"test": "Z", "patterns": "optpats"}, specials=tr.specials)
    body = tr.block(ctx, list(fn.body), fall_off_pure(fn.name))
    check_coverage(fn, visited)
    out += f"Definition eval_matches (test : Z) (patterns : option (list Ast.pattern)) : bool :=\n {body}.\n\n"
    totals = {"_eval_matches": ("eval_matches", "bool")}

    # ---- eval_value
    fn = find_function(tree, "eval_value")
    check_signature(fn, ["sim", "value"])
    check_names(fn)
    out += gen_dispatch(fn, "eval_value", "value", "sim", False, "Z", "(sim : Ast.env) (value : Ast.expr)",
                        {"value": "expr"}, totals, "sim")

    # ---- _eval_assign_inner
    fn = find_function(tree, "_eval_assign_inner")
    check_signature(fn, ["sim", "lhs", "lhs_start", "rhs", "rhs_len"])
    check_names(fn)
    out += gen_dispatch(fn, "eval_assign_inner", "lhs", "sim", True, "env",
                        "(curr_ : Ast.env) (lhs : Ast.expr) (lhs_start rhs rhs_len : Z) (next_ : Ast.env)",
                        {"lhs": "expr", "lhs_start": "Z", "rhs": "Z", "rhs_len": "Z"}, totals, "curr_")

    # ---- eval_assign
    fn = find_function(tree, "eval_assign")
    check_signature(fn, ["sim", "lhs", "value"])
    check_names(fn)
    visited = set()
    tr = Tr(fn.name, None, None, "sim", True, "env", visited, "curr_")
    ctx = Ctx({"lhs": "expr", "value": "Z"}, total_funcs=totals, specials=tr.specials)
    body = tr.block(ctx, list(fn.body), lambda cx: "next_")
    check_coverage(fn, visited)
    out += ("Definition eval_assign (curr_ : Ast.env) (lhs : Ast.expr) (value : Z) (next_ : Ast.env) : Ast.env :=\n"
            f" {body}.\n")
    return {"PyEvalGen.v": out}

"""Translator unit `asyncfifo`: AsyncFIFO / AsyncFIFOBuffered of amaranth/lib/fifo.py -> coq/Gen/AsyncFifoGen.v.

What is regenerated from the source text on every run (by walking the Python ast, fail closed):
  * AsyncFIFO.__init__          -> g_async_ctor     : Z -> bool -> option (Z * Z)   (self.depth, self._ctr_bits)
  * AsyncFIFOBuffered.__init__  -> g_async_buf_ctor : Z -> bool -> option Z         (self.depth)
  * _gray_encode                -> g_gray_encode    : Z -> Z -> Z                   (len(val), val)
  * _gray_decode                -> g_gray_decode    : Z -> Z -> Z                   (len(val), val)
  * AsyncFIFO.elaborate, the `w_full.eq(..)` statement -> g_w_full : Z -> Z -> Z -> bool  (self._ctr_bits,
                                   produce_w_gry, consume_w_gry) and g_w_full_idx_ok : Z -> bool (its integer indices
                                   are within range(-len, len))
  * AsyncFIFO.elaborate, everything else -> gst, g_async_step, g_async_out (PART 3)
Proofs/GenEqAsyncfifo.v proves them equal to Model/AsyncFifo.v (async_ctor, async_buf_ctor, gray_enc, gray_dec,
gray_full, async_elab_ok).

PART 1 (constructors, Gray helpers).  The constructors go through py2gallina.tr_block (ceil_log2 is the generated
Utils.ceil_log2; `raise` = None); the statements after the depth rounding are whitelisted by their exact text except
`self._ctr_bits = <expr>`, which is translated.  The Gray helpers are translated statement by statement:
  val ^ e -> Z.lxor; val[a:] -> v_from val a; val[i] -> v_bit val i; Const(0) -> 0; [None] * len(val) -> a list of
  len placeholders (0); `for i in reversed(range(len(val)))` -> for_rev_range (iterations len-1 .. 0) over the tuple of
  names assigned in the body; out[i] = e -> lset out i e; Cat(*out) of 1-bit values -> cat1 out.
The definitions v_from, v_bit, v_upto, for_rev_range, lset, cat1 at the head of the generated file are the trusted
reading of these DSL / Python primitives on unsigned values (a value of width len is an integer in [0, 2^len)).

PART 2 (w_full).  The one assignment to the local `w_full = Signal()` in AsyncFIFO.elaborate is located by walking the
ast; its expression is translated over the locals it reads (each must be declared `Signal(self._ctr_bits ..)`):
  x[k] -> v_bit x (v_idx cb k); x[:k] -> v_upto x (v_idx cb k); == != -> =? / negb; & | of conditions -> && / ||.

PART 3 (two-clock step).  The body of AsyncFIFO.elaborate after the depth == 0 early return is executed symbolically
(class Step): every `m.d.comb += ..` / `m.d[self._w_domain] += ..` / `m.d[self._r_domain] += ..` statement (single or list of
`<signal>.eq(<expr>)`), the `with m.If(<signal>)` / `with m.Else()` blocks (a later assignment overrides under its
condition), the python-level aliases (do_write, do_read), FFSynchronizer(i, o, o_domain=..) (a chain of <default stages>
reset_less flops clocked by o_domain, the last one being o; defaults read from cdc.py), AsyncFFSynchronizer(w_rst, o,
o_domain=..) (flops with init 1, set asynchronously while w_rst is asserted, first flop loads 0), the Memory and its ports
(write: storage[addr] = data when en, in the write domain; read: data register loaded from storage[addr] when en, in the
read domain, old contents).  Result:
  gst                 record of the registers in order of appearance
  g_async_step : Z -> Z -> Z -> Z -> bool -> bool -> Z -> Z -> Z -> Z -> Z -> gst -> gst
                      (cb ab lb width  W R  self_w_en self_w_data self_r_en w_rst r_domain_rst  s): combinational signals
                      as lets in dependency order (a combinational loop is Unsupported), then per register
                      `if <edge of its domain> then <next> else <current>`; registers not reset_less get the synchronous
                      domain reset to 0
  g_async_out  : .. -> Z * Z * Z * Z     (w_rdy, r_rdy, r_level, r_data)
An assignment truncates (mod 2^width of the target) unless the expression has the target's width class (cb / ab / lb /
width / 1); ~x is (lnot x) mod 2^len(x); _gray_encode / _gray_decode calls become the generated g_gray_encode /
g_gray_decode at the argument's width.  Trusted readings: the widths of the interface signals (SELF_W, declared in
FIFOInterface.__init__) and memory ports (PORT_W) are parameters (lemma: cb = n + 1, ab = n, lb = alvl_bits n); all
initial values are 0 (1 for the AsyncFFSynchronizer flops); both domains have synchronous resets.
Whitelisted by exact text: `m = Module()`, the depth == 0 early return, `w_rst = ResetSignal(domain=self._w_domain,
allow_reset_less=True)` (becomes the input w_rst), the `if platform == "formal"` Assume block (no hardware), `return m`.

NOT translated (buf_step of the model stays tied to the source by the differential run only): AsyncFIFOBuffered.elaborate;
the bodies of FFSynchronizer.elaborate / AsyncFFSynchronizer.elaborate (read as primitives, see unit cdc).

Mutation evidence for PART 3 (same procedure):
  produce_w_bin + do_write -> -; r_empty == -> !=; produce_cdc o_domain r -> w; w_port.addr [:-1] -> [:-2];
  r_port.addr consume_r_nxt -> consume_r_bin; w_rdy ~w_full -> w_full; consume_r_gry override under m.If(r_rst) dropped;
  w_level domain w -> r; produce_w_gry encode(nxt) -> encode(bin); r_port.en 1 -> do_read; consume_r_bin loses reset_less;
  rst_cdc o_domain r -> w; Else self.r_rst.eq(0) -> eq(1); If(r_rst) r_empty.eq(1) -> eq(0)
                                                                                   -> gen_async_step_eq no longer compiles
  r_level operands swapped                                                         -> gen_async_out_eq no longer compiles
  cdc.py FFSynchronizer stages=2 -> 3; w_rst ResetSignal domain w -> r            -> Unsupported
  harmless: rename do_write/do_read; swap two entries of a comb list; swap the w_level / r_level statements
                                                                                   -> lemmas still compile
  harmless: produce_w_gry sync statement moved before the FFSynchronizer construction (register order of gst changes)
                                                                                   -> gen_async_step_eq breaks: acceptable false alarm

Mutation evidence (scratch worktree of /repo, one edit of fifo.py at a time, then regenerate + compile GenEqAsyncfifo.v):
  _gray_encode val[1:] -> val[2:]                                                  -> gen_gray_encode_eq no longer compiles
  _gray_decode reversed(range(..)) -> range(..)                                    -> Unsupported (for loop form)
  _gray_decode rhs ^ val[i] -> val[i]; Const(0) -> Const(1)                        -> gen_gray_decode_eq no longer compiles
  AsyncFIFO.__init__ 1 << -> 2 <<; `and` -> `or`; _ctr_bits + 1 -> + 2; else: depth_bits = 0 -> 1
                                                                                   -> gen_async_ctor_eq no longer compiles
  AsyncFIFO.__init__ else branch dropped                                           -> Unsupported (unknown variable depth_bits)
  AsyncFIFOBuffered.__init__ max(0, depth - 1) -> max(0, depth); rounding without + 1
                                                                                   -> gen_async_buf_ctor_eq no longer compiles
  w_full [-2] != -> ==; [:-2] -> [:-1]; & -> |; [-1] -> [-3]                       -> gen_w_full_eq no longer compiles
  harmless: swap the self._r_domain / self._w_domain lines                         -> lemmas still compile
  harmless: rename local rhs -> acc in _gray_decode; val ^ val[1:] -> val[1:] ^ val -> the lemma of that function breaks
           (the proof script names the generated binder / is closed by reflexivity): acceptable false alarm
"""
import ast, os, sys
sys.path.insert(0, os.path.dirname(__file__))
from py2gallina import Unsupported, fail, find_function, Ctx, tr_block, tr_expr
from unit_fifo import is_self_attr

NAME = "asyncfifo"
OUTPUTS = ["AsyncFifoGen.v"]
SRC = "amaranth/lib/fifo.py"

HEADER = """(* GENERATED by /verif/translator/unit_asyncfifo.py from {src} — do not edit *)
From Coq Require Import ZArith List Bool.
From V.Model Require Import Bits Shape AsyncFifo.
From V.Gen Require Utils.
Import ListNotations.
Open Scope Z_scope.
Open Scope bool_scope.

(* trusted reading of the DSL / Python primitives (a value of width len is an integer in [0, 2^len)) *)
Definition v_bit (v i : Z) : Z := Z.b2z (Z.testbit v i).            (* val[i], i already normalised *)
Definition v_from (v a : Z) : Z := Z.shiftr v a.                     (* val[a:] *)
Definition v_upto (v b : Z) : Z := v mod 2 ^ b.                      (* val[:b], b already normalised *)
Definition v_idx (len i : Z) : Z := if i <? 0 then len + i else i.   (* Python index normalisation *)
Fixpoint for_rev_range {{A : Type}} (n : nat) (f : Z -> A -> A) (a : A) : A :=   (* for i in reversed(range(n)) *)
  match n with O => a | S j => for_rev_range j f (f (Z.of_nat j) a) end.
Definition lset (l : list Z) (i v : Z) : list Z := upd_nth (Z.to_nat i) v l.      (* l[i] = v *)
Definition cat1 (l : list Z) : Z := fold_right (fun b acc => b + 2 * acc) 0 l.    (* Cat of the 1-bit values l[0], l[1], .. *)

"""


# ========================================================================================== PART 1: constructors
INIT_TAIL = {
    "super().__init__(width=width, depth=depth)",
    "self.r_rst = Signal()",
    "self._r_domain = r_domain",
    "self._w_domain = w_domain",
}
INIT_ARGS = "self, *, width, depth, r_domain='read', w_domain='write', exact_depth=False"


def ctor(tree, cls, gname, want_ctr):
    fdef = find_function(tree, f"{cls}.__init__")
    if ast.unparse(fdef.args) != INIT_ARGS:
        fail(fdef, f"{cls}.__init__ signature")
    body = list(fdef.body)
    if not (body and isinstance(body[0], ast.If)):
        fail(fdef, f"{cls}.__init__: expected the depth rounding `if` first")
    ctr = None
    for s in body[1:]:
        if ast.unparse(s) in INIT_TAIL:
            continue
        if isinstance(s, ast.Assign) and len(s.targets) == 1 and is_self_attr(s.targets[0], "_ctr_bits") and ctr is None:
            ctr = s.value
            continue
        fail(s, f"{cls}.__init__ statement")
    if [ast.unparse(s) for s in body[1:2]] != ["super().__init__(width=width, depth=depth)"]:
        fail(fdef, f"{cls}.__init__: super().__init__ must directly follow the depth rounding")
    if (ctr is not None) != want_ctr:
        fail(fdef, f"{cls}.__init__: self._ctr_bits")
    ctx = Ctx({"depth": "Z", "exact_depth": "bool"}, partial_funcs={"ceil_log2": ("Utils.ceil_log2", "Z")})

    def final(c):
        if ctr is None:
            return "(Some depth)"
        binds = []
        v, t = tr_expr(c, ctr, binds)
        if binds or t != "Z":
            fail(ctr, "self._ctr_bits expression")
        return f"(Some (depth, {v}))"
    e = tr_block(ctx, [body[0]], final)
    ty = "option (Z * Z)" if want_ctr else "option Z"
    return f"Definition {gname} (depth : Z) (exact_depth : bool) : {ty} :=\n  {e}.\n\n"


# ========================================================================================== PART 1: Gray helpers
class HCtx:
    def __init__(self):
        self.ty = {}        # name -> "val" | "bit" | "bits" (list of 1-bit values) | "idx"


def h_expr(node, hc):
    """expression of a value-level helper -> (gallina, type)"""
    if isinstance(node, ast.Name):
        if node.id not in hc.ty:
            fail(node, "unknown name")
        return node.id, hc.ty[node.id]
    if isinstance(node, ast.BinOp) and isinstance(node.op, ast.BitXor):
        a, ta = h_expr(node.left, hc)
        b, tb = h_expr(node.right, hc)
        if ta not in ("val", "bit") or tb not in ("val", "bit"):
            fail(node, "^ operands")
        return f"(Z.lxor {a} {b})", ("bit" if ta == tb == "bit" else "val")
    if isinstance(node, ast.Subscript):
        v, tv = h_expr(node.value, hc)
        if tv != "val":
            fail(node, "subscript of something that is not the argument value")
        sl = node.slice
        if isinstance(sl, ast.Slice):
            if sl.step is None and sl.upper is None and isinstance(sl.lower, ast.Constant) \
                    and isinstance(sl.lower.value, int) and sl.lower.value >= 0:
                return f"(v_from {v} {sl.lower.value})", "val"
            fail(node, "slice form")
        i, ti = h_expr(sl, hc)
        if ti != "idx":
            fail(node, "index is not the loop variable")
        return f"(v_bit {v} {i})", "bit"
    if isinstance(node, ast.Call) and isinstance(node.func, ast.Name) and node.func.id == "Const" \
            and len(node.args) == 1 and not node.keywords and isinstance(node.args[0], ast.Constant) \
            and node.args[0].value in (0, 1) and not isinstance(node.args[0].value, bool):
        return str(node.args[0].value), "bit"
    fail(node, "helper expression")


def is_len_val(node):
    return ast.unparse(node) == "len(val)"


def h_block(stmts, hc, final):
    if not stmts:
        return final()
    s, rest = stmts[0], stmts[1:]
    if isinstance(s, ast.Return):
        if rest:
            fail(s, "statements after return")
        v = s.value
        if isinstance(v, ast.Call) and isinstance(v.func, ast.Name) and v.func.id == "Cat" and not v.keywords \
                and len(v.args) == 1 and isinstance(v.args[0], ast.Starred):
            l, tl = h_expr(v.args[0].value, hc)
            if tl != "bits":
                fail(s, "Cat(*x) of something that is not a list of 1-bit values")
            return f"cat1 {l}"
        e, t = h_expr(v, hc)
        if t not in ("val", "bit"):
            fail(s, "return value")
        return e
    if isinstance(s, ast.Assign) and len(s.targets) == 1 and isinstance(s.targets[0], ast.Name):
        n = s.targets[0].id
        v = s.value
        if isinstance(v, ast.BinOp) and isinstance(v.op, ast.Mult) and ast.unparse(v.left) == "[None]" \
                and is_len_val(v.right):
            hc.ty[n] = "bits"
            return f"let {n} := repeat 0 (Z.to_nat len) in\n  {h_block(rest, hc, final)}"
        e, t = h_expr(v, hc)
        hc.ty[n] = t
        return f"let {n} := {e} in\n  {h_block(rest, hc, final)}"
    if isinstance(s, ast.Assign) and len(s.targets) == 1 and isinstance(s.targets[0], ast.Subscript) \
            and isinstance(s.targets[0].value, ast.Name):
        n = s.targets[0].value.id
        if hc.ty.get(n) != "bits":
            fail(s, "item assignment to something that is not a list of 1-bit values")
        i, ti = h_expr(s.targets[0].slice, hc)
        e, t = h_expr(s.value, hc)
        if ti != "idx" or t != "bit":
            fail(s, "item assignment")
        return f"let {n} := lset {n} {i} {e} in\n  {h_block(rest, hc, final)}"
    if isinstance(s, ast.For):
        it = s.iter
        if s.orelse or not isinstance(s.target, ast.Name) or ast.unparse(it) != "reversed(range(len(val)))":
            fail(s, "for loop form")
        accs = []
        for b in s.body:
            if not (isinstance(b, ast.Assign) and len(b.targets) == 1):
                fail(b, "loop body statement")
            t = b.targets[0]
            nm = t.id if isinstance(t, ast.Name) else t.value.id if isinstance(t, ast.Subscript) and \
                isinstance(t.value, ast.Name) else fail(b, "loop body target")
            if nm not in hc.ty:
                fail(b, f"accumulator {nm} not initialised before the loop")
            if nm not in accs:
                accs.append(nm)
        accs.sort()
        tup = "(" + ", ".join(accs) + ")"
        i = s.target.id
        inner = HCtx()
        inner.ty = dict(hc.ty)
        inner.ty[i] = "idx"
        body = h_block(list(s.body), inner, lambda: tup)
        for a in accs:
            if inner.ty[a] != hc.ty[a]:
                fail(s, f"accumulator {a} changes type in the loop")
        return (f"let '{tup} := for_rev_range (Z.to_nat len) (fun {i} '{tup} =>\n  {body}) {tup} in\n  "
                f"{h_block(rest, hc, final)}")
    fail(s, "helper statement")


def helper(tree, name, gname):
    fdef = find_function(tree, name)
    if ast.unparse(fdef.args) != "val" or fdef.decorator_list:
        fail(fdef, f"{name} signature")
    hc = HCtx()
    hc.ty["val"] = "val"

    def final():
        raise Unsupported(f"{name}: falls off the end")
    return f"Definition {gname} (len val : Z) : Z :=\n  {h_block(list(fdef.body), hc, final)}.\n\n"



# ========================================================================================== PART 2: w_full of AsyncFIFO.elaborate
def decl_width(fdef, name):
    """the local `name = Signal(self._ctr_bits[, reset_less=True])` of elaborate -> 'cb'"""
    found = [s for s in ast.walk(fdef) if isinstance(s, ast.Assign) and len(s.targets) == 1
             and isinstance(s.targets[0], ast.Name) and s.targets[0].id == name]
    if len(found) != 1:
        fail(fdef, f"{name}: expected exactly one declaration")
    if ast.unparse(found[0].value) not in ("Signal(self._ctr_bits)", "Signal(self._ctr_bits, reset_less=True)"):
        fail(found[0], f"{name}: not a Signal(self._ctr_bits)")
    return "cb"


def int_const(node):
    if isinstance(node, ast.Constant) and isinstance(node.value, int) and not isinstance(node.value, bool):
        return node.value
    if isinstance(node, ast.UnaryOp) and isinstance(node.op, ast.USub) and isinstance(node.operand, ast.Constant) \
            and isinstance(node.operand.value, int) and not isinstance(node.operand.value, bool):
        return -node.operand.value
    return None


def z(k):
    return str(k) if k >= 0 else f"({k})"


def c_expr(node, fdef, names, idx):
    """comb expression over Signal(self._ctr_bits) locals -> (gallina, 'bool' | 'bit' | 'val'); int indices go to idx"""
    if isinstance(node, ast.Name):
        w = decl_width(fdef, node.id)
        if node.id not in names:
            names.append(node.id)
        return node.id, "val"
    if isinstance(node, ast.Subscript):
        v, tv = c_expr(node.value, fdef, names, idx)
        if tv != "val":
            fail(node, "subscript of a non-signal")
        sl = node.slice
        if isinstance(sl, ast.Slice):
            k = int_const(sl.upper) if sl.upper is not None else None
            if sl.lower is not None or sl.step is not None or k is None:
                fail(node, "slice form (only [:k])")
            return f"(v_upto {v} (v_idx cb {z(k)}))", "val"
        k = int_const(sl)
        if k is None:
            fail(node, "index is not an integer constant")
        idx.append(k)
        return f"(v_bit {v} (v_idx cb {z(k)}))", "bit"
    if isinstance(node, ast.Compare) and len(node.ops) == 1 and isinstance(node.ops[0], (ast.Eq, ast.NotEq)):
        a, ta = c_expr(node.left, fdef, names, idx)
        b, tb = c_expr(node.comparators[0], fdef, names, idx)
        if "bool" in (ta, tb):
            fail(node, "comparison of conditions")
        t = f"({a} =? {b})"
        return (t if isinstance(node.ops[0], ast.Eq) else f"(negb {t})"), "bool"
    if isinstance(node, ast.BinOp) and isinstance(node.op, (ast.BitAnd, ast.BitOr)):
        a, ta = c_expr(node.left, fdef, names, idx)
        b, tb = c_expr(node.right, fdef, names, idx)
        if ta != "bool" or tb != "bool":
            fail(node, "& | on operands that are not 1-bit conditions")
        return f"({a} {'&&' if isinstance(node.op, ast.BitAnd) else '||'} {b})", "bool"
    fail(node, "comb expression")


def comb_flag(tree, target, gname):
    """the single `<target>.eq(<expr>)` of AsyncFIFO.elaborate whose expression is not a constant"""
    fdef = find_function(tree, "AsyncFIFO.elaborate")
    decl = [s for s in ast.walk(fdef) if isinstance(s, ast.Assign) and ast.unparse(s.targets[0]) == target]
    if len(decl) != 1 or ast.unparse(decl[0].value) != "Signal()":
        fail(fdef, f"{target}: expected one declaration `{target} = Signal()`")
    eqs = [n for n in ast.walk(fdef) if isinstance(n, ast.Call) and isinstance(n.func, ast.Attribute)
           and n.func.attr == "eq" and ast.unparse(n.func.value) == target]
    if len(eqs) != 1 or len(eqs[0].args) != 1 or eqs[0].keywords:
        fail(fdef, f"{target}: expected exactly one assignment")
    names, idx = [], []
    e, t = c_expr(eqs[0].args[0], fdef, names, idx)
    if t != "bool":
        fail(eqs[0], f"{target}: the assigned expression is not a 1-bit condition")
    ps = " ".join(names)
    ok = " && ".join(f"index_ok cb {z(k)}" for k in idx) or "true"
    return (f"Definition {gname} (cb {ps} : Z) : bool :=\n  {e}.\n\n"
            f"(* the integer indices of that expression are in range(-len, len) (otherwise IndexError at elaboration) *)\n"
            f"Definition {gname}_idx_ok (cb : Z) : bool :=\n  {ok}.\n\n")

# ========================================================================================== PART 3: the two-clock step of AsyncFIFO.elaborate
STEP_PRE = ["m = Module()",
            "if self.depth == 0:\n    m.d.comb += [self.w_rdy.eq(0), self.r_rdy.eq(0)]\n    return m"]
# the write-domain reset becomes the input w_rst of the generated step (only when the text is exactly this)
STEP_WRST = "w_rst = ResetSignal(domain=self._w_domain, allow_reset_less=True)"
STEP_FORMAL = ("if platform == 'formal':\n    with m.If(Initial()):\n"
               "        m.d.comb += Assume(produce_w_gry == produce_w_bin ^ produce_w_bin[1:])\n"
               "        m.d.comb += Assume(consume_r_gry == consume_r_bin ^ consume_r_bin[1:])")
# widths of the interface signals (declared in FIFOInterface.__init__, outside the translated function)
SELF_W = {"w_rdy": "1", "w_en": "1", "w_data": "width", "w_level": "lb",
          "r_rdy": "1", "r_en": "1", "r_data": "width", "r_level": "lb", "r_rst": "1"}
STEP_INPUTS = ["self_w_en", "self_w_data", "self_r_en", "w_rst", "r_domain_rst"]
PORT_W = {"addr": "ab", "data": "width", "en": "1"}


class Step:
    def __init__(self, tree):
        self.fdef = find_function(tree, "AsyncFIFO.elaborate")
        self.w = {}                  # key -> width symbol
        self.rl = set()              # reset_less registers
        for k in STEP_INPUTS[:3]:
            self.w[k] = SELF_W[k[5:]]
        self.alias = {}              # python-level names bound to expressions
        self.comb = {}               # key -> [(conds, value ast)]
        self.sync = {}               # key -> (domain, [(conds, value ast)])
        self.order = []              # registers in order of discovery: (key, kind, data)
        self.ports = {}              # w_port / r_port -> domain
        self.mem = None
        ff = find_function(tree_cdc(), "FFSynchronizer.__init__")
        kw = dict(zip([a.arg for a in ff.args.kwonlyargs], ff.args.kw_defaults))
        self.stages = int_const(kw.get("stages"))
        if self.stages != 2:
            fail(ff, "FFSynchronizer default stages (the model has 2-stage chains)")
        if ast.unparse(kw.get("reset_less")) != "True":
            fail(ff, "FFSynchronizer default reset_less")
        af = find_function(tree_cdc(), "AsyncFFSynchronizer.__init__")
        kw = dict(zip([a.arg for a in af.args.kwonlyargs], af.args.kw_defaults))
        self.astages = int_const(kw.get("stages"))
        if self.astages != 2 or ast.unparse(kw.get("async_edge")) != "'pos'":
            fail(af, "AsyncFFSynchronizer defaults (stages=2, async_edge='pos')")

    # ---------------------------------------------------------------- collection
    def key(self, node, declare_ok=False):
        if isinstance(node, ast.Name):
            return node.id
        if isinstance(node, ast.Attribute) and isinstance(node.value, ast.Name):
            if node.value.id == "self" and node.attr in SELF_W:
                k = "self_" + node.attr
                self.w[k] = SELF_W[node.attr]
                return k
            if node.value.id in self.ports and node.attr in PORT_W:
                k = node.value.id + "_" + node.attr
                self.w[k] = PORT_W[node.attr]
                return k
        fail(node, "signal reference")

    def domain(self, node):
        t = ast.unparse(node)
        d = {"m.d.comb": "comb", "m.d[self._w_domain]": "W", "m.d[self._r_domain]": "R"}.get(t)
        if d is None:
            fail(node, "domain")
        return d

    def dom_kw(self, call, name):
        if len(call.keywords) != 1 or call.keywords[0].arg != name:
            fail(call, f"expected the single keyword {name}=")
        t = ast.unparse(call.keywords[0].value)
        d = {"self._w_domain": "W", "self._r_domain": "R"}.get(t)
        if d is None:
            fail(call, "domain keyword")
        return d

    def add_assign(self, dom, call, conds):
        if not (isinstance(call, ast.Call) and isinstance(call.func, ast.Attribute) and call.func.attr == "eq"
                and len(call.args) == 1 and not call.keywords):
            fail(call, "expected <signal>.eq(<expr>)")
        k = self.key(call.func.value)
        if k in STEP_INPUTS or (k not in self.w):
            fail(call, f"assignment to {k}")
        if dom == "comb":
            if k in self.sync:
                fail(call, f"{k} driven from two domains")
            self.comb.setdefault(k, []).append((conds, call.args[0]))
        else:
            if k in self.comb or (k in self.sync and self.sync[k][0] != dom):
                fail(call, f"{k} driven from two domains")
            if k not in self.sync:
                self.sync[k] = (dom, [])
                self.order.append((k, "reg", None))
            self.sync[k][1].append((conds, call.args[0]))

    def add_stmt(self, s, conds):
        if not (isinstance(s, ast.AugAssign) and isinstance(s.op, ast.Add)):
            fail(s, "statement")
        dom = self.domain(s.target)
        vals = s.value.elts if isinstance(s.value, ast.List) else [s.value]
        for v in vals:
            self.add_assign(dom, v, conds)

    def collect(self):
        body = list(self.fdef.body)
        if [ast.unparse(s) for s in body[:2]] != STEP_PRE:
            fail(self.fdef, "AsyncFIFO.elaborate: prologue")
        if ast.unparse(body[-1]) != "return m" or ast.unparse(body[-2]) != STEP_FORMAL:
            fail(self.fdef, "AsyncFIFO.elaborate: epilogue (formal block, return m)")
        last_if = None
        for s in body[2:-2]:
            t = ast.unparse(s)
            if t == STEP_WRST and "w_rst" not in self.w:
                self.w["w_rst"] = "1"
                last_if = None
                continue
            if isinstance(s, ast.With):
                if len(s.items) != 1 or s.items[0].optional_vars is not None:
                    fail(s, "with form")
                c = s.items[0].context_expr
                ct = ast.unparse(c)
                if isinstance(c, ast.Call) and ast.unparse(c.func) == "m.If" and len(c.args) == 1 and not c.keywords \
                        and isinstance(c.args[0], ast.Name):
                    cond = c.args[0].id
                    if cond not in self.w:
                        fail(s, "m.If condition is not a known signal")
                    for b in s.body:
                        self.add_stmt(b, ((cond, True),))
                    last_if = cond
                    continue
                if ct == "m.Else()" and last_if is not None:
                    for b in s.body:
                        self.add_stmt(b, ((last_if, False),))
                    last_if = None
                    continue
                fail(s, "with form")
            last_if = None
            if isinstance(s, ast.AugAssign):
                self.add_stmt(s, ())
                continue
            if isinstance(s, ast.Assign) and len(s.targets) == 1 and isinstance(s.targets[0], ast.Name):
                n, v = s.targets[0].id, s.value
                vt = ast.unparse(v)
                if n in self.w or n in self.alias or n in self.ports:
                    fail(s, f"{n} bound twice")
                if vt in ("Signal(self._ctr_bits)", "Signal(self._ctr_bits, reset_less=True)"):
                    self.w[n] = "cb"
                    if "reset_less=True" in vt:
                        self.rl.add(n)
                    continue
                if vt == "Signal()":
                    self.w[n] = "1"
                    continue
                if isinstance(v, ast.BinOp):
                    self.alias[n] = v
                    continue
                if isinstance(v, ast.Call) and ast.unparse(v.func) in ("storage.write_port", "storage.read_port") \
                        and self.mem is not None and not v.args:
                    d = self.dom_kw(v, "domain")
                    kind = ast.unparse(v.func).split(".")[1]
                    if (kind, d) not in (("write_port", "W"), ("read_port", "R")):
                        fail(s, "memory port domain")
                    self.ports[n] = kind
                    if kind == "read_port":
                        self.w[n + "_data"] = "width"
                        self.order.append((n + "_data", "rport", n))
                    else:
                        self.order.append(("storage", "mem", n))
                    continue
            if isinstance(s, ast.Assign) and len(s.targets) == 2 and isinstance(s.targets[0], ast.Name) \
                    and ast.unparse(s.targets[1]) == "m.submodules." + s.targets[0].id and isinstance(s.value, ast.Call):
                n, v = s.targets[0].id, s.value
                if ast.unparse(v.func) == "FFSynchronizer" and len(v.args) == 2 \
                        and all(isinstance(a, ast.Name) for a in v.args):
                    i, o = v.args[0].id, v.args[1].id
                    d = self.dom_kw(v, "o_domain")
                    if self.w.get(i) is None or self.w.get(i) != self.w.get(o) or o in self.sync or o in self.comb:
                        fail(s, "FFSynchronizer ports")
                    prev = i
                    for st in range(self.stages):
                        k = o if st == self.stages - 1 else f"{n}_{st}"
                        self.w[k] = self.w[i]
                        self.sync[k] = (d, None)
                        self.rl.add(k)
                        self.order.append((k, "ff", prev))
                        prev = k
                    continue
                if ast.unparse(v.func) == "AsyncFFSynchronizer" and len(v.args) == 2 \
                        and all(isinstance(a, ast.Name) for a in v.args):
                    i, o = v.args[0].id, v.args[1].id
                    d = self.dom_kw(v, "o_domain")
                    if i != "w_rst" or self.w.get(i) != "1" or self.w.get(o) != "1" or o in self.sync or o in self.comb:
                        fail(s, "AsyncFFSynchronizer ports")
                    prev = None
                    for st in range(self.astages):
                        k = o if st == self.astages - 1 else f"{n}_{st}"
                        self.w[k] = "1"
                        self.sync[k] = (d, None)
                        self.order.append((k, "aff", (i, prev)))
                        prev = k
                    continue
                if ast.unparse(v) == "Memory(shape=self.width, depth=self.depth, init=[])" and n == "storage" \
                        and self.mem is None:
                    self.mem = n
                    continue
            fail(s, "AsyncFIFO.elaborate statement")
        if "w_rst" not in self.w:
            fail(self.fdef, "AsyncFIFO.elaborate: w_rst")
        if sorted(self.ports.values()) != ["read_port", "write_port"]:
            fail(self.fdef, "AsyncFIFO.elaborate: memory ports")

    # ---------------------------------------------------------------- expressions
    def ref(self, node):
        k = self.key(node)
        if k in self.alias:
            return self.expr(self.alias[k])
        if k not in self.w:
            fail(node, f"unknown signal {k}")
        if k in self.comb:
            self.emit_comb(k, node)
        elif not (k in self.sync or k in STEP_INPUTS or any(k == r for r, _, _ in self.order)):
            fail(node, f"{k} is read but never driven")
        return k, self.w[k]

    def sigref(self, node):
        if not isinstance(node, (ast.Name, ast.Attribute)) or (isinstance(node, ast.Name) and node.id in self.alias):
            fail(node, "operand must be a signal")
        return self.ref(node)

    def expr(self, node):
        if isinstance(node, (ast.Name, ast.Attribute)):
            return self.ref(node)
        k = int_const(node)
        if k is not None and k in (0, 1):
            return str(k), None
        if isinstance(node, ast.BinOp) and isinstance(node.op, (ast.BitAnd, ast.Add, ast.Sub)):
            a, wa = self.expr(node.left)
            b, wb = self.expr(node.right)
            if isinstance(node.op, ast.BitAnd):
                return f"(Z.land {a} {b})", (wa if wa == wb else None)
            return f"({'Z.add' if isinstance(node.op, ast.Add) else 'Z.sub'} {a} {b})", None
        if isinstance(node, ast.UnaryOp) and isinstance(node.op, ast.Invert):
            a, wa = self.expr(node.operand)
            if wa is None:
                fail(node, "~ of an operand of unknown width")
            return f"((Z.lnot {a}) mod 2 ^ {wa})", wa
        if isinstance(node, ast.Compare) and len(node.ops) == 1 and isinstance(node.ops[0], (ast.Eq, ast.NotEq)):
            a, _ = self.expr(node.left)
            b, _ = self.expr(node.comparators[0])
            t = f"({a} =? {b})"
            return f"(Z.b2z {t if isinstance(node.ops[0], ast.Eq) else '(negb ' + t + ')'})", "1"
        if isinstance(node, ast.Subscript):
            v, wv = self.sigref(node.value)
            sl = node.slice
            if isinstance(sl, ast.Slice):
                k = int_const(sl.upper) if sl.upper is not None else None
                if sl.lower is not None or sl.step is not None or k is None:
                    fail(node, "slice form (only [:k])")
                return f"(v_upto {v} (v_idx {wv} {z(k)}))", None
            k = int_const(sl)
            if k is None:
                fail(node, "index is not an integer constant")
            return f"(v_bit {v} (v_idx {wv} {z(k)}))", "1"
        if isinstance(node, ast.Call) and isinstance(node.func, ast.Name) and not node.keywords and len(node.args) == 1 \
                and node.func.id in ("_gray_encode", "_gray_decode"):
            v, wv = self.sigref(node.args[0])
            return f"(g{node.func.id} {wv} {v})", wv     # result as wide as the argument (val ^ val[1:], Cat of len bits)
        fail(node, "step expression")

    def assigned(self, k, assigns, default):
        """value driven onto the signal k (width self.w[k]) by the assignments, later ones taking priority"""
        cur = default
        for conds, v in assigns:
            e, we = self.expr(v)
            if we != self.w[k]:
                e = f"({e} mod 2 ^ {self.w[k]})"
            for c, pol in conds:
                cn, _ = self.ref(ast.Name(id=c, lineno=v.lineno))
                test = f"(negb ({cn} =? 0))"
                if cur is None:
                    cur = "0"
                e = f"(if {test} then {e} else {cur})" if pol else f"(if {test} then {cur} else {e})"
            cur = e
        return cur

    def emit_comb(self, k, node):
        if k in self.done:
            return
        if k in self.visiting:
            fail(node, f"combinational loop through {k}")
        self.visiting.add(k)
        e = self.assigned(k, self.comb[k], None)
        self.visiting.discard(k)
        self.done.add(k)
        self.lets.append(f"let {k} := {e} in")

    # ---------------------------------------------------------------- generation
    def generate(self):
        self.collect()
        self.lets, self.done, self.visiting = [], set(), set()
        for k in self.comb:
            self.emit_comb(k, self.fdef)
        nxt = []
        for k, kind, data in self.order:
            if kind == "reg":
                d, assigns = self.sync[k]
                e = self.assigned(k, assigns, k)
                if k not in self.rl:     # synchronous domain reset to the initial value 0
                    e = f"(if negb ({'w_rst' if d == 'W' else 'r_domain_rst'} =? 0) then 0 else {e})"
            elif kind == "aff":          # flops with init 1, asynchronously set while i is asserted, first flop loads 0
                d = self.sync[k][0]
                e = f"(if negb ({data[0]} =? 0) then 1 else {data[1] or '0'})"
            elif kind == "ff":
                d = self.sync[k][0]
                e = data
            elif kind == "mem":
                d = "W"
                e = f"(if negb ({data}_en =? 0) then lset storage {data}_addr {data}_data else storage)"
                for f in ("en", "addr", "data"):
                    if f"{data}_{f}" not in self.comb:
                        fail(self.fdef, f"{data}.{f} is not driven")
            else:
                d = "R"
                e = f"(if negb ({data}_en =? 0) then nth (Z.to_nat {data}_addr) storage 0 else {k})"
                for f in ("en", "addr"):
                    if f"{data}_{f}" not in self.comb:
                        fail(self.fdef, f"{data}.{f} is not driven")
            nxt.append(f"(if {d} then {e} else {k})")
        regs = [k for k, _, _ in self.order]
        fields = "; ".join(f"g_{k} : {'list Z' if k == 'storage' else 'Z'}" for k in regs)
        out = ("(* registers of AsyncFIFO.elaborate in order of appearance (FFSynchronizer <name>: flops <name>_0 .. and its output;\n"
               "   AsyncFFSynchronizer <name>: flops <name>_0 .. and its output; Memory: storage and the read port's data register) *)\n"
               f"Record gst := mkG {{ {fields} }}.\n\n")
        aff = {k: data[0] for k, kind, data in self.order if kind == "aff"}
        pre = "\n  ".join((f"let {k} := (if negb ({aff[k]} =? 0) then 1 else g_{k} s) in" if k in aff
                           else f"let {k} := g_{k} s in") for k in regs)
        out += ("(* one event: W / R = rising edge of the write / read clock; cb ab lb width = widths of the counters, memory address,\n"
                "   level outputs, data; w_rst / r_domain_rst = the (synchronous) resets of the write / read domain, applied before the edge *)\n"
                f"Definition g_async_step (cb ab lb width : Z) (W R : bool) ({' '.join(STEP_INPUTS)} : Z) (s : gst) : gst :=\n  "
                + pre + "\n  " + "\n  ".join(self.lets) + "\n  mkG\n    " + "\n    ".join(nxt) + ".\n\n")
        outs = [k for k in ("self_w_rdy", "self_r_rdy", "self_r_level", "self_r_data") if k in self.comb]
        if len(outs) != 4:
            fail(self.fdef, "interface outputs not driven combinationally")
        out += ("(* combinational interface outputs (w_rdy, r_rdy, r_level, r_data) before the event *)\n"
                f"Definition g_async_out (cb ab lb width : Z) ({' '.join(STEP_INPUTS)} : Z) (s : gst) : Z * Z * Z * Z :=\n  "
                + pre + "\n  " + "\n  ".join(self.lets) + "\n  (" + ", ".join(outs) + ").\n\n")
        return out


def tree_cdc():
    root = os.environ.get("VERIF_REPO", "/repo")
    with open(os.path.join(root, "amaranth/lib/cdc.py")) as f:
        return ast.parse(f.read())


# ========================================================================================== unit
def unit():
    root = os.environ.get("VERIF_REPO", "/repo")
    with open(os.path.join(root, SRC)) as f:
        tree = ast.parse(f.read())
    out = HEADER.format(src=SRC)
    out += ctor(tree, "AsyncFIFO", "g_async_ctor", True)
    out += ctor(tree, "AsyncFIFOBuffered", "g_async_buf_ctor", False)
    out += helper(tree, "_gray_encode", "g_gray_encode")
    out += helper(tree, "_gray_decode", "g_gray_decode")
    out += comb_flag(tree, "w_full", "g_w_full")
    out += Step(tree).generate()
    return {"AsyncFifoGen.v": out}


if __name__ == "__main__":
    print(unit()["AsyncFifoGen.v"])

"""Translator unit `cdc`: amaranth/lib/cdc.py -> coq/Gen/CdcGen.v.

What is regenerated from the source text on every run (by walking the Python ast, fail closed):
  * _check_stages                               -> g_check_stages : Z -> Z   (0 accepted, 1 TypeError, 2 ValueError)
  * the `_check_stages(stages)` call of each of the four constructors -> g_{ff,af,rs,ps}_ctor_check : Z -> Z
  * FFSynchronizer.__init__ (reset= / init= handling)  -> g_ff_ctor_init : option Z -> option Z -> option Z
                                                          (arguments reset, init; None = an exception is raised)
  * FFSynchronizer.elaborate      -> g_ff_start, g_ff_step, g_ff_out_as, g_ffr_step (the same design with the output
                                     domain's reset modelled: async / reset_less symbolic)
  * AsyncFFSynchronizer.elaborate -> g_af_start, g_af_step, g_af_out
  * ResetSynchronizer.elaborate   -> g_rs_start, g_rs_step, g_rs_out (AsyncFFSynchronizer instantiated by the source's call,
                                     async_edge taken from the default in AsyncFFSynchronizer.__init__'s signature)
  * PulseSynchronizer.__init__/elaborate -> g_ps_start, g_ps_step, g_ps_out (FFSynchronizer.__init__/elaborate are executed
                                     again for the submodule instantiated by the source's call)
  * which classes add RequirePosedge -> g_requires_posedge : Z -> bool
Proofs/GenEqCdc.v proves each of them equal to the hand-written model Model/Cdc.v on all inputs.

How: `__init__` is executed symbolically (Python-level `if x is None` on an option-typed argument becomes a `match`,
`raise` becomes None); `elaborate` is executed symbolically into a design = registers (scalars and one comprehension
list of signals), their clock domain and next-value expression, comb drivers, local clock domains with their clock and
reset drivers.  The design is then compiled into a step function over Model/Cdc.v's events.

Trusted reading (the simulator frame, not in cdc.py):
  * domain `o` (the value of o_domain / domain) fires at Eo and Eb, domain `i` (i_domain) at Ei and Eb; a local domain
    `ClockDomain(name, async_reset=True)` fires with the domain its ClockSignal is comb-driven from; all right-hand sides
    read the state from before the event; Enop changes nothing; Ein v replaces the input (norm sh v, or Z.odd v for a
    1-bit input).
  * a domain whose reset is modelled: at an active edge with rst = 1 every register that is not reset_less takes its init
    instead; in an async-reset domain a rise of rst alone loads init into the registers that are not reset_less.
  * a 1-bit signal is a bool (^ -> xorb, ~ -> negb, constants 0/1 -> false/true); any other signal is a Z of its shape;
    x.eq(e) is the identity when e has literally the shape of x and `norm (shape of x)` otherwise;
    Signal(shape, init=v) starts at norm shape v; Signal() is 1 bit, init 0; reset_less defaults to False.
  * `[Signal(..) for index in range(n)]` is a list register of length n; `(x, *flops)` is x :: flops; zip is combine;
    `for i, o in zip(A, flops): m.d[D] += o.eq(f(i))` updates position k of flops for k < min(|A|, |flops|) (the positions
    beyond keep their value: `upd ++ skipn (length upd) flops`); `flops[-1]` is `last flops <0 | false>` (the list is
    non-empty: _check_stages).
  * state mapping by name: FFSynchronizer flops -> ff_flops, self.i -> ff_in; AsyncFFSynchronizer flops -> af_flops,
    self.i / self.arst -> af_in; PulseSynchronizer i_toggle -> ps_itog, r_toggle -> ps_r, ff_sync's flops -> ps_chain,
    self.i -> ps_i.  A register outside this mapping, or a field without a register, is Unsupported.
Whitelisted (compared with their exact unparsed text, otherwise Unsupported): see WL_* below -- the platform-override
and max_input_delay blocks of the two elaborates (out of scope of C17: the simulator passes platform=None and the model has
no max_input_delay), the deprecation warning, the three argument checks of AsyncFFSynchronizer.__init__ (the model's
input and output are 1 bit by construction and async_edge is the bool `pos`).
Signatures (argument names and defaults) of the constructors are compared with the expected ones.
Signal keyword `name=` is accepted and ignored (names do not reach the simulator's behaviour).

Mutation evidence (scratch worktree of /repo, one edit of cdc.py at a time, then regenerate + compile GenEqCdc.v):
  _check_stages `< 1` -> `< 0`; `< 2` -> `< 3`; ValueError -> TypeError              -> gen_check_stages_eq breaks
  __init__ `init = 0` -> `init = 1`                                                   -> gen_ff_ctor_init_eq
  FF Signal(.. init=self._init ..) dropped                                            -> gen_ff_start_eq
  FF Signal(.. reset_less=self._reset_less) dropped                                   -> gen_ffr_step_eq
  FF `o.eq(i)` -> `o.eq(self.i)`                                                      -> gen_ff_step_eq
  FF zip arguments swapped; `flops[-1]` -> `flops[0]`; `self._stages = stages + 1`; default reset_less=False;
  PS `stages=self._stages` dropped from the FFSynchronizer call; PS __init__ without _check_stages;
  AF `self._edge == "neg"`; AF ClockSignal("sync")                                    -> Unsupported
  AF flop init=1 -> 0 (gen_af_start_eq); AF head 0 -> 1, async_reset=False, `~self.i` -> `self.i` (gen_af_step_eq);
  AF RequirePosedge dropped (gen_requires_posedge_eq); RS async_edge="neg" passed (gen_rs_step_eq)
  PS `i_toggle ^ self.i` -> `self.i`; r_toggle in the input domain; r_toggle.eq(i_toggle); ff_sync fed from self.i
                                                                                      -> gen_ps_step_eq
  PS `o_toggle ^ r_toggle` -> `o_toggle ^ i_toggle`                                   -> gen_ps_out_eq
  harmless: loop variables i, o renamed; comprehension index renamed; the two sync statements of PulseSynchronizer
  swapped; operands of either `^` commuted                                            -> lemmas still compile
  harmless: local r_toggle renamed                                                    -> Unsupported (state mapping is by name)
"""
import ast, copy, os, sys
sys.path.insert(0, os.path.dirname(__file__))
from py2gallina import Unsupported, fail, find_function

NAME = "cdc"
OUTPUTS = ["CdcGen.v"]
SRC = "amaranth/lib/cdc.py"

HEADER = """(* GENERATED by /verif/translator/unit_cdc.py from {src} -- do not edit *)
From Coq Require Import ZArith List Bool.
From V.Model Require Import Bits Cdc.
Import ListNotations.
Open Scope Z_scope.
Open Scope bool_scope.

"""

EXC_CODE = {"TypeError": 1, "ValueError": 2}


def paren(s):
    s = str(s)
    return s if s.replace("_", "a").replace("'", "a").isalnum() else f"({s})"


# ------------------------------------------------------------------------------------------ _check_stages
def tr_check_stages(fdef):
    """if <cond>: raise <Exc>(..)  (in order; falling off the end = accepted)"""
    if [a.arg for a in fdef.args.args] != ["stages"] or fdef.args.kwonlyargs or fdef.args.vararg or fdef.args.kwarg:
        fail(fdef, "_check_stages signature")

    def cond(n):
        if isinstance(n, ast.BoolOp):
            op = "||" if isinstance(n.op, ast.Or) else "&&"
            return "(" + f" {op} ".join(cond(v) for v in n.values) + ")"
        if isinstance(n, ast.UnaryOp) and isinstance(n.op, ast.Not):
            return f"negb {paren(cond(n.operand))}"
        if isinstance(n, ast.Call) and ast.unparse(n) == "isinstance(stages, int)":
            return "true"                       # the argument of g_check_stages is a Z
        if isinstance(n, ast.Compare) and len(n.ops) == 1:
            ops = {ast.Lt: "<?", ast.LtE: "<=?", ast.Gt: ">?", ast.GtE: ">=?", ast.Eq: "=?"}
            if type(n.ops[0]) not in ops:
                fail(n, "comparison operator")
            return f"({term(n.left)} {ops[type(n.ops[0])]} {term(n.comparators[0])})"
        fail(n, "condition")

    def term(n):
        if isinstance(n, ast.Name) and n.id == "stages":
            return "stages"
        if isinstance(n, ast.Constant) and isinstance(n.value, int) and not isinstance(n.value, bool):
            return paren(n.value) if n.value >= 0 else f"({n.value})"
        fail(n, "term")

    out = ""
    for s in fdef.body:
        if not (isinstance(s, ast.If) and not s.orelse and len(s.body) == 1 and isinstance(s.body[0], ast.Raise)
                and isinstance(s.body[0].exc, ast.Call) and isinstance(s.body[0].exc.func, ast.Name)
                and s.body[0].exc.func.id in EXC_CODE):
            fail(s, "_check_stages statement")
        out += f"if {cond(s.test)} then {EXC_CODE[s.body[0].exc.func.id]} else "
    return f"Definition g_check_stages (stages : Z) : Z :=\n  {out}0.\n\n"


# ------------------------------------------------------------------------------------------ symbolic values
class P:
    """Python-level value: kind in none | Z | bool | str | dom | nat | opt | edge"""
    def __init__(self, kind, text):
        self.kind, self.text = kind, text


class Sig:
    def __init__(self, key, shape, init=None, reset_less="false"):
        self.key, self.shape, self.init, self.reset_less = key, shape, init, reset_less

    @property
    def typ(self):
        return "bool" if self.shape == "1" else "Z"


class SigList(Sig):
    def __init__(self, key, shape, init, reset_less, count, var):
        Sig.__init__(self, key, shape, init, reset_less)
        self.count, self.var = count, var


class Tup:
    def __init__(self, head, rest):
        self.head, self.rest = head, rest


class Zip:
    def __init__(self, a, b):
        self.a, self.b = a, b


class Clk:
    def __init__(self, dom):
        self.dom = dom


class E:
    """op: sig const xor not last pyif loopvar"""
    def __init__(self, op, typ, args=(), shape=None):
        self.op, self.typ, self.args, self.shape = op, typ, tuple(args), shape


MODULE = object()


class Inst:
    """an instantiated component: class name + attributes of self"""
    def __init__(self, cls, attrs):
        self.cls, self.attrs = cls, attrs


class Design:
    def __init__(self):
        self.regs = {}        # key -> (Sig, domain name, E)
        self.lists = {}       # key -> (SigList, domain name, source, (ivar, ovar), E)
        self.comb = {}        # key -> (Sig, E)
        self.local = {}       # local domain name -> async (bool)
        self.clkdrv = {}      # local domain name -> domain name
        self.posedge = []     # domains given to RequirePosedge
        self.sigs = {}


# ------------------------------------------------------------------------------------------ constructors
SIGNATURES = {
    "FFSynchronizer": "self, i, o, *, o_domain='sync', init=None, reset=None, reset_less=True, stages=2, max_input_delay=None",
    "AsyncFFSynchronizer": "self, i, o, *, o_domain='sync', stages=2, async_edge='pos', max_input_delay=None",
    "ResetSynchronizer": "self, arst, *, domain='sync', stages=2, max_input_delay=None",
    "PulseSynchronizer": "self, i_domain, o_domain, *, stages=2",
}
WL_INIT = {
    "warnings.warn('`reset=` is deprecated, use `init=` instead', DeprecationWarning, stacklevel=2)",
    "if len(i) != 1:\n    raise ValueError('AsyncFFSynchronizer input width must be 1, not {}'.format(len(i)))",
    "if len(o) != 1:\n    raise ValueError('AsyncFFSynchronizer output width must be 1, not {}'.format(len(o)))",
    "if async_edge not in ('pos', 'neg'):\n    raise ValueError(\"AsyncFFSynchronizer async edge must be one of 'pos' or 'neg', not {!r}\".format(async_edge))",
}


def ctor_defaults(fdef):
    d = {}
    for a, v in zip(fdef.args.kwonlyargs, fdef.args.kw_defaults):
        d[a.arg] = v
    return d


def const_value(n):
    if isinstance(n, ast.Constant):
        v = n.value
        if v is None:
            return P("none", "None")
        if isinstance(v, bool):
            return P("bool", "true" if v else "false")
        if isinstance(v, int):
            return P("Z", str(v))
        if isinstance(v, str):
            return P("str", v)
    fail(n, "constant")


def run_ctor(tree, cls, args, prefix=""):
    """-> (check arguments, tree) ; tree = ("match", name, none_tree, some_tree) | ("raise", exc) | ("done", attrs)"""
    fdef = find_function(tree, f"{cls}.__init__")
    if ast.unparse(fdef.args) != SIGNATURES[cls]:
        fail(fdef, f"{cls}.__init__ signature is not ({SIGNATURES[cls]})")
    env = {}
    for k, v in ctor_defaults(fdef).items():
        env[k] = const_value(v)
    names = [a.arg for a in fdef.args.args[1:]] + [a.arg for a in fdef.args.kwonlyargs]
    for k, v in args.items():
        if k not in names:
            raise Unsupported(f"{cls}(..): unknown argument {k}")
        env[k] = v
    for a in fdef.args.args[1:]:
        if a.arg not in env:
            raise Unsupported(f"{cls}(..): missing argument {a.arg}")
    checks = []

    def evalc(n, env):
        if isinstance(n, ast.Name):
            if n.id not in env:
                fail(n, "unknown name")
            return env[n.id]
        if isinstance(n, ast.Constant):
            return const_value(n)
        fail(n, "constructor expression")

    def test(n, env):
        """-> True | False | ("opt", name, value_when_none)"""
        if isinstance(n, ast.Compare) and len(n.ops) == 1 and isinstance(n.ops[0], (ast.Is, ast.IsNot)) \
                and isinstance(n.left, ast.Name) and isinstance(n.comparators[0], ast.Constant) \
                and n.comparators[0].value is None:
            v = evalc(n.left, env)
            isnone = isinstance(n.ops[0], ast.Is)
            if isinstance(v, P) and v.kind == "none":
                return isnone
            if isinstance(v, P) and v.kind == "opt":
                return ("opt", n.left.id, isnone)
            if isinstance(v, P) and v.kind == "Z":
                return not isnone
        fail(n, "constructor condition")

    def block(stmts, env, attrs):
        for idx, s in enumerate(stmts):
            rest = stmts[idx + 1:]
            if ast.unparse(s) in WL_INIT:
                continue
            if isinstance(s, ast.Expr) and isinstance(s.value, ast.Constant) and isinstance(s.value.value, str):
                continue                                # docstring
            if isinstance(s, ast.Expr) and isinstance(s.value, ast.Call) and isinstance(s.value.func, ast.Name) \
                    and s.value.func.id == "_check_stages" and len(s.value.args) == 1 and not s.value.keywords:
                if idx != 0 or checks:
                    fail(s, "_check_stages is not the first statement")
                checks.append(evalc(s.value.args[0], env))
                continue
            if isinstance(s, ast.Assign) and len(s.targets) == 1:
                t = s.targets[0]
                if isinstance(t, ast.Attribute) and isinstance(t.value, ast.Name) and t.value.id == "self":
                    if t.attr in attrs:
                        fail(s, "attribute assigned twice")
                    if ast.unparse(s.value) == "Signal()":
                        attrs[t.attr] = Sig(prefix + "self." + t.attr, "1", E("const", "py", (0,)))
                    else:
                        attrs[t.attr] = evalc(s.value, env)
                    continue
                if isinstance(t, ast.Name):
                    env = dict(env)
                    env[t.id] = evalc(s.value, env)
                    continue
            if isinstance(s, ast.If):
                c = test(s.test, env)
                if c is True:
                    return block(s.body + rest, env, attrs)
                if c is False:
                    return block(s.orelse + rest, env, attrs)
                _, name, isnone = c
                e_some = dict(env)
                e_some[name] = P("Z", f"{name}_v")
                e_none = dict(env)
                e_none[name] = P("none", "None")
                b_none, b_some = (s.body, s.orelse) if isnone else (s.orelse, s.body)
                return ("match", name, block(b_none + rest, e_none, dict(attrs)), block(b_some + rest, e_some, dict(attrs)))
            if isinstance(s, ast.Raise) and isinstance(s.exc, ast.Call) and isinstance(s.exc.func, ast.Name) \
                    and s.exc.func.id in EXC_CODE:
                return ("raise", s.exc.func.id)
            fail(s, f"{cls}.__init__ statement")
        return ("done", attrs)

    t = block(fdef.body, env, {})
    if len(checks) != 1:
        raise Unsupported(f"{cls}.__init__ does not call _check_stages")
    return checks[0], t


def ctor_attrs(tree, cls, args, prefix=""):
    """a constructor call whose Python-level control flow is decided by the arguments: -> Inst"""
    chk, t = run_ctor(tree, cls, args, prefix)
    if t[0] != "done":
        raise Unsupported(f"{cls}(..): the constructor's control flow is not decided by these arguments")
    if chk is not args.get("stages"):
        raise Unsupported(f"{cls}.__init__: _check_stages is not applied to `stages`")
    return Inst(cls, t[1])


def render_ctor_init(t, attr):
    if t[0] == "match":
        return f"match {t[1]} with None => {render_ctor_init(t[2], attr)} | Some {t[1]}_v => {render_ctor_init(t[3], attr)} end"
    if t[0] == "raise":
        return "None"
    v = t[1].get(attr)
    if not (isinstance(v, P) and v.kind == "Z"):
        raise Unsupported(f"self.{attr} is not an integer on some path")
    return f"Some {paren(v.text) if not v.text.lstrip('-').isdigit() else '(' + v.text + ')'}"


def passthrough(tree, t, expect):
    """on every path that ends normally, self.<attr> is the argument object expected"""
    if t[0] == "match":
        passthrough(tree, t[2], expect)
        passthrough(tree, t[3], expect)
    elif t[0] == "done":
        for attr, obj in expect.items():
            if t[1].get(attr) is not obj:
                raise Unsupported(f"self.{attr} is not the constructor argument")


# ------------------------------------------------------------------------------------------ elaborate
WL_ELAB = {
    "FFSynchronizer": [
        "if hasattr(platform, 'get_ff_sync'):\n    return platform.get_ff_sync(self)",
        "if self._max_input_delay is not None:\n    raise NotImplementedError(\"Platform '{}' does not support constraining input delay for FFSynchronizer\".format(type(platform).__qualname__))",
    ],
    "AsyncFFSynchronizer": [
        "if hasattr(platform, 'get_async_ff_sync'):\n    return platform.get_async_ff_sync(self)",
        "if self._max_input_delay is not None:\n    raise NotImplementedError(\"Platform '{}' does not support constraining input delay for AsyncFFSynchronizer\".format(type(platform).__qualname__))",
    ],
    "ResetSynchronizer": [], "PulseSynchronizer": [],
}


def is_m(node, env):
    return isinstance(node, ast.Name) and env.get(node.id) is MODULE


def ev(node, env, inst, d, prefix):
    if isinstance(node, ast.Constant) and isinstance(node.value, int) and not isinstance(node.value, bool):
        return E("const", "py", (node.value,))
    if isinstance(node, ast.Constant) and isinstance(node.value, str):
        return P("str", node.value)
    if isinstance(node, ast.Attribute) and isinstance(node.value, ast.Name) and node.value.id == "self":
        if node.attr not in inst.attrs:
            fail(node, "unknown attribute of self")
        return inst.attrs[node.attr]
    if isinstance(node, ast.Name):
        if node.id not in env:
            fail(node, "unknown name")
        return env[node.id]
    if isinstance(node, ast.BinOp) and isinstance(node.op, ast.BitXor):
        a, b = val(ev(node.left, env, inst, d, prefix), node), val(ev(node.right, env, inst, d, prefix), node)
        if a.typ != "bool" or b.typ != "bool":
            fail(node, "^ on operands that are not 1-bit values")
        return E("xor", "bool", (a, b), shape="1")
    if isinstance(node, ast.UnaryOp) and isinstance(node.op, ast.Invert):
        a = val(ev(node.operand, env, inst, d, prefix), node)
        if a.typ != "bool":
            fail(node, "~ on an operand that is not a 1-bit value")
        return E("not", "bool", (a,), shape="1")
    if isinstance(node, ast.Subscript):
        l = ev(node.value, env, inst, d, prefix)
        if isinstance(l, SigList) and ast.unparse(node.slice) == "-1":
            return E("last", l.typ, (l.key,), shape=l.shape)
        fail(node, "subscript")
    if isinstance(node, ast.Tuple):
        if len(node.elts) == 2 and isinstance(node.elts[1], ast.Starred):
            rest = ev(node.elts[1].value, env, inst, d, prefix)
            if not isinstance(rest, SigList):
                fail(node, "starred element is not the list of flops")
            return Tup(val(ev(node.elts[0], env, inst, d, prefix), node), rest)
        fail(node, "tuple")
    if isinstance(node, ast.Compare) and len(node.ops) == 1 and isinstance(node.ops[0], ast.Eq):
        a, b = ev(node.left, env, inst, d, prefix), ev(node.comparators[0], env, inst, d, prefix)
        if isinstance(a, P) and isinstance(b, P) and b.kind == "str":
            if a.kind == "str":
                return P("bool", "true" if a.text == b.text else "false")
            if a.kind == "edge" and b.text == "pos":
                return P("bool", a.text)
        fail(node, "comparison")
    if isinstance(node, ast.Call):
        f = node.func
        if isinstance(f, ast.Name) and f.id == "zip" and len(node.args) == 2 and not node.keywords:
            return Zip(ev(node.args[0], env, inst, d, prefix), ev(node.args[1], env, inst, d, prefix))
        if isinstance(f, ast.Name) and f.id in ("ClockSignal", "ResetSignal") and len(node.args) == 1 and not node.keywords:
            a = ev(node.args[0], env, inst, d, prefix)
            dom = domain_name(a, node, prefix, d)
            if f.id == "ClockSignal":
                return Clk(dom)
            key = f"rst:{dom}"
            if key not in d.sigs:
                d.sigs[key] = Sig(key, "1")
            return d.sigs[key]
        if isinstance(f, ast.Attribute) and f.attr == "shape" and not node.args and not node.keywords:
            s = ev(f.value, env, inst, d, prefix)
            if isinstance(s, Sig) and not isinstance(s, SigList):
                return P("shape", s.shape)
        if isinstance(f, ast.Name) and f.id == "Signal":
            return signal(node, env, inst, d, prefix, None)
    fail(node, "expression")


def domain_name(a, node, prefix, d):
    if isinstance(a, P) and a.kind == "dom":
        return a.text
    if isinstance(a, P) and a.kind == "str":
        if prefix + a.text in d.local:
            return prefix + a.text
        fail(node, f"domain {a.text!r} is not declared in this module")
    fail(node, "domain")


def val(x, node):
    if isinstance(x, SigList):
        fail(node, "a list of signals where a value is expected")
    if isinstance(x, Sig):
        return E("sig", x.typ, (x.key,), shape=x.shape)
    if isinstance(x, E):
        return x
    fail(node, "not a value")


def signal(node, env, inst, d, prefix, key):
    """Signal(...) -> Sig (registered under key)"""
    shape = "1"
    if len(node.args) == 1:
        a = node.args[0]
        if isinstance(a, ast.Constant) and a.value == 1 and not isinstance(a.value, bool):
            shape = "1"
        else:
            s = ev(a, env, inst, d, prefix)
            if not (isinstance(s, P) and s.kind == "shape"):
                fail(node, "Signal shape")
            shape = s.text
    elif node.args:
        fail(node, "Signal arguments")
    init, rl = E("const", "py", (0,)), "false"
    for kw in node.keywords:
        if kw.arg == "name" and isinstance(kw.value, (ast.JoinedStr, ast.Constant)):
            continue
        if kw.arg == "init":
            v = ev(kw.value, env, inst, d, prefix)
            if isinstance(v, E) and v.op == "const":
                init = v
            elif isinstance(v, P) and v.kind == "Z":
                init = v
            else:
                fail(node, "Signal init")
            continue
        if kw.arg == "reset_less":
            v = const_value(kw.value) if isinstance(kw.value, ast.Constant) else ev(kw.value, env, inst, d, prefix)
            if not (isinstance(v, P) and v.kind == "bool"):
                fail(node, "Signal reset_less")
            rl = v.text
            continue
        fail(node, f"Signal keyword {kw.arg}")
    return Sig(key, shape, init, rl)


def eq_call(node, env, inst, d, prefix):
    if not (isinstance(node, ast.Call) and isinstance(node.func, ast.Attribute) and node.func.attr == "eq"
            and len(node.args) == 1 and not node.keywords):
        fail(node, "expected <signal>.eq(<expr>)")
    tgt = ev(node.func.value, env, inst, d, prefix)
    src = ev(node.args[0], env, inst, d, prefix)
    return tgt, src


def stmt_domain(t, env, inst, d, prefix):
    """m.d.<name> | m.d[<expr>] -> domain name"""
    if isinstance(t, ast.Attribute) and isinstance(t.value, ast.Attribute) and t.value.attr == "d" and is_m(t.value.value, env):
        if t.attr == "comb":
            return "comb"
        if prefix + t.attr in d.local:
            return prefix + t.attr
        fail(t, f"domain {t.attr!r} is not declared in this module")
    if isinstance(t, ast.Subscript) and isinstance(t.value, ast.Attribute) and t.value.attr == "d" and is_m(t.value.value, env):
        return domain_name(ev(t.slice, env, inst, d, prefix), t, prefix, d)
    fail(t, "expected m.d.<domain> / m.d[<domain>]")


def add_assign(dom, tgt, src, node, d):
    if isinstance(tgt, Clk):
        if dom != "comb" or not isinstance(src, Clk) or tgt.dom not in d.local or tgt.dom in d.clkdrv:
            fail(node, "clock assignment")
        d.clkdrv[tgt.dom] = src.dom
        return
    if not isinstance(tgt, Sig) or isinstance(tgt, SigList):
        fail(node, "assignment target is not a signal")
    src = val(src, node)
    if tgt.key in d.comb or tgt.key in d.regs:
        fail(node, f"{tgt.key} is driven twice")
    if dom == "comb":
        d.comb[tgt.key] = (tgt, src)
    else:
        d.regs[tgt.key] = (tgt, dom, src)


def exec_elab(tree, inst, d, prefix=""):
    fdef = find_function(tree, f"{inst.cls}.elaborate")
    if ast.unparse(fdef.args) != "self, platform":
        fail(fdef, "elaborate signature")
    env = {}
    wl = list(WL_ELAB[inst.cls])
    body = list(fdef.body)
    for idx, s in enumerate(body):
        if wl and ast.unparse(s) == wl[0]:
            wl.pop(0)
            continue
        if isinstance(s, ast.Return):
            if idx != len(body) - 1:
                fail(s, "statements after return")
            if wl:
                raise Unsupported(f"{inst.cls}.elaborate: expected statement missing: {wl[0][:60]}")
            if is_m(s.value, env):
                return
            if isinstance(s.value, ast.Call) and isinstance(s.value.func, ast.Name) and s.value.func.id in SIGNATURES \
                    and len(body) == 1:
                sub = instantiate(tree, s.value, env, inst, d, prefix)
                exec_elab(tree, sub, d, prefix)
                return
            fail(s, "return")
        exec_stmt(tree, s, env, inst, d, prefix)
    raise Unsupported(f"{inst.cls}.elaborate: fell off the end without return")


def instantiate(tree, call, env, inst, d, prefix):
    cls = call.func.id
    fdef = find_function(tree, f"{cls}.__init__")
    pos = [a.arg for a in fdef.args.args[1:]]
    if len(call.args) > len(pos):
        fail(call, "too many positional arguments")
    args = {}
    for name, a in zip(pos, call.args):
        args[name] = ev(a, env, inst, d, prefix)
    for kw in call.keywords:
        if kw.arg is None or kw.arg in args:
            fail(call, "keyword argument")
        args[kw.arg] = ev(kw.value, env, inst, d, prefix)
    return ctor_attrs(tree, cls, args, prefix)


def exec_stmt(tree, s, env, inst, d, prefix):
    if isinstance(s, ast.Assign):
        tg, v = s.targets, s.value
        if ast.unparse(v) == "Module()" and len(tg) == 1 and isinstance(tg[0], ast.Name):
            env[tg[0].id] = MODULE
            return
        if isinstance(v, ast.Call) and isinstance(v.func, ast.Name) and v.func.id in SIGNATURES:
            # name = m.submodules.<n> = Class(..)
            if not (len(tg) == 2 and isinstance(tg[0], ast.Name) and isinstance(tg[1], ast.Attribute)
                    and isinstance(tg[1].value, ast.Attribute) and tg[1].value.attr == "submodules"
                    and is_m(tg[1].value.value, env)):
                fail(s, "expected name = m.submodules.<n> = Component(..)")
            sub = instantiate(tree, v, env, inst, d, prefix)
            env[tg[0].id] = sub
            exec_elab(tree, sub, d, prefix + tg[1].attr + ".")
            return
        if not (len(tg) == 1 and isinstance(tg[0], ast.Name)):
            fail(s, "assignment")
        name = tg[0].id
        if isinstance(v, ast.Call) and isinstance(v.func, ast.Name) and v.func.id == "Signal":
            sg = signal(v, env, inst, d, prefix, prefix + name)
            env[name] = sg
            d.sigs[sg.key] = sg
            return
        if isinstance(v, ast.ListComp):
            if len(v.generators) != 1 or v.generators[0].ifs or v.generators[0].is_async \
                    or not isinstance(v.generators[0].target, ast.Name):
                fail(s, "comprehension")
            g = v.generators[0]
            if not (isinstance(g.iter, ast.Call) and isinstance(g.iter.func, ast.Name) and g.iter.func.id == "range"
                    and len(g.iter.args) == 1 and not g.iter.keywords):
                fail(s, "comprehension range")
            n = ev(g.iter.args[0], env, inst, d, prefix)
            if not (isinstance(n, P) and n.kind == "nat"):
                fail(s, "comprehension bound is not the stage count")
            if not (isinstance(v.elt, ast.Call) and isinstance(v.elt.func, ast.Name) and v.elt.func.id == "Signal"):
                fail(s, "comprehension element")
            env2 = dict(env)
            env2[g.target.id] = P("index", g.target.id)
            sg = signal(v.elt, env2, inst, d, prefix, prefix + name)
            sl = SigList(sg.key, sg.shape, sg.init, sg.reset_less, n.text, g.target.id)
            env[name] = sl
            d.sigs[sl.key] = sl
            return
        fail(s, "assignment")
    if isinstance(s, ast.For):
        if s.orelse or not (isinstance(s.target, ast.Tuple) and len(s.target.elts) == 2
                            and all(isinstance(x, ast.Name) for x in s.target.elts)):
            fail(s, "for loop")
        z = ev(s.iter, env, inst, d, prefix)
        if not (isinstance(z, Zip) and isinstance(z.b, SigList)):
            fail(s, "for loop is not over zip(.., <list of flops>)")
        if not (isinstance(z.a, Tup) or isinstance(z.a, SigList)):
            fail(s, "for loop source")
        iv, ov = s.target.elts[0].id, s.target.elts[1].id
        if iv == ov or len(s.body) != 1 or not isinstance(s.body[0], ast.AugAssign) or not isinstance(s.body[0].op, ast.Add):
            fail(s, "for loop body")
        b = s.body[0]
        env2 = dict(env)
        srcshape = z.a.rest.shape if isinstance(z.a, Tup) else z.a.shape
        if isinstance(z.a, Tup) and z.a.head.op != "const" and z.a.head.shape != srcshape:
            fail(s, "zip source elements of different shapes")
        env2[iv] = E("loopvar", "bool" if srcshape == "1" else "Z", (iv,), shape=srcshape)
        env2[ov] = Sig("loop:" + ov, z.b.shape)
        dom = stmt_domain(b.target, env2, inst, d, prefix)
        tgt, src = eq_call(b.value, env2, inst, d, prefix)
        if tgt is not env2[ov] or dom == "comb":
            fail(s, "for loop body does not assign the second loop variable in a clock domain")
        if z.b.key in d.lists:
            fail(s, "list of flops driven twice")
        d.lists[z.b.key] = (z.b, dom, z.a, (iv, ov), val(src, s))
        return
    if isinstance(s, ast.AugAssign) and isinstance(s.op, ast.Add):
        t = s.target
        if isinstance(t, ast.Attribute) and t.attr == "domains" and is_m(t.value, env):
            v = s.value
            if not (isinstance(v, ast.Call) and isinstance(v.func, ast.Name) and v.func.id == "ClockDomain"
                    and len(v.args) == 1 and isinstance(v.args[0], ast.Constant) and isinstance(v.args[0].value, str)):
                fail(s, "ClockDomain")
            asyn = False
            for kw in v.keywords:
                if kw.arg == "async_reset" and isinstance(kw.value, ast.Constant) and isinstance(kw.value.value, bool):
                    asyn = kw.value.value
                else:
                    fail(s, "ClockDomain keyword")
            d.local[prefix + v.args[0].value] = asyn
            return
        if isinstance(t, ast.Attribute) and t.attr == "submodules" and is_m(t.value, env):
            v = s.value
            if not (isinstance(v, ast.Call) and isinstance(v.func, ast.Name) and v.func.id == "RequirePosedge"
                    and len(v.args) == 1 and not v.keywords):
                fail(s, "submodule")
            d.posedge.append(domain_name(ev(v.args[0], env, inst, d, prefix), s, prefix, d))
            return
        dom = stmt_domain(t, env, inst, d, prefix)
        items = s.value.elts if isinstance(s.value, ast.List) else [s.value]
        for it in items:
            tgt, src = eq_call(it, env, inst, d, prefix)
            add_assign(dom, tgt, src, it, d)
        return
    if isinstance(s, ast.If):
        c = ev(s.test, env, inst, d, prefix)
        if not (isinstance(c, P) and c.kind == "bool") or not s.orelse:
            fail(s, "Python-level if on something that is not a parameter condition, or without else")
        outs = []
        for blk in (s.body, s.orelse):
            d2 = Design()
            d2.local, d2.sigs = d.local, d.sigs
            for x in blk:
                if not isinstance(x, ast.AugAssign):
                    fail(x, "statement under a parameter condition")
                exec_stmt(tree, x, env, inst, d2, prefix)
            if d2.regs or d2.lists or d2.clkdrv or d2.posedge:
                fail(s, "only comb assignments are supported under a parameter condition")
            outs.append(d2.comb)
        if set(outs[0]) != set(outs[1]):
            fail(s, "the two branches drive different signals")
        for k in outs[0]:
            if k in d.comb or k in d.regs:
                fail(s, f"{k} is driven twice")
            a, b = outs[0][k][1], outs[1][k][1]
            if a.typ != b.typ:
                fail(s, "branches of different types")
            d.comb[k] = (outs[0][k][0], E("pyif", a.typ, (c.text, a, b), shape=a.shape if a.shape == b.shape else None))
        return
    fail(s, "statement")


# ------------------------------------------------------------------------------------------ rendering
class R:
    def __init__(self, d, cur):
        self.d, self.cur, self.stack = d, cur, []

    def read(self, key):
        if key in self.cur:
            return self.cur[key]
        if key in self.d.comb:
            if key in self.stack:
                raise Unsupported(f"combinational loop through {key}")
            self.stack.append(key)
            t, e = self.d.comb[key]
            r = self.convert(t, e)
            self.stack.pop()
            return r
        raise Unsupported(f"signal {key} is read but has neither a driver nor a place in the model's state")

    def rb(self, e):
        if e.typ != "bool":
            raise Unsupported("a 1-bit value was expected")
        if e.op == "sig":
            return self.read(e.args[0])
        if e.op == "loopvar":
            return e.args[0]
        if e.op == "xor":
            return f"xorb {paren(self.rb(e.args[0]))} {paren(self.rb(e.args[1]))}"
        if e.op == "not":
            return f"negb {paren(self.rb(e.args[0]))}"
        if e.op == "last":
            return f"last {paren(self.read(e.args[0]))} false"
        if e.op == "pyif":
            return f"(if {e.args[0]} then {self.rb(e.args[1])} else {self.rb(e.args[2])})"
        raise Unsupported(f"bool expression {e.op}")

    def rz(self, e):
        if e.typ != "Z":
            raise Unsupported("a value that is not 1 bit wide was expected")
        if e.op == "sig":
            return self.read(e.args[0])
        if e.op == "loopvar":
            return e.args[0]
        if e.op == "last":
            return f"last {paren(self.read(e.args[0]))} 0"
        if e.op == "pyif":
            return f"(if {e.args[0]} then {self.rz(e.args[1])} else {self.rz(e.args[2])})"
        raise Unsupported(f"expression {e.op}")

    def convert(self, tgt, e):
        if tgt.typ == "bool":
            if e.op == "const":
                if e.args[0] in (0, 1):
                    return "true" if e.args[0] else "false"
                raise Unsupported("constant assigned to a 1-bit signal is not 0 or 1")
            return self.rb(e)
        if e.op == "const":
            return f"norm {paren(tgt.shape)} ({e.args[0]})"
        if e.typ == "bool":
            raise Unsupported("1-bit value assigned to a wider signal")
        if e.shape is not None and e.shape == tgt.shape:
            return self.rz(e)
        return f"norm {paren(tgt.shape)} {paren(self.rz(e))}"


def init_text(sg):
    v = sg.init
    if isinstance(v, E):
        n = v.args[0]
    elif v.text.lstrip("-").isdigit():
        n = int(v.text)
    else:
        return f"Z.odd {paren(v.text)}" if sg.typ == "bool" else f"norm {paren(sg.shape)} {paren(v.text)}"
    if sg.typ == "bool":
        return "true" if n % 2 else "false"
    return f"norm {paren(sg.shape)} ({n})"


def reset_value(sg, curtext):
    if isinstance(sg, SigList):
        return f"map (fun {sg.var} : nat => {init_text(sg)}) (seq 0 (length {paren(curtext)}))"
    return init_text(sg)


def start_value(sg):
    if isinstance(sg, SigList):
        return f"map (fun {sg.var} : nat => {init_text(sg)}) (seq 0 {paren(sg.count)})"
    return init_text(sg)


def domain_events(d, dom, top):
    seen = []
    while dom in d.local:
        if dom in seen or dom not in d.clkdrv:
            raise Unsupported(f"local domain {dom}: its clock is not driven from a domain of the model")
        seen.append(dom)
        dom = d.clkdrv[dom]
    if dom not in top:
        raise Unsupported(f"unknown clock domain {dom}")
    return top[dom]


class Frame:
    """how a design maps on a state record of the model"""
    def __init__(self, ctor, statevar, inp, fields, top, rst=None, extra=None):
        self.ctor, self.s, self.inp, self.fields, self.top = ctor, statevar, inp, fields, top
        self.rst = rst or {}          # top-level domain -> (rst text, async text) when its reset is modelled
        # inp = (key, current text, text of the new value for `Ein v`); fields = [(register key | None for the input, current text)]


def next_value(d, fr, key, events_now):
    """Gallina text of the register's value after an event at which the domains `events_now` have an active edge"""
    cur = {k: t for k, t in fr.fields if k is not None}
    cur[fr.inp[0]] = fr.inp[1]
    r = R(d, cur)
    if key in d.regs:
        sg, dom, e = d.regs[key]
        nxt = r.convert(sg, e)
    elif key in d.lists:
        sg, dom, src, (iv, ov), e = d.lists[key]
        b = cur[key]
        if isinstance(src, Tup):
            a = f"{r.convert(sg, src.head)} :: {paren(r.read(src.rest.key))}"
        else:
            a = r.read(src.key)
        ty = "bool" if sg.typ == "bool" else "Z"
        f = r.convert(Sig("loop", sg.shape), e)
        nxt = (f"(let upd := map (fun io : {ty} * {ty} => let '({iv}, {ov}) := io in {f}) (combine {paren(a)} {paren(b)}) in "
               f"upd ++ skipn (length upd) {paren(b)})")
    else:
        raise Unsupported(f"state field {key} has no register in the design")
    name, fires = domain_events(d, dom, fr.top)
    if not (fires & events_now):
        return cur[key]
    rst = domain_reset(d, fr, dom, r)
    if rst is None:
        return nxt
    rtext, _ = rst
    cond = rtext if sg.reset_less == "false" else f"{rtext} && negb {paren(sg.reset_less)}"
    if sg.reset_less == "true":
        return nxt
    return f"(if {cond} then {reset_value(sg, cur[key])} else {nxt})"


def domain_reset(d, fr, dom, r):
    """-> (rst text, async text) | None when the domain's reset is not part of the model"""
    if dom in d.local:
        key = f"rst:{dom}"
        if key not in d.comb:
            raise Unsupported(f"the reset of local domain {dom} is not driven")
        return r.read(key), ("true" if d.local[dom] else "false")
    return fr.rst.get(dom)


def async_load(d, fr, key, newcur):
    """value of the register after `Ein v` (only an asynchronous reset can change it)"""
    cur = {k: t for k, t in fr.fields if k is not None}
    cur[fr.inp[0]] = fr.inp[1]
    sg, dom = (d.regs[key][0], d.regs[key][1]) if key in d.regs else (d.lists[key][0], d.lists[key][1])
    if dom not in d.local:
        return cur[key]
    old = domain_reset(d, fr, dom, R(d, cur))
    cur2 = dict(cur)
    cur2[fr.inp[0]] = newcur
    new = domain_reset(d, fr, dom, R(d, cur2))
    if old[1] != "true" or sg.reset_less == "true":
        return cur[key]
    cond = f"negb {paren(old[0])} && {paren(new[0])}"
    if sg.reset_less != "false":
        cond += f" && negb {paren(sg.reset_less)}"
    return f"(if {cond} then {reset_value(sg, cur[key])} else {cur[key]})"


def check_fields(d, fr):
    keys = [k for k, _ in fr.fields if k is not None]
    for k in list(d.regs) + list(d.lists):
        if k not in keys:
            raise Unsupported(f"register {k} has no place in the model's state record")
    for k in keys:
        if k not in d.regs and k not in d.lists:
            raise Unsupported(f"state field {k} has no register in the design")
    if fr.inp[0] in d.regs or fr.inp[0] in d.comb:
        raise Unsupported("the input is driven by the design")


def emit_step(d, fr, name, params, stype):
    check_fields(d, fr)

    def build(f):
        return fr.ctor + " " + " ".join(paren(fr.inp[1] if k is None else f(k)) for k, _ in fr.fields)
    out = f"Definition {name} {params} (s : {stype}) (e : event) : {stype} :=\n  match e with\n"
    newin = f"{fr.ctor} " + " ".join("i'" if k is None else paren(async_load(d, fr, k, "i'")) for k, _ in fr.fields)
    out += f"  | Ein v => let i' := {fr.inp[2]} in {newin}\n"
    for evname, doms in (("Eo", {"Eo"}), ("Ei", {"Ei"}), ("Eb", {"Eb"})):
        out += f"  | {evname} => {build(lambda k: next_value(d, fr, k, doms))}\n"
    out += "  | Enop => s\n  end.\n\n"
    return out


def emit_start(d, fr, name, params, stype, i0text):
    check_fields(d, fr)
    vals = []
    for k, _ in fr.fields:
        if k is None:
            vals.append(paren(i0text))
        else:
            sg = d.regs[k][0] if k in d.regs else d.lists[k][0]
            vals.append(paren(start_value(sg)))
    return f"Definition {name} {params} : {stype} :=\n  {fr.ctor} {' '.join(vals)}.\n\n"


def emit_out(d, fr, name, params, stype, key, rtype):
    cur = {k: t for k, t in fr.fields if k is not None}
    cur[fr.inp[0]] = fr.inp[1]
    if key not in d.comb:
        raise Unsupported(f"the output {key} is not driven from the comb domain")
    return f"Definition {name} {params} (s : {stype}) : {rtype} :=\n  {R(d, cur).read(key)}.\n\n"


TOP = {"o": ("o", {"Eo", "Eb"}), "i": ("i", {"Ei", "Eb"})}


def unit():
    root = os.environ.get("VERIF_REPO", "/repo")
    with open(os.path.join(root, SRC)) as f:
        tree = ast.parse(f.read())
    out = HEADER.format(src=SRC)
    out += tr_check_stages(find_function(tree, "_check_stages"))

    # ---- constructors: the stage check of each, and FFSynchronizer's init / reset handling
    stages = P("nat", "stages")
    odom, idom = P("dom", "o"), P("dom", "i")
    for short, cls, args in (
            ("ff", "FFSynchronizer", {"i": Sig("self.i", "sh"), "o": Sig("self.o", "osh")}),
            ("af", "AsyncFFSynchronizer", {"i": Sig("self.i", "1"), "o": Sig("self.o", "1")}),
            ("rs", "ResetSynchronizer", {"arst": Sig("self.arst", "1")}),
            ("ps", "PulseSynchronizer", {"i_domain": idom, "o_domain": odom})):
        a = dict(args)
        a["stages"] = stages
        chk, _ = run_ctor(tree, cls, a)
        if chk is not stages:
            raise Unsupported(f"{cls}.__init__: _check_stages is not applied to `stages`")
        out += f"Definition g_{short}_ctor_check (stages : Z) : Z := g_check_stages stages.\n"
    out += "\n"
    ff_i, ff_o = Sig("self.i", "sh"), Sig("self.o", "osh")
    a_reset, a_init, a_rl = P("opt", "reset"), P("opt", "init"), P("bool", "rl")
    args = {"i": ff_i, "o": ff_o, "o_domain": odom, "init": a_init, "reset": a_reset, "reset_less": a_rl, "stages": stages}
    _, t = run_ctor(tree, "FFSynchronizer", args)
    passthrough(tree, t, {"i": ff_i, "o": ff_o, "_o_domain": odom, "_reset_less": a_rl, "_stages": stages})
    out += ("Definition g_ff_ctor_init (reset init : option Z) : option Z :=\n  "
            + render_ctor_init(t, "_init") + ".\n\n")

    # ---- FFSynchronizer
    args = {"i": ff_i, "o": ff_o, "o_domain": odom, "init": P("Z", "init_"), "reset_less": a_rl, "stages": stages}
    inst = ctor_attrs(tree, "FFSynchronizer", args)
    d = Design()
    exec_elab(tree, inst, d)
    ff_posedge = bool(d.posedge)
    fr = Frame("FF", "s", ("self.i", "ff_in s", "norm sh v"), [(None, None), ("flops", "ff_flops s")], TOP)
    out += emit_start(d, fr, "g_ff_start", "(sh : shape) (stages : nat) (init_ : Z) (i0 : Z)", "ff_state", "norm sh i0")
    out += emit_step(d, fr, "g_ff_step", "(sh : shape)", "ff_state")
    out += emit_out(d, fr, "g_ff_out_as", "(osh sh : shape)", "ff_state", "self.o", "Z")
    # the same design under the output domain's reset (Model: ffr_step); `Rrst b` is the frame's own event
    fr = Frame("FF", "s", ("self.i", "ff_in (fr_ff s)", "norm sh v"), [(None, None), ("flops", "ff_flops (fr_ff s)")], TOP,
               rst={"o": ("fr_rst s", "async")})
    check_fields(d, fr)
    sg = d.lists["flops"][0]
    body = {ev_: next_value(d, fr, "flops", {ev_}) for ev_ in ("Eo", "Ei", "Eb")}
    cond = "async && negb (fr_rst s) && b" + ("" if sg.reset_less == "false" else f" && negb {paren(sg.reset_less)}")
    load = fr.fields[1][1] if sg.reset_less == "true" else \
        f"if {cond} then {reset_value(sg, fr.fields[1][1])} else {fr.fields[1][1]}"
    out += ("Definition g_ffr_step (sh : shape) (init_ : Z) (async rl : bool) (s : ffr_state) (e : revent) : ffr_state :=\n"
            "  match e with\n"
            "  | Rev (Ein v) => FFR (FF (norm sh v) (ff_flops (fr_ff s))) (fr_rst s)\n"
            + "".join(f"  | Rev {k} => FFR (FF (ff_in (fr_ff s)) {paren(v)}) (fr_rst s)\n" for k, v in body.items())
            + "  | Rev Enop => s\n"
            f"  | Rrst b => FFR (FF (ff_in (fr_ff s)) ({load})) b\n"
            "  end.\n\n")

    # ---- AsyncFFSynchronizer
    af_i, af_o = Sig("self.i", "1"), Sig("self.o", "1")
    args = {"i": af_i, "o": af_o, "o_domain": odom, "stages": stages, "async_edge": P("edge", "pos")}
    inst = ctor_attrs(tree, "AsyncFFSynchronizer", args)
    d = Design()
    exec_elab(tree, inst, d)
    af_posedge = "o" in d.posedge
    fr = Frame("AF", "s", ("self.i", "af_in s", "Z.odd v"), [(None, None), ("flops", "af_flops s")], TOP)
    out += emit_start(d, fr, "g_af_start", "(stages : nat) (i0 : Z)", "af_state", "Z.odd i0")
    out += emit_step(d, fr, "g_af_step", "(pos : bool)", "af_state")
    out += emit_out(d, fr, "g_af_out", "", "af_state", "self.o", "bool")

    # ---- ResetSynchronizer
    arst = Sig("self.arst", "1")
    inst = ctor_attrs(tree, "ResetSynchronizer", {"arst": arst, "domain": odom, "stages": stages})
    d = Design()
    exec_elab(tree, inst, d)
    rs_posedge = "o" in d.posedge
    fr = Frame("AF", "s", ("self.arst", "af_in s", "Z.odd v"), [(None, None), ("flops", "af_flops s")], TOP)
    out += emit_start(d, fr, "g_rs_start", "(stages : nat) (i0 : Z)", "af_state", "Z.odd i0")
    out += emit_step(d, fr, "g_rs_step", "", "af_state")
    out += emit_out(d, fr, "g_rs_out", "", "af_state", "rst:o", "bool")

    # ---- PulseSynchronizer
    inst = ctor_attrs(tree, "PulseSynchronizer", {"i_domain": idom, "o_domain": odom, "stages": stages})
    for a in ("i", "o"):
        if not isinstance(inst.attrs.get(a), Sig):
            raise Unsupported(f"PulseSynchronizer.__init__: self.{a} is not a Signal")
    d = Design()
    exec_elab(tree, inst, d)
    ps_posedge = "o" in d.posedge
    fr = Frame("PS", "s", ("self.i", "ps_i s", "Z.odd v"),
               [(None, None), ("i_toggle", "ps_itog s"), ("ff_sync.flops", "ps_chain s"), ("r_toggle", "ps_r s")], TOP)
    out += emit_start(d, fr, "g_ps_start", "(stages : nat) (i0 : Z)", "ps_state", "Z.odd i0")
    out += emit_step(d, fr, "g_ps_step", "", "ps_state")
    out += emit_out(d, fr, "g_ps_out", "", "ps_state", "self.o", "bool")

    b = lambda x: "true" if x else "false"
    out += ("(* which components contain RequirePosedge(o_domain): 0 FFSynchronizer, 1 AsyncFFSynchronizer, 2 ResetSynchronizer,\n"
            "   3 PulseSynchronizer *)\n"
            "Definition g_requires_posedge (comp : Z) : bool :=\n"
            f"  if comp =? 0 then {b(ff_posedge)} else if comp =? 1 then {b(af_posedge)} else if comp =? 2 then {b(rs_posedge)} "
            f"else if comp =? 3 then {b(ps_posedge)} else false.\n")
    return {"CdcGen.v": out}


if __name__ == "__main__":
    print(unit()["CdcGen.v"])

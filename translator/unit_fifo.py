"""Translator unit `fifo`: SyncFIFO / SyncFIFOBuffered of amaranth/lib/fifo.py -> coq/Gen/FifoGen.v.

What is regenerated from the source text on every run (by walking the Python ast, fail closed):
  * FIFOInterface.__init__, SyncFIFO.__init__, SyncFIFOBuffered.__init__   -> the shapes of the interface signals
  * _incr                                                                   -> inlined at its call sites
  * SyncFIFO.elaborate          -> g_sync_step : Z -> Z -> core -> inp -> core * out
  * SyncFIFOBuffered.elaborate  -> g_buf_step  : Z -> Z -> bstate -> inp -> bstate * out
Proofs/GenEqFifo.v proves g_sync_step = Fifo.sync_step and g_buf_step = Fifo.buf_step for ALL widths, depths, states
and inputs (no guard).

How: the body of `elaborate` is executed SYMBOLICALLY.  Python-level control flow on the constructor parameters
(`if self.depth == 0: ... return m`, `if self.depth == 1:`, and in _incr `if modulo == 2 ** len(signal)`) becomes a
Gallina `if` on (w, d); every DSL statement is recorded (comb assignments, sync assignments under m.If / m.Elif /
m.Else, the memory and its ports); at `return m` the recorded design is compiled into a one-cycle step function:
  - every comb-driven signal becomes a `let` (topologically sorted by the signals its expression reads; a
    combinational loop is Unsupported); the data output of a comb read port is `mem_read rows addr`;
  - every sync-driven signal is a register: its next value is obtained by running the sync statements in program
    order (a later statement overrides an earlier one; `with m.If(c)` / `m.Elif` / `m.Else` groups become nested ifs);
  - the write port updates the rows when its `en` is set; the (non-transparent) sync read port loads its data
    register with the OLD row when its `en` is set;
  - `x.eq(e)` truncates to the width of x (`mask`), except when e has literally the same unsigned shape as x.

Subset handled (anything else raises Unsupported naming the line):
  statements   m = Module(); name = <expr>; name = Signal(..); storage = m.submodules.<n> = Memory(shape=, depth=, init=[]);
               p = storage.write_port(); p = storage.read_port(domain="comb"|"sync"); m.d.comb/sync += stmt | [stmt, ..]
               with stmt = <signal>.eq(<expr>); with m.If(e) / m.Elif(e) / m.Else(): <sync statements>;
               if <parameter condition>: <...; return m> (no else); return m
  expressions  self.<signal>, locals, port.<field>, int constants, self.width, self.depth, + - (ints and values),
               == != (bool result), & | ~ (on 1-bit values only), Mux(c, a, b), len(signal), 2 ** <int>, _incr(..)

Trusted reading (the unit's trusted base):
  * a 1-bit `Signal()` is a `bool`, every other signal a `Z` in [0, 2^width); + - == != act on the integers the
    operands denote (Amaranth widens, nothing is lost before the assignment truncates); & | ~ on 1-bit values are
    andb / orb / negb; Mux(c, a, b) = if c then a else b; assignment = `mask width`.
  * Signal(range(n)) has width Fifo.range_width n (= Shape.cast(range(n)).width, model of C10); Signal(n) has width n.
  * Memory(shape, depth): rows are `list Z`; port addr has the shape of Signal(range(depth)), data has `shape`,
    en is 1 bit; reads/writes are Fifo.mem_read / Fifo.mem_write (simulator semantics incl. out-of-range addresses).
  * interface inputs: self.w_en, self.r_en -> w_en i, r_en i; self.w_data -> mask w (w_data i) (the model's input is an
    arbitrary integer, the port holds it modulo 2^w).  An undriven signal reads as its init value 0.
  * state mapping (which design register is which field of the model's record):
      SyncFIFO:          produce, consume, self.level, storage        -> Core produce consume lvl rows
      SyncFIFOBuffered:  produce, consume, inner_level, storage       -> inner = Core ..
                         self.r_rdy -> rrdy; read-port data register or (depth 1) self.r_data -> rdata;
                         (depth 1) self.level -> blevel
    A register outside this mapping, or two registers mapped to one field, is Unsupported.
  * whitelisted (compared with their exact text, otherwise Unsupported): the two argument type checks of
    FIFOInterface.__init__ (TypeError; the model's ctor_ok covers them in the differential run), `self.width = width`,
    `self.depth = depth`, the `super().__init__(width=width, depth=depth)` calls, and the block
    `if platform == "formal":` of each elaborate (assertions for SymbiYosys, not executed by the simulator; the
    invariants they state are proved as C12_*_invariant).  Keyword `reset_less=True` of Signal is accepted and ignored
    (it only matters for the reset, which the step functions do not contain).

Mutation evidence (scratch worktree of /repo, one edit of fifo.py at a time, then regenerate + compile GenEqFifo.v):
  SyncFIFO w_rdy `!=` -> `==`; _incr `modulo - 1` -> `- 2`; _incr `2 ** len(signal)` -> `+ 1`; produce
  Signal(range(depth)) -> range(depth + 1); the `level - 1` block dropped; `level + 1` -> `+ 2`; r_data.eq(r_port.data)
  -> .eq(self.w_data)                                                                -> gen_sync_step_eq no longer compiles
  do_inner_read `|` -> `&`; inner_level range(inner_depth + 1) -> range(inner_depth) (seeded change
  c12_buffered_inner_level_range); depth-1 r_rdy `== 1` -> `== 0`; m.Elif -> m.If; w_port.en.eq(do_write) ->
  .eq(self.w_en); `if self.depth == 1` -> `== 2`; inner_depth = depth - 1 -> depth; level.eq(inner_level + r_rdy)
  -> .eq(inner_level)                                                                -> gen_buf_step_eq no longer compiles
  buffered read_port(domain="sync") -> "comb"                                        -> Unsupported (r_port.en)
  harmless: rename local do_read; swap the two (mutually exclusive) level blocks; reorder two comb statements
                                                                                     -> lemmas still compile
  harmless: rename the register `produce`                                            -> Unsupported (state mapping is by name)
"""
import ast, copy, os, sys
sys.path.insert(0, os.path.dirname(__file__))
from py2gallina import Unsupported, fail, find_function

NAME = "fifo"
OUTPUTS = ["FifoGen.v"]
SRC = "amaranth/lib/fifo.py"

HEADER = """(* GENERATED by /verif/translator/unit_fifo.py from {src} — do not edit *)
From Coq Require Import ZArith List Bool.
From V.Model Require Import Bits Shape Fifo.
Import ListNotations.
Open Scope Z_scope.
Open Scope bool_scope.

"""


# ------------------------------------------------------------------------------------------ symbolic values
class E:
    """expression IR: op in sig const py add sub eq ne and or not mux pyif; typ in bool Z py pybool;
    shape = Gallina width text when the value is known to have exactly that unsigned shape"""
    def __init__(self, op, typ, args=(), shape=None):
        self.op, self.typ, self.args, self.shape = op, typ, tuple(args), shape


class Sig:
    def __init__(self, key, typ, shape):
        self.key, self.typ, self.shape = key, typ, shape      # typ: bool | Z


class Mem:
    def __init__(self, name, shape, depth):
        self.name, self.shape, self.depth = name, shape, depth
        self.ports = []


class Port:
    def __init__(self, name, kind, domain, mem):
        self.name, self.kind, self.domain, self.mem = name, kind, domain, mem
        aw = f"range_width {paren(mem.depth)}"
        self.fields = {"addr": Sig(f"{name}.addr", "Z", aw), "data": Sig(f"{name}.data", "Z", mem.shape)}
        if kind == "w" or domain == "sync":
            self.fields["en"] = Sig(f"{name}.en", "bool", "1")


MODULE = object()


def paren(s):
    s = str(s)
    return s if s.replace("_", "a").isalnum() else f"({s})"


class State:
    def __init__(self, selfattrs, params):
        self.env = {}
        self.attrs = selfattrs          # name -> Sig
        self.params = params            # python attr name -> gallina text (width -> w, depth -> d)
        self.comb = {}                  # key -> (Sig, E)
        self.sync = []                  # ("assign", Sig, E) | ("if", [(E|None, [stmts])])
        self.mems = []
        self.sigs = {}                  # key -> Sig (everything declared)
        self.last_if = None             # the sync "if" group an m.Elif / m.Else may extend

    def fork(self):
        st = State(self.attrs, self.params)
        st.env = dict(self.env)
        st.comb = dict(self.comb)
        st.sync = copy.deepcopy(self.sync)
        st.mems = self.mems             # memories are declared after the parameter branches in the source; shared
        st.sigs = dict(self.sigs)
        return st


# ------------------------------------------------------------------------------------------ expressions
def is_self_attr(node, name=None):
    return (isinstance(node, ast.Attribute) and isinstance(node.value, ast.Name) and node.value.id == "self"
            and (name is None or node.attr == name))


def ev(node, st, funcs):
    """-> E | Sig | Mem | Port"""
    if isinstance(node, ast.Constant) and isinstance(node.value, int) and not isinstance(node.value, bool):
        return E("const", "py", (node.value,))
    if is_self_attr(node):
        if node.attr in st.params:
            return E("py", "py", (st.params[node.attr],))
        if node.attr in st.attrs:
            return st.attrs[node.attr]
        fail(node, "unknown attribute of self")
    if isinstance(node, ast.Name):
        if node.id in st.env:
            return st.env[node.id]
        fail(node, "unknown name")
    if isinstance(node, ast.Attribute) and isinstance(node.value, ast.Name) and \
            isinstance(st.env.get(node.value.id), Port):
        p = st.env[node.value.id]
        if node.attr not in p.fields:
            fail(node, "unknown port field")
        return p.fields[node.attr]
    if isinstance(node, ast.BinOp):
        a, b = val(ev(node.left, st, funcs), node), val(ev(node.right, st, funcs), node)
        if isinstance(node.op, (ast.Add, ast.Sub)):
            op = "add" if isinstance(node.op, ast.Add) else "sub"
            if a.typ == "py" and b.typ == "py":
                return E("py", "py", (f"{pytext(a)} {'+' if op == 'add' else '-'} {paren(pytext(b))}",))
            return E(op, "Z", (a, b))
        if isinstance(node.op, ast.Pow):
            if a.typ == "py" and b.typ == "py":
                return E("py", "py", (f"{paren(pytext(a))} ^ {paren(pytext(b))}",))
            fail(node, "** on values")
        if isinstance(node.op, (ast.BitAnd, ast.BitOr)):
            if a.typ == "bool" and b.typ == "bool":
                return E("and" if isinstance(node.op, ast.BitAnd) else "or", "bool", (a, b))
            fail(node, "& | on operands that are not 1-bit values")
        fail(node, "operator")
    if isinstance(node, ast.UnaryOp) and isinstance(node.op, ast.Invert):
        a = val(ev(node.operand, st, funcs), node)
        if a.typ == "bool":
            return E("not", "bool", (a,))
        fail(node, "~ on an operand that is not a 1-bit value")
    if isinstance(node, ast.Compare) and len(node.ops) == 1 and isinstance(node.ops[0], (ast.Eq, ast.NotEq)):
        a, b = val(ev(node.left, st, funcs), node), val(ev(node.comparators[0], st, funcs), node)
        op = "eq" if isinstance(node.ops[0], ast.Eq) else "ne"
        if a.typ == "py" and b.typ == "py":
            t = f"({paren(pytext(a))} =? {paren(pytext(b))})"
            return E("py", "pybool", (t if op == "eq" else f"negb {t}",))
        return E(op, "bool", (a, b))
    if isinstance(node, ast.Call) and isinstance(node.func, ast.Name):
        fn = node.func.id
        if node.keywords:
            fail(node, "keyword arguments")
        if fn == "Mux" and len(node.args) == 3:
            c, a, b = (val(ev(x, st, funcs), node) for x in node.args)
            if c.typ != "bool":
                fail(node, "Mux selector is not a 1-bit value")
            return E("mux", "Z", (c, a, b))
        if fn == "len" and len(node.args) == 1:
            s = ev(node.args[0], st, funcs)
            if not isinstance(s, Sig):
                fail(node, "len of something that is not a signal")
            return E("py", "py", (s.shape,))
        if fn in funcs:
            return call(funcs[fn], [ev(x, st, funcs) for x in node.args], st, funcs, node)
    fail(node, "expression")


def val(x, node):
    if isinstance(x, Sig):
        return E("sig", x.typ, (x.key,), shape=x.shape)
    if isinstance(x, E):
        return x
    fail(node, "not a value")


def pytext(e):
    return str(e.args[0])


def call(fdef, args, st, funcs, node):
    """inline a helper whose body is `if <parameter condition>: return A else: return B` or `return A`"""
    names = [a.arg for a in fdef.args.args]
    if len(names) != len(args) or fdef.args.kwonlyargs or fdef.args.vararg or fdef.args.kwarg or fdef.args.defaults:
        fail(node, f"call of {fdef.name}: signature")
    inner = st.fork()
    inner.env = dict(zip(names, args))

    def block(stmts):
        if len(stmts) == 1 and isinstance(stmts[0], ast.Return) and stmts[0].value is not None:
            return val(ev(stmts[0].value, inner, funcs), stmts[0])
        if len(stmts) == 1 and isinstance(stmts[0], ast.If) and stmts[0].orelse:
            c = ev(stmts[0].test, inner, funcs)
            if not (isinstance(c, E) and c.typ == "pybool"):
                fail(stmts[0], "helper branches on something that is not a parameter condition")
            a, b = block(stmts[0].body), block(stmts[0].orelse)
            return E("pyif", "Z", (pytext(c), a, b))
        fail(fdef, "helper body outside the subset")
    return block(fdef.body)


# ------------------------------------------------------------------------------------------ declarations
def signal_shape(node, st, funcs):
    """Signal(...) -> (typ, shape text)"""
    if not (isinstance(node, ast.Call) and isinstance(node.func, ast.Name) and node.func.id == "Signal"):
        fail(node, "expected Signal(..)")
    for kw in node.keywords:
        if not (kw.arg == "reset_less" and isinstance(kw.value, ast.Constant) and kw.value.value is True):
            fail(node, "Signal keyword")
    if len(node.args) == 0:
        return "bool", "1"
    if len(node.args) != 1:
        fail(node, "Signal arguments")
    a = node.args[0]
    if isinstance(a, ast.Call) and isinstance(a.func, ast.Name) and a.func.id == "range" and len(a.args) == 1 \
            and not a.keywords:
        n = val(ev(a.args[0], st, funcs), a)
        if n.typ != "py":
            fail(a, "range bound is not a parameter expression")
        return "Z", f"range_width {paren(pytext(n))}"
    n = val(ev(a, st, funcs), a)
    if n.typ != "py":
        fail(a, "Signal shape is not a parameter expression")
    return "Z", pytext(n)


WHITELIST_INIT = {
    "if not isinstance(width, int) or width < 0:\n    raise TypeError('FIFO width must be a non-negative integer, not {!r}'.format(width))",
    "if not isinstance(depth, int) or depth < 0:\n    raise TypeError('FIFO depth must be a non-negative integer, not {!r}'.format(depth))",
    "self.width = width",
    "self.depth = depth",
    "super().__init__(width=width, depth=depth)",
}


def read_init(fdef, attrs):
    if [a.arg for a in fdef.args.args] != ["self"] or [a.arg for a in fdef.args.kwonlyargs] != ["width", "depth"]:
        fail(fdef, "__init__ signature")
    st = State({}, {})
    st.env = {"width": E("py", "py", ("w",)), "depth": E("py", "py", ("d",))}
    for s in fdef.body:
        if ast.unparse(s) in WHITELIST_INIT:
            continue
        if isinstance(s, ast.Assign) and len(s.targets) == 1 and is_self_attr(s.targets[0]):
            name = s.targets[0].attr
            typ, shape = signal_shape(s.value, st, {})
            if name in attrs:
                fail(s, "attribute assigned twice")
            attrs[name] = Sig(f"self.{name}", typ, shape)
            continue
        fail(s, "__init__ statement")


# ------------------------------------------------------------------------------------------ statements
def eq_stmt(node, st, funcs):
    if not (isinstance(node, ast.Call) and isinstance(node.func, ast.Attribute) and node.func.attr == "eq"
            and len(node.args) == 1 and not node.keywords):
        fail(node, "expected <signal>.eq(<expr>)")
    tgt = ev(node.func.value, st, funcs)
    if not isinstance(tgt, Sig):
        fail(node, "assignment target is not a signal")
    return tgt, val(ev(node.args[0], st, funcs), node)


def domain_stmts(s, st, funcs):
    """m.d.<domain> += stmt | [stmt, ..]  ->  (domain, [(Sig, E)])"""
    t = s.target
    if not (isinstance(s.op, ast.Add) and isinstance(t, ast.Attribute) and t.attr in ("comb", "sync")
            and isinstance(t.value, ast.Attribute) and t.value.attr == "d" and isinstance(t.value.value, ast.Name)
            and st.env.get(t.value.value.id) is MODULE):
        fail(s, "expected m.d.comb/sync += ..")
    items = s.value.elts if isinstance(s.value, ast.List) else [s.value]
    return t.attr, [eq_stmt(x, st, funcs) for x in items]


def exec_sync_block(stmts, st, funcs):
    out = []
    for s in stmts:
        if not isinstance(s, ast.AugAssign):
            fail(s, "statement inside m.If / m.Elif / m.Else")
        dom, assigns = domain_stmts(s, st, funcs)
        if dom != "sync":
            fail(s, "comb statement under m.If")
        out += [("assign", t, e) for t, e in assigns]
    return out


def exec_stmt(s, st, funcs):
    keep_if = False
    if isinstance(s, ast.Assign):
        tg = s.targets
        if isinstance(s.value, ast.Call) and isinstance(s.value.func, ast.Name) and s.value.func.id == "Module" \
                and not s.value.args and not s.value.keywords and len(tg) == 1 and isinstance(tg[0], ast.Name):
            st.env[tg[0].id] = MODULE
        elif isinstance(s.value, ast.Call) and isinstance(s.value.func, ast.Name) and s.value.func.id == "Memory":
            if not (len(tg) == 2 and isinstance(tg[0], ast.Name) and isinstance(tg[1], ast.Attribute)
                    and isinstance(tg[1].value, ast.Attribute) and tg[1].value.attr == "submodules"
                    and isinstance(tg[1].value.value, ast.Name) and st.env.get(tg[1].value.value.id) is MODULE):
                fail(s, "expected name = m.submodules.<n> = Memory(..)")
            kws = {k.arg: k.value for k in s.value.keywords}
            if s.value.args or set(kws) != {"shape", "depth", "init"} or ast.unparse(kws["init"]) != "[]":
                fail(s, "Memory arguments")
            shape, depth = val(ev(kws["shape"], st, funcs), s), val(ev(kws["depth"], st, funcs), s)
            if shape.typ != "py" or depth.typ != "py":
                fail(s, "Memory shape/depth are not parameter expressions")
            mem = Mem(tg[0].id, pytext(shape), pytext(depth))
            st.env[tg[0].id] = mem
            st.mems = st.mems + [mem]
        elif isinstance(s.value, ast.Call) and isinstance(s.value.func, ast.Attribute) \
                and s.value.func.attr in ("write_port", "read_port") and isinstance(s.value.func.value, ast.Name) \
                and isinstance(st.env.get(s.value.func.value.id), Mem):
            mem = st.env[s.value.func.value.id]
            if not (len(tg) == 1 and isinstance(tg[0], ast.Name)) or s.value.args:
                fail(s, "port declaration")
            kws = {k.arg: k.value for k in s.value.keywords}
            if s.value.func.attr == "write_port":
                if kws:
                    fail(s, "write_port arguments")
                p = Port(tg[0].id, "w", "sync", mem)
            else:
                if set(kws) != {"domain"} or not isinstance(kws["domain"], ast.Constant) \
                        or kws["domain"].value not in ("comb", "sync"):
                    fail(s, "read_port arguments")
                p = Port(tg[0].id, "r", kws["domain"].value, mem)
            mem.ports.append(p)
            st.env[tg[0].id] = p
            for f in p.fields.values():
                st.sigs[f.key] = f
        elif isinstance(s.value, ast.Call) and isinstance(s.value.func, ast.Name) and s.value.func.id == "Signal":
            if not (len(tg) == 1 and isinstance(tg[0], ast.Name)):
                fail(s, "signal declaration")
            typ, shape = signal_shape(s.value, st, funcs)
            sg = Sig(tg[0].id, typ, shape)
            st.env[tg[0].id] = sg
            st.sigs[sg.key] = sg
        else:
            if not (len(tg) == 1 and isinstance(tg[0], ast.Name)):
                fail(s, "assignment")
            st.env[tg[0].id] = val(ev(s.value, st, funcs), s)
    elif isinstance(s, ast.AugAssign):
        dom, assigns = domain_stmts(s, st, funcs)
        for t, e in assigns:
            if dom == "comb":
                if t.key in st.comb:
                    fail(s, f"{t.key} driven twice in the comb domain")
                st.comb[t.key] = (t, e)
            else:
                st.sync.append(("assign", t, e))
    elif isinstance(s, ast.With):
        if len(s.items) != 1 or s.items[0].optional_vars is not None:
            fail(s, "with")
        c = s.items[0].context_expr
        if not (isinstance(c, ast.Call) and isinstance(c.func, ast.Attribute) and isinstance(c.func.value, ast.Name)
                and st.env.get(c.func.value.id) is MODULE and c.func.attr in ("If", "Elif", "Else") and not c.keywords):
            fail(s, "expected with m.If / m.Elif / m.Else")
        if c.func.attr == "Else":
            if c.args:
                fail(s, "m.Else arguments")
            cond = None
        else:
            if len(c.args) != 1:
                fail(s, "m.If arguments")
            cond = val(ev(c.args[0], st, funcs), c)
            if cond.typ != "bool":
                fail(s, "condition is not a 1-bit value")
        body = exec_sync_block(s.body, st, funcs)
        if c.func.attr == "If":
            grp = ("if", [(cond, body)])
            st.sync.append(grp)
            st.last_if = grp
        else:
            if st.last_if is None or st.last_if[1][-1][0] is None:
                fail(s, "m.Elif / m.Else without a directly preceding m.If")
            st.last_if[1].append((cond, body))
        keep_if = True
    else:
        fail(s, "statement")
    if not keep_if:
        st.last_if = None


FORMAL = "platform == 'formal'"


def run_block(stmts, st, funcs, finish):
    for idx, s in enumerate(stmts):
        if isinstance(s, ast.If):
            if ast.unparse(s.test) == FORMAL and not s.orelse:
                st.last_if = None
                continue                    # whitelisted: SymbiYosys assertions, not executed by the simulator
            c = ev(s.test, st, funcs)
            if not (isinstance(c, E) and c.typ == "pybool"):
                fail(s, "Python-level if on something that is not a parameter condition")
            if s.orelse or not (s.body and isinstance(s.body[-1], ast.Return)):
                fail(s, "parameter branch must end in `return m` and have no else")
            a = run_block(s.body, st.fork(), funcs, finish)
            b = run_block(stmts[idx + 1:], st.fork(), funcs, finish)
            return ("if", pytext(c), a, b)
        if isinstance(s, ast.Return):
            if not (isinstance(s.value, ast.Name) and st.env.get(s.value.id) is MODULE):
                fail(s, "expected `return m`")
            if idx != len(stmts) - 1:
                fail(s, "statements after return")
            return ("design", finish(st))
        exec_stmt(s, st, funcs)
    raise Unsupported("elaborate: fell off the end without `return m`")


# ------------------------------------------------------------------------------------------ compilation of a design
INPUTS = {"self.w_en": "w_en i", "self.r_en": "r_en i", "self.w_data": "mask w (w_data i)"}
OUTS = ["w_rdy", "r_rdy", "r_data", "level", "w_level", "r_level"]


def vname(key):
    return "v_" + key.replace("self.", "").replace(".", "_")


class Design:
    def __init__(self, st, regmap, rows, build):
        self.st, self.regmap, self.rows, self.build = st, regmap, rows, build
        self.regs = {}
        self.collect(st.sync)
        for m in st.mems:
            for p in m.ports:
                if p.kind == "r" and p.domain == "sync":
                    self.regs[p.fields["data"].key] = p.fields["data"]
        for k in self.regs:
            if k in st.comb:
                raise Unsupported(f"{k} is driven from both the comb and the sync domain")
            if k not in regmap:
                raise Unsupported(f"register {k} has no place in the model's state record")
        fields = [regmap[k] for k in self.regs]
        if len(set(fields)) != len(fields):
            raise Unsupported("two registers map to the same field of the model's state record")
        self.combdefs = {k: (t, e) for k, (t, e) in st.comb.items()}
        self.combread = {}
        for m in st.mems:
            for p in m.ports:
                if p.kind == "r" and p.domain == "comb":
                    self.combread[p.fields["data"].key] = p
        if len(st.mems) > 1:
            raise Unsupported("more than one memory")
        for m in st.mems:
            if sorted((p.kind, p.domain) for p in m.ports) not in ([("r", "comb"), ("w", "sync")],
                                                                   [("r", "sync"), ("w", "sync")]):
                raise Unsupported("memory ports: expected one write port and one read port")

    def collect(self, stmts):
        for s in stmts:
            if s[0] == "assign":
                self.regs[s[1].key] = s[1]
            else:
                for _, body in s[1]:
                    self.collect(body)

    # ---- rendering
    def read(self, key):
        if key in self.regs:
            return self.regmap[key]
        if key in self.combdefs or key in self.combread:
            return vname(key)
        if key in INPUTS:
            return INPUTS[key]
        sg = self.st.sigs.get(key) or self.st.attrs.get(key.replace("self.", ""))
        if sg is None:
            raise Unsupported(f"unknown signal {key}")
        if key.endswith(".en") or key.endswith(".addr") or key.endswith(".data"):
            raise Unsupported(f"port field {key} is read but never driven")
        return "false" if sg.typ == "bool" else "0"          # undriven: init value

    def deps(self, e, acc):
        if e.op == "sig":
            acc.add(e.args[0])
        for a in e.args:
            if isinstance(a, E):
                self.deps(a, acc)
        return acc

    def rb(self, e):
        """render as bool"""
        if e.typ != "bool":
            raise Unsupported("a 1-bit value was expected")
        if e.op == "sig":
            return self.read(e.args[0])
        if e.op in ("eq", "ne"):
            t = f"({self.rz(e.args[0])} =? {self.rz(e.args[1])})"
            return t if e.op == "eq" else f"negb {t}"
        if e.op in ("and", "or"):
            return f"({self.rb(e.args[0])} {'&&' if e.op == 'and' else '||'} {self.rb(e.args[1])})"
        if e.op == "not":
            return f"negb {paren(self.rb(e.args[0]))}"
        raise Unsupported(f"bool expression {e.op}")

    def rz(self, e):
        """render as Z"""
        if e.typ == "bool":
            return f"(b2z {paren(self.rb(e))})"
        if e.typ == "py":
            return paren(pytext(e))
        if e.op == "sig":
            return paren(self.read(e.args[0]))
        if e.op in ("add", "sub"):
            return f"({self.rz(e.args[0])} {'+' if e.op == 'add' else '-'} {self.rz(e.args[1])})"
        if e.op == "mux":
            return f"(if {self.rb(e.args[0])} then {self.rz(e.args[1])} else {self.rz(e.args[2])})"
        if e.op == "pyif":
            return f"(if {e.args[0]} then {self.rz(e.args[1])} else {self.rz(e.args[2])})"
        raise Unsupported(f"expression {e.op}")

    def assign(self, tgt, e):
        if tgt.typ == "bool":
            if e.typ == "bool":
                return self.rb(e)
            if e.op == "const" and e.args[0] in (0, 1):
                return "true" if e.args[0] else "false"
            raise Unsupported(f"assignment of a wide value to the 1-bit signal {tgt.key}")
        v = self.rz(e)
        if e.shape is not None and e.shape == tgt.shape:
            return v
        return f"(mask {paren(tgt.shape)} {v})"

    def apply(self, stmts, cur):
        cur = dict(cur)
        for s in stmts:
            if s[0] == "assign":
                cur[s[1].key] = self.assign(s[1], s[2])
                continue
            branches = s[1]
            assigned = {}
            sub = Design.__new__(Design)
            sub.regs = {}
            for _, body in branches:
                Design.collect(sub, body)
            assigned = sub.regs
            results = [self.apply(body, cur) for _, body in branches]
            for key in assigned:
                txt = cur[key]
                for (cond, _), res in reversed(list(zip(branches, results))):
                    txt = res[key] if cond is None else f"(if {self.rb(cond)} then {res[key]} else {txt})"
                cur[key] = txt
        return cur

    def emit(self):
        lines = []
        # comb lets in dependency order
        order, mark = [], {}

        def visit(k, path):
            if mark.get(k) == 2:
                return
            if mark.get(k) == 1:
                raise Unsupported(f"combinational loop through {k}")
            mark[k] = 1
            if k in self.combdefs:
                ds = self.deps(self.combdefs[k][1], set())
            else:
                ds = {self.combread[k].fields["addr"].key}
            for d in sorted(ds):
                if d in self.combdefs or d in self.combread:
                    visit(d, path + [k])
            mark[k] = 2
            order.append(k)
        for k in list(self.combdefs) + list(self.combread):
            visit(k, [])
        for k in order:
            if k in self.combdefs:
                t, e = self.combdefs[k]
                lines.append(f"let {vname(k)} := {self.assign(t, e)} in")
            else:
                p = self.combread[k]
                lines.append(f"let {vname(k)} := mem_read {paren(self.rows)} {self.read(p.fields['addr'].key)} in")
        # registers
        cur = {k: self.regmap[k] for k in self.regs}
        nxt = self.apply(self.st.sync, cur)
        rows2 = self.rows
        for m in self.st.mems:
            for p in m.ports:
                if p.kind == "w":
                    en, ad, da = (self.read(p.fields[f].key) for f in ("en", "addr", "data"))
                    rows2 = f"(if {en} then mem_write {paren(self.rows)} {ad} {da} else {self.rows})"
                elif p.domain == "sync":
                    en, ad = (self.read(p.fields[f].key) for f in ("en", "addr"))
                    k = p.fields["data"].key
                    nxt[k] = f"(if {en} then mem_read {paren(self.rows)} {ad} else {self.regmap[k]})"
        byfield = {self.regmap[k]: v for k, v in nxt.items()}
        state = self.build(lambda field: byfield.get(field, field), rows2)
        outs = " ".join(paren(self.read(f"self.{o}")) for o in OUTS)
        lines.append(f"({state}, Out {outs})")
        return "\n    ".join(lines)


def render(tree, ind="  "):
    if tree[0] == "design":
        return ind + tree[1].replace("\n    ", "\n" + ind)
    _, c, a, b = tree
    return f"{ind}if {c} then\n{render(a, ind + '  ')}\n{ind}else\n{render(b, ind + '  ')}"


SYNC_MAP = {"produce": "produce c", "consume": "consume c", "self.level": "lvl c"}
BUF_MAP = {"produce": "produce (inner s)", "consume": "consume (inner s)", "inner_level": "lvl (inner s)",
           "self.r_rdy": "rrdy s", "r_port.data": "rdata s", "self.r_data": "rdata s", "self.level": "blevel s"}


def build_sync(f, rows):
    return f"Core {paren(f('produce c'))} {paren(f('consume c'))} {paren(f('lvl c'))} {paren(rows)}"


def build_buf(f, rows):
    core = f"Core {paren(f('produce (inner s)'))} {paren(f('consume (inner s)'))} {paren(f('lvl (inner s)'))} {paren(rows)}"
    return f"BState ({core}) {paren(f('rdata s'))} {paren(f('rrdy s'))} {paren(f('blevel s'))}"


def translate(tree, cls, funcs, regmap, rows, build):
    attrs = {}
    read_init(find_function(tree, "FIFOInterface.__init__"), attrs)
    read_init(find_function(tree, f"{cls}.__init__"), attrs)
    for o in OUTS + ["w_en", "r_en", "w_data"]:
        if o not in attrs:
            raise Unsupported(f"{cls}: interface signal {o} is not declared")
    fdef = find_function(tree, f"{cls}.elaborate")
    if [a.arg for a in fdef.args.args] != ["self", "platform"]:
        fail(fdef, "elaborate signature")
    st = State(attrs, {"width": "w", "depth": "d"})
    return run_block(fdef.body, st, funcs, lambda s: Design(s, regmap, rows, build).emit())


def unit():
    root = os.environ.get("VERIF_REPO", "/repo")
    with open(os.path.join(root, SRC)) as f:
        tree = ast.parse(f.read())
    funcs = {"_incr": find_function(tree, "_incr")}
    out = HEADER.format(src=SRC)
    t = translate(tree, "SyncFIFO", funcs, SYNC_MAP, "rows c", build_sync)
    out += "Definition g_sync_step (w d : Z) (c : core) (i : inp) : core * out :=\n" + render(t) + ".\n\n"
    t = translate(tree, "SyncFIFOBuffered", funcs, BUF_MAP, "rows (inner s)", build_buf)
    out += "Definition g_buf_step (w d : Z) (s : bstate) (i : inp) : bstate * out :=\n" + render(t) + ".\n"
    return {"FifoGen.v": out}


if __name__ == "__main__":
    print(unit()["FifoGen.v"])

#!/venv/bin/python
"""Run the repository test suite (hooks off) and compare with /root/.vp/BASELINE.json stable_pass."""
import json, subprocess, sys, os, tempfile, xml.etree.ElementTree as ET
base = json.load(open("/root/.vp/BASELINE.json"))
out = tempfile.mktemp(suffix=".xml", dir="/tmp")
cmd = base["cmd"].replace("<file>", out)
r = subprocess.run(cmd, shell=True, capture_output=True, text=True)
passed = set()
for tc in ET.parse(out).getroot().iter("testcase"):
    if not any(ch.tag in ("failure", "error", "skipped") for ch in tc):
        passed.add(f"{tc.get('classname')}::{tc.get('name')}")
os.remove(out)
missing = [t for t in base["stable_pass"] if t not in passed]
print(f"stable_pass={len(base['stable_pass'])} passed_now={len(passed)} missing={len(missing)}")
for t in missing[:40]:
    print("  MISSING", t)
sys.exit(1 if missing else 0)

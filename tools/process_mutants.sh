#!/bin/bash
# tools/process_mutants.sh <log> src:id[:props] ... — adopt each seeded change from /tmp/mut_<src>_out and run the owning check(s)
log=$1; shift
for p in "$@"; do
  IFS=: read src id props <<< "$p"
  echo "===== $id" >> $log
  /verif/tools/adopt_mutant.sh /tmp/mut_${src}_out /tmp/mut_$src $id 2>&1 | tail -9 >> $log
  /verif/tools/run_seeded.sh $id $props 2>&1 | tail -5 >> $log
done
echo "ALLDONE" >> $log

#!/usr/bin/env python3
"""tools/set_outcome.py <seeded-id> <outcome text> — record the outcome of a seeded change in its meta.json"""
import json, os, sys
d = os.path.join(os.path.dirname(os.path.dirname(os.path.abspath(__file__))), "seeded", sys.argv[1])
p = os.path.join(d, "meta.json")
m = json.load(open(p))
m["outcome"] = sys.argv[2]
m.setdefault("verified", "tools/adopt_mutant.sh: demo exits 0 on HEAD and 1 with the patch in a scratch worktree; all 1002 stable tests still pass with the patch")
m["checks_run"] = f"tools/run_seeded.sh {sys.argv[1]} (private copy of the committed Coq tree; VERIF_REPO=<scratch worktree with patch> ./check <property> --tier quick)"
json.dump(m, open(p, "w"), indent=1)

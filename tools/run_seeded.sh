#!/bin/bash
# tools/run_seeded.sh <seeded-id> [property ids...] — run checks against a scratch worktree of /repo with the seeded
# patch applied (never touches /repo itself); prints the verdict lines. Worktree removed afterwards.
set -u
id=$1; shift
dir=/verif/seeded/$id
props=${*:-$(python3 -c "import json;print(json.load(open('$dir/meta.json'))['property'])")}
wt=$(mktemp -d /tmp/seeded_wt_XXXX)
git -C /repo worktree add -q --detach "$wt" HEAD
git -C "$wt" apply "$dir/patch.diff" || { echo "patch does not apply"; git -C /repo worktree remove --force "$wt"; exit 2; }
priv=$(mktemp -d /tmp/seeded_priv_XXXX)
cp -a /verif/coq "$priv/coq"; mkdir -p "$priv/build"
# the private copy holds the COMMITTED development: files being edited in /verif right now are put back to HEAD
for f in $(git -C /verif diff --name-only HEAD -- coq); do git -C /verif show HEAD:$f > "$priv/$f" 2>/dev/null || rm -f "$priv/$f"; done
for f in $(git -C /verif ls-files --others --exclude-standard -- coq); do rm -f "$priv/$f"; done
for p in $props; do
  echo "== seeded $id vs $p"
  VERIF_COQ=$priv/coq VERIF_BUILD=$priv/build VERIF_REPO=$wt /verif/check $p --tier quick 2>&1 | grep -E "VIOLATION|KNOWN|tier=" | head -8
done
git -C /repo worktree remove --force "$wt"
rm -rf "$priv"

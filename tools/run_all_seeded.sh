#!/bin/bash
# tools/run_all_seeded.sh <log> [regex of property ids to include, default all] — re-run every seeded change against
# the check(s) of its property (sequentially; scratch worktrees; /repo untouched) and append one verdict line each.
log=$1; filt=${2:-.}
cd /verif
for d in seeded/*/; do
  id=$(basename $d)
  prop=$(python3 -c "import json;print(json.load(open('$d/meta.json'))['property'])")
  echo "$prop" | grep -Eq "$filt" || continue
  out=$(tools/run_seeded.sh $id 2>&1)
  nviol=$(echo "$out" | grep -c '^VIOLATION')
  line=$(echo "$out" | grep 'tier=' | sed 's/.*cases=/cases=/' | tr '\n' ' ')
  if [ "$nviol" -gt 0 ]; then v=CAUGHT; else v=MISSED; fi
  echo "$id $prop $v violations>=$nviol $line" >> $log
done
echo ALLDONE >> $log

#!/bin/bash
# run every claimed check (quick) on /repo sequentially; summary on stdout
cd /verif
for p in $(grep -v '^#' tools/ready.txt | sort); do
  s=$(date +%s)
  out=$(./check $p --tier ${1:-quick} 2>&1); rc=$?
  e=$(( $(date +%s) - s ))
  echo "$p rc=$rc ${e}s $(echo "$out" | grep -c '^KNOWN-FINDING') known; $(echo "$out" | grep 'tier=' | sed 's/.*cases=/cases=/')"
  echo "$out" | grep VIOLATION | head -3
done

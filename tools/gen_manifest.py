#!/venv/bin/python
"""Regenerate /verif/MANIFEST.json from the table below (one entry per property whose check exists)."""
import json, os

V = "/verif"
props = [json.loads(l) for l in open(f"{V}/properties.jsonl")]
base = json.load(open("/root/.vp/BASELINE.json"))

TB = ("Trusted: Coq 8.16.1 kernel + vm_compute (no native_compute, no axioms: every theorem prints 'Closed under the global "
      "context', re-checked from the build on every run); the hand-written Gallina model (modelled, not verified) tied to /repo "
      "by the differential correspondence run and, for the units listed below, by fail-closed source-to-Gallina translators; the "
      "Python harness. ")

CHECKS = {
 "C01": ("proof",
         "Coq theorems over ALL expression trees (any depth), operand shapes and values: the reported shape contains the exact "
         "Python-integer result (shape_sound) and the Python code the simulator compiles for a circuit, evaluated on raw integers, "
         "normalises to that result (rtl_correct); Operator.shape is regenerated from /repo by a translator and proved equal to the model. "
         "Model vs real simulator: exhaustive small scope + seeded random trees by vm_compute.",
         "exec() of generated code, visitor dispatch and the delta-cycle engine are validated by the differential run only.",
         "Coq proof (induction over expression trees) + source-to-Gallina translator + vm_compute differential correspondence"),
 "C02": ("proof",
         "Coq theorems: an assignment through any linear target (slices, part-selects with offsets beyond the target, concatenations, "
         "choices/array elements, sign reinterpretations) changes exactly the addressed bits, in the compiled circuit code "
         "(assign_rtl_bits) — hence last-active-assignment-wins per bit over statement lists —; If/Elif/Else lowering selects exactly "
         "the first true branch; comb/sync process commit masks cover every assignable bit. Model vs real Module DSL + simulator on "
         "generated programs (structural repr tie and per-step observable tie).",
         "Module's context-manager bookkeeping is tied structurally only; FSM encoding order is validated; aliased targets (a signal "
         "named twice in one target) are outside the theorem (known finding F9).",
         "Coq proof (induction over targets/statements) + vm_compute differential correspondence"),
 "C05": ("proof",
         "Coq theorems for ALL expressions/targets: ctx.get(e) (tree-walking evaluator) equals the denotation and hence the value of a "
         "comb signal driven by e (eval_tb_denote, rtl_correct); ctx.set(target, v) (window algorithm) changes exactly the addressed bits "
         "and leaves every signal as the circuit assignment target.eq(v) does (tb_write_equals_circuit), zero-width selectors, negative "
         "values and out-of-range offsets included. Model vs real simulator by vm_compute on generated reads/writes.",
         "TestbenchContext plumbing, Const.cast of written values, slot commit are validated only; targets are linear (no aliasing).",
         "Coq proof + vm_compute differential correspondence"),
 "C10": ("proof",
         "Coq theorems for ALL integers/ranges/enums/constant expressions: bits_for/ceil_log2/exact_log2 exact and minimal; Shape.cast(range) "
         "represents every element, is minimal, signed iff an element is negative; enum shape is the least upper bound of the members' constant "
         "shapes; Const wrap is the unique in-range value congruent mod 2^w; Const.cast(Cat/Slice) equals evaluation. utils.py, Shape._unify, the "
         "range branch, the enum loop body and the Const wrap are regenerated from /repo on every run and proved equal to the model.",
         "CPython range length/indexing is modelled (validated); Signal/MemoryData plumbing validated only.",
         "Coq proof + source-to-Gallina translator with equivalence lemmas + vm_compute differential correspondence"),
 "C12": ("proof",
         "Coq refinement proofs for every width, depth and input sequence: SyncFIFO and SyncFIFOBuffered (cycle-accurate step models) refine a "
         "bounded queue (order, no loss/duplication, r_rdy/r_data, w_rdy never with depth entries, levels exact) and are live. Model vs the real "
         "components in the real simulator: exhaustive strobe words for small parameters, random walks visiting full/empty/wrap.",
         "Elaboration and the simulator are tied by the differential run only.",
         "Coq refinement proof (invariant + induction over input lists) + vm_compute differential correspondence"),
 "C13": ("proof",
         "Coq proofs for all widths/depths and every event list over {write edge, read edge, both}: Gray-code algebra, pointer invariant with ghost "
         "counters, no overflow, FIFO order (read log is a prefix of the write log), r_rdy => oldest unread, levels bounded, bounded drain; both "
         "AsyncFIFO and AsyncFIFOBuffered. Model vs real components with hand-driven clocks: all event words up to length 6-7, random walks.",
         "Write-domain reset path excluded from the theorems (validated only). Known finding F4: depth 1 (buffered: 1, 2) does not elaborate.",
         "Coq invariant proof over all interleavings + vm_compute differential correspondence"),
 "C14": ("proof",
         "Coq theorems over all signature trees: flip involutive, flip reverses every leaf's effective direction through any nesting, created "
         "interface complies (under stated hypotheses with refuted witnesses otherwise), connect assigns only signals from the same path (step-level). "
         "Model vs real wiring API on generated signature trees, tuples and all single-point corruptions; simulation oracle after connect.",
         "connect_ok_spec is partial (step level + global invariant); connect_perm, flatten NoDup, metadata/schema validation are validated only. "
         "Three known findings (init not normalised, flipped array of interfaces, connect of arrays of interfaces).",
         "Coq proof + vm_compute differential correspondence"),
 "C15": ("proof",
         "Coq theorems over all layout trees and bit patterns: struct/union/array placement, const/field round trip (nested), bits round trip, "
         "view field = bit slice reinterpreted = const field, assignment through a view touches only the field, enum round trip, Flag & | ^ and "
         "~ (STRICT/CONFORM) equal Python's. Model vs real lib.data/lib.enum incl. simulator reads/writes.",
         "~ under EJECT/KEEP is partial; CPython enum.Flag rendering validated against the interpreter. Known findings: signed enum fields, wide flag invert.",
         "Coq proof + vm_compute differential correspondence"),
 "C16": ("proof",
         "Coq theorems for all CRC parameters, data widths and word sequences: compute = Williams bit-serial model; hardware processor = compute for any "
         "start/valid schedule; matrices correct; catalogue check/residue values (finite forallb over the committed table); residue match, and no false "
         "match for odd polynomials (refuted witness for even ones). Model vs real Parameters/Processor.",
         "Published table committed under /verif/data; live catalog.py compared by the run.",
         "Coq proof (bit-level invariants, GF(2) linearity) + vm_compute differential correspondence"),
 "C17": ("proof",
         "Coq theorems for all stage counts, shapes, inits and event lists: FFSynchronizer latency exactly `stages` edges; AsyncFF/ResetSynchronizer "
         "assert immediately and release after exactly `stages` edges; PulseSynchronizer conservation / single-cycle pulses under the separation "
         "hypothesis (with a witness that it is needed). Model vs real components with hand-driven clocks.",
         "RequirePosedge rejection and negedge domains are validated only.",
         "Coq proof over all interleavings + vm_compute differential correspondence"),
 "C18": ("proof",
         "Coq theorems for every width, mask and direction: Buffer out/in/bidirectional loop-back per bit, FFBuffer exactly one stage per direction, "
         "port slicing/concatenation/inversion algebra (Python slice semantics), each port bit used by exactly one IOBuffer cell, inversion on the "
         "fabric side. Model vs real lib.io in the simulator and via build_netlist.",
         "Simulator settling and netlist emission are validated only. Known finding: aliased simulation-port expressions (simulator LHS read-modify-write).",
         "Coq proof + vm_compute differential correspondence"),
 "C19": ("proof",
         "Coq theorems by induction over request histories: at most once, pins injective, refused request leaves state unchanged, port bits in declared "
         "order with declared inversion/direction, connector chains resolve (acyclic tables), constraints exact. Model vs real ResourceManager on generated "
         "tables/histories; rendered .pcf/.lpf/.cst parsed and compared.",
         "Rendered constraint files (Jinja) are validated only. Known finding S4: cyclic connector tables hang.",
         "Coq proof (induction over histories) + vm_compute differential correspondence"),
 "C20": ("proof",
         "Coq theorems about the format-spec grammar, a Gallina rendering of CPython integer formatting (totality, width, digit round trip, sign/zero fill, "
         "c/s), value formatted in its own shape, Print/Assert activity and first-failure stop over all edge lists. The CPython rendering is tied to the real "
         "interpreter by exhaustive grammar sweeps; simulator stdout/AssertionError compared on generated designs.",
         "Equality with CPython str.format is validated (whole accepted grammar), not proved. Known finding: brace fill characters.",
         "Coq proof + vm_compute differential correspondence (model vs CPython vs simulator)"),
 "C11": ("proof",
         "Coq theorems: memory ports refine an array of rows (write granules, async/sync/transparent reads, hold, row access) for any port set and edge "
         "sequence under a stated collision hypothesis. Model vs real lib.memory in the simulator; RTLIL memory cell parameters compared.",
         "Cross-domain same-edge write collisions excluded (undefined in hardware). RTLIL cell parameters validated only.",
         "Coq refinement proof + vm_compute differential correspondence"),
 "C03": ("proof",
         "Coq theorems over arbitrary event sequences: sync bits change only at their own domain's active edge, reset/reset-less/async reset rules, "
         "Reset/EnableInserter/DomainRenamer semantics and composition. Model vs real transformers (structural) and simulator (observable).",
         "Memory-port gating is outside this model. Known finding F7 (async reset rise runs the sync process).",
         "Coq proof + vm_compute differential correspondence"),
 "C08": ("proof",
         "Coq theorems: one delta is independent of the process order under write-disjointness; commit order independence; exact clock/delay timeline. "
         "Real simulator run under permuted set iteration orders (no source change) and compared trace by trace.",
         "Coroutine mechanics are outside the model (explored by permutation runs).",
         "Coq proof + schedule permutation exploration"),
 "C06": ("proof",
         "Coq theorems: the driver check rejects exactly the conflicting designs; the cycle DFS is sound (and complete as stated); per-bit precision. "
         "Model verdict vs real rtlil.convert/build_netlist on systematic placements and dependency graphs.",
         "Known finding S2 (early DSL check over-approximates part-selects).",
         "Coq proof + vm_compute differential correspondence"),
 "C07": ("translation_validation",
         "A Coq-proved sound and complete validator (wf_doc) for the property's structural clauses; every RTLIL document emitted for generated designs "
         "is parsed by a strict reader and validated by vm_compute. The universal quantifier over designs is explored, not proved.",
         "RTLIL grammar reader is trusted glue. Known finding S3 (name collision assertion).",
         "certified checker (Coq) + per-output validation"),
 "C09": ("proof",
         "Coq theorems: sorted iteration makes domain creation order-independent (refuted without sorting), name assignment deterministic, build-plan "
         "digest/archive depend only on the file set. Cross-interpreter reproducibility explored over hash seeds; reset/rerun, plan/archive/extract compared.",
         "Independence from PYTHONHASHSEED is explored over k seeds, not proved.",
         "Coq proof of ordering steps + multi-interpreter exploration"),
 "C04": ("translation_validation",
         "Layer A: Coq theorems that each operator lowering (cell choice, operand extension, signedness, zero-divisor guard, $shift part-select), processes and "
         "flip-flops compute the Python-integer spec for all widths/values. Layer B: each emitted RTLIL document is read and executed by the same Gallina "
         "semantics inside Coq and compared with the simulator's trace.",
         "RTLIL cell semantics are written from the Yosys documentation as known (no Yosys offline) — a trusted assumption.",
         "Coq proof of per-construct lowering + per-design translation validation in Coq"),
}

# state at the end of the build (overrides the level notes above; see DESIGN.md §9.2 for the full table)
import re as _re
UNITS = {}
for _pid in CHECKS:      # read from the property modules, so the manifest follows what the checks actually regenerate
    _t = open(f"{V}/harness/props/{_pid.lower()}.py").read()
    _m = _re.search(r"^TRANSLATOR_UNITS\s*=\s*\[(.*?)\]", _t, flags=_re.M)
    _u = _re.findall(r"\"([a-z_0-9]+)\"", _m.group(1)) if _m else []
    if _u:
        UNITS[_pid] = ", ".join(_u)
NOTE_NOW = {
 "C01": "exec() of generated code and the engine are validated by the differential run only; the simulator's RHS code templates are regenerated (unit pyrtl_rhs) except on_SwitchValue/_emit_switch; CPython slice.indices/range are read by hand-written definitions compared with the interpreter.",
 "C02": "Targets are linear (known finding F9, exact filter); the simulator's LHS/statement code generator is regenerated (unit pyrtl_lhs) except _emit_switch and the whole-process fold; FSM lowering, Case pattern normalisation and the settle loop are in the model; which domains get a Switch and Module's context-manager bookkeeping are validated only.",
 "C03": "Renamer at the root / merging domains and controls wider than 1 bit are validated only; late-bound ClockSignal/ResetSignal resolution over hierarchies with shadowing domains is modelled (Model/DomScope.v) and proved equal to lexical scoping; two defects repaired in /repo (574e1db, 15105ec).",
 "C04": "Layer B is per design (translation validation against the RTLIL semantics of RtlilSem.v, an assumption: no Yosys offline); NetlistEmitter.emit_assign/extend/emit_match are regenerated (unit ir), emit_stmt/emit_operator are not. Known finding: part-select signed $shift reading. Open machinery issue (DESIGN.md, paragraph above §9.3): the THOROUGH tier currently reports 3 designs on the unchanged tree because the harness expects a port whose only assignments have zero-width targets to be an output (it is an input since the repair f667bed) — a false alarm of the harness to be corrected; the quick tier is unaffected.",
 "C05": "Aliased targets (F9) are compared model-vs-code only.",
 "C06": "driver_check_iff, the early-conflict and cycle clauses are unbounded; the zero-width-driver defect was repaired in /repo (f667bed). Known finding S2 (deliberate over-approximation of the early DSL check).",
 "C07": "translation_validation: structural well-formedness is decided per emitted document by a checker proved sound and complete w.r.t. its specification; the quantifier over designs is explored. Constants, escapes, attribute/parameter/wire/memory lines and name allocation of back/rtlil.py are regenerated (unit rtlil) and proved to print the concrete syntax of the model's parsed values. Five open findings (port name collision, whitespace in names, field-wire collision, dotted module names, partially used IOPort).",
 "C08": "Process replacement and coroutine mechanics are validated by the differential run (6-40 permuted set orders per scenario). Known finding S1.",
 "C09": "Byte-identical RTLIL / traces / plans are explored across 11-29 PYTHONHASHSEED values, repeated runs and two conversions of one and the same design object; theorems cover the order-independence of the modelled steps, naming, digest, archive/extract, reset and that prepare leaves user-held fragments unchanged (defect repaired in /repo, 7ce2038).",
 "C10": "CPython range length/indexing is modelled (validated).",
 "C11": "RTLIL agreement is checked by running the converted design under RtlilSem.v where RTLIL is defined; the simulator's memory-port code is regenerated (unit mem); lib/memory.py is tied by the differential run only (incl. reuse of one design by a reset or a second simulator).",
 "C12": "Elaboration is tied for all widths/depths by the fifo translator unit; the simulator by the differential run.",
 "C13": "Known finding F4 (depth 1 does not elaborate; its index condition is regenerated from the source); the two-clock wiring of AsyncFIFO.elaborate is tied by the differential run only; reset behaviour beyond the property text is recorded as observations only.",
 "C14": "Which of several coexisting defects is reported first, JSON-schema validation, is_compliant and connect() as code are validated only (their models are hand-written). Two known findings (arrays of interfaces under flip / connect); the init-normalisation defect was repaired in /repo (8bdaf9d).",
 "C15": "~ under EJECT/KEEP is partial; CPython enum.Flag behaviour validated against the interpreter. Known findings: signed enum fields, wide flag invert.",
 "C16": "Published table committed under /verif/data; live catalog.py compared by the run. Known finding: even polynomials give a second matching trailer.",
 "C17": "ResetSynchronizer is an alias of AsyncFFSynchronizer in the code and in the model; all four elaborate methods are regenerated by symbolic execution (unit cdc); the event framing of the simulator is the unit's trusted reading.",
 "C18": "Known finding C18-SIM-LHS-ALIAS (exact filter: the observation must equal the model of the simulator's read-modify-write lowering). Port algebra and constructor checks are regenerated (unit io); Buffer/FFBuffer.elaborate beyond the inversion constant are tied by the differential run only.",
 "C19": "Rendered constraint files are compared line by line in file order (validated); the bodies of merge_options/resolve are hand-modelled (parameters of the regenerated request).",
 "C20": "CPython str.format rendering validated against the interpreter; the format-spec regex is regenerated and equal to the model's parser on a stated finite string domain only (…_bounded_partial), the checks after the match for all inputs. Known finding: brace fill.",
}

READY = [l.strip() for l in open(f"{V}/tools/ready.txt") if l.strip() and not l.startswith("#")]
checks = []
na = []
for p in props:
    pid = p["id"]
    have = os.path.exists(f"{V}/harness/props/{pid.lower()}.py") and os.path.exists(f"{V}/coq/Props/{pid}.v") \
        and pid in CHECKS and pid in READY
    if not have:
        na.append({"property_id": pid, "reason": "check not completed in this session (model/correspondence in progress); "
                   "not a claim that the technique cannot apply — see DESIGN.md §8"})
        continue
    level, text, note, tech = CHECKS[pid]
    checks.append({
        "property_id": pid,
        "quick_cmd": f"./check {pid} --tier quick",
        "thorough_cmd": f"./check {pid} --tier thorough",
        "evidence_file": f"/verif/evidence/{pid}.json",
        "replay_cmd_template": f"./check {pid} --replay {{path}}",
        "engine": "coq-model",
        "level_claimed": {"category": level, "text": text, "design_ref": f"DESIGN.md §6 {pid}"},
        "level_note": TB + (f"Source regenerated into Gallina on every run by translator unit(s) {UNITS[pid]} and proved equal to the "
                            f"model for all inputs (Proofs/GenEq*.v). " if pid in UNITS else "") + NOTE_NOW.get(pid, note),
        "technique": tech + (" + source-to-Gallina translator with equivalence lemmas" if pid in UNITS and "translator" not in tech else ""),
    })
m = {
    "version": 1,
    "setup_cmd": "./setup.sh",
    "hooks": {"guard": "AMARANTH_VERIF",
              "enable": "no source hooks are used; checks import amaranth from /repo's working tree (PYTHONPATH=/repo)",
              "baseline_off_cmd": base["cmd"].replace("--junitxml=<file>", "").strip(),
              "source_commits": [], "add_only": True},
    "engines": [{"name": "coq-model", "path": "/verif/coq",
                 "serves_properties": [c["property_id"] for c in checks],
                 "kind_free_text": "hand-written Gallina models + theorems (Coq 8.16.1, stdlib only, no axioms), executed by vm_compute "
                                   "against the implementation on generated cases; translator-regenerated units in coq/Gen"}],
    "checks": checks,
    "notes": "Single entry point ./check <ID> [--tier quick|thorough] [--replay FILE]. Known findings in /verif/known_findings.json. See DESIGN.md.",
    "not_applicable": na,
}
json.dump(m, open(f"{V}/MANIFEST.json", "w"), indent=1)
print("claimed:", [c["property_id"] for c in checks], "not claimed:", [n["property_id"] for n in na])

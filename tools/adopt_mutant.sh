#!/bin/bash
# tools/adopt_mutant.sh <src_out_dir> <worktree> <seeded-id> : verify a seeded change (demo passes on HEAD, fails with the
# patch; stable tests still pass) and store it under /verif/seeded/<id>/
set -u
out=$1; wt=$2; id=$3
dst=/verif/seeded/$id
mkdir -p $dst
cp $out/patch.diff $out/demo.py $out/meta.json $dst/ 2>/dev/null
chk=$(mktemp -d /tmp/adopt_XXXX)
git -C /repo worktree add -q --detach $chk HEAD
echo "--- demo on HEAD (expect exit 0)"; (cd $chk && PYTHONPATH=$chk timeout 300 /venv/bin/python $dst/demo.py 2>&1 | grep -v conda | tail -3; echo "exit=${PIPESTATUS[0]}")
git -C $chk apply $dst/patch.diff && echo "patch applies"
echo "--- demo with patch (expect exit 1)"; (cd $chk && PYTHONPATH=$chk timeout 300 /venv/bin/python $dst/demo.py 2>&1 | grep -v conda | tail -4; echo "exit=${PIPESTATUS[0]}")
echo "--- stable tests with patch"
(cd $chk && /venv/bin/python - <<PY
import json, subprocess, os, tempfile, xml.etree.ElementTree as ET
base = json.load(open("/root/.vp/BASELINE.json"))
out = tempfile.mktemp(suffix=".xml", dir="/tmp")
subprocess.run(base["cmd"].replace("cd /repo", "cd $chk").replace("<file>", out), shell=True, capture_output=True, text=True)
passed = set()
for tc in ET.parse(out).getroot().iter("testcase"):
    if not any(ch.tag in ("failure", "error", "skipped") for ch in tc):
        passed.add(f"{tc.get('classname')}::{tc.get('name')}")
os.remove(out)
missing = [t for t in base["stable_pass"] if t not in passed]
print("stable_pass missing with patch:", len(missing), missing[:5])
PY
) 2>&1 | grep -v conda
git -C /repo worktree remove --force $chk

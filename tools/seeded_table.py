#!/usr/bin/env python3
"""Print the markdown table of seeded changes (DESIGN §9.5) from seeded/*/meta.json."""
import json, os, sys
root = os.path.join(os.path.dirname(os.path.dirname(os.path.abspath(__file__))), "seeded")
print("| seeded id | property | needs | outcome |")
print("|-----------|----------|-------|---------|")
for d in sorted(os.listdir(root)):
    p = os.path.join(root, d, "meta.json")
    if not os.path.exists(p):
        continue
    m = json.load(open(p))
    needs = " ".join(str(m.get("needs", "")).split())
    needs = needs if len(needs) <= 170 else needs[:167] + "..."
    out = " ".join(str(m.get("outcome", "?")).split())
    out = out.replace("MISSED", "**missed**")
    print(f"| {d} | {m.get('property')} | {needs} | {out} |")

"""C10 — shape casting and constant normalisation are exact and minimal."""
import enum, itertools, random
from common import z, zlist, blit

ID = "C10"
LEVEL = "proof"
PROPS_FILE = "C10.v"
RUN_MODULE = "RunC10"
TRANSLATOR_UNITS = ["utils", "shape"]
RULE = ("exhaustive small scope (ranges start,stop in [-20,20] x step in [-5,5]\\{0} in thorough, [-9,9]x[-3,3] quick; "
        "Const(v,shape) |v|<=70 x width<=6; enums from multisets of <=3 values in [-9,9]; bit helpers -300..300) "
        "+ seeded random around +-2^k (k<=70) + malformed (invalid shapes, out-of-range inits). "
        "non-trivial = the model answer is not an error and the input is not all-zero; distinct by case hash")
MODELLED = ("Shape.cast(range/Enum), Const.__init__, Const.cast(Cat/Slice), utils.bits_for/ceil_log2/exact_log2 are "
            "modelled in coq/Model/Shape.v; utils.py, Shape._unify, range branch, enum loop body and Const wrap are "
            "additionally regenerated from source (coq/Gen) and proved equal to the model; CPython's len(range)/range[-1], "
            "enum iteration and Signal/MemoryData plumbing are validated only")
ASSUMPTIONS = ["CPython range semantics as modelled by Shape.range_len/range_nth (validated by the run)"]


def classify(c):
    return c["k"]


def nontrivial(c, obs):
    if obs and obs[0] == 0 and c["k"] in ("ceil_log2", "exact_log2", "const", "const_int", "const_cast", "init_range"):
        return False
    return any(v not in (0, None) for v in _ints(c))


def _ints(c):
    for k, v in c.items():
        if isinstance(v, int):
            yield v
        elif isinstance(v, list):
            for x in v:
                if isinstance(x, int):
                    yield x
                else:
                    yield 1


def gen_cases(tier, seed):
    rng = random.Random(seed)
    cases = []
    thorough = tier == "thorough"
    B = 300 if not thorough else 2000
    for n in range(-B, B + 1):
        cases.append({"k": "bits_for", "n": n, "b": False})
        cases.append({"k": "bits_for", "n": n, "b": True})
    for n in range(-20, (300 if not thorough else 5000)):
        cases.append({"k": "ceil_log2", "n": n})
        cases.append({"k": "exact_log2", "n": n})
    R, S = (9, 3) if not thorough else (20, 5)
    for a in range(-R, R + 1):
        for b in range(-R, R + 1):
            for st in range(-S, S + 1):
                if st:
                    cases.append({"k": "range", "a": a, "b": b, "st": st})
    vals = list(range(-9, 10))
    for n in range(0, 3 if not thorough else 4):
        for ms in itertools.combinations_with_replacement(vals, n):
            if n == 3 and not thorough and rng.random() < 0.5:
                continue
            if n == 4 and rng.random() < 0.9:
                continue
            cases.append({"k": "enum", "ms": list(ms)})
    for w in range(0, 7):
        for sg in (False, True):
            for v in range(-70, 71, 1 if thorough else 3):
                cases.append({"k": "const", "v": v, "w": w, "sg": sg})
                if w > 0 or not sg:
                    cases.append({"k": "init", "v": v, "w": w, "sg": sg})
    for v in range(-70, 71):
        cases.append({"k": "const_auto", "v": v})
        for w in (-1, 0, 1, 3, 6):
            cases.append({"k": "const_int", "v": v, "w": w})
    # random around powers of two
    N = 600 if not thorough else 20000
    def big():
        k = rng.randrange(0, 71)
        return rng.choice((1, -1)) * ((1 << k) + rng.randrange(-3, 4))
    for _ in range(N):
        n = big()
        cases.append({"k": "bits_for", "n": n, "b": rng.random() < 0.5})
        cases.append({"k": "ceil_log2", "n": n})
        cases.append({"k": "exact_log2", "n": abs(n) if rng.random() < 0.8 else 1 << rng.randrange(0, 70)})
        def mid():
            k = rng.randrange(0, 61)
            return rng.choice((1, -1)) * ((1 << k) + rng.randrange(-3, 4))
        a, b = mid(), mid()
        st = rng.choice((1, -1)) * rng.choice((1, 2, 3, 7, 1 << rng.randrange(0, 40), abs(a - b) // 3 + 1))
        cases.append({"k": "range", "a": a, "b": b, "st": st})
        cases.append({"k": "enum", "ms": [big() if rng.random() < 0.7 else rng.randrange(-3, 4) for _ in range(rng.randrange(1, 5))]})
        w = rng.randrange(0, 72)
        sg = rng.random() < 0.5
        cases.append({"k": "const", "v": big(), "w": w, "sg": sg})
        cases.append({"k": "init", "v": big(), "w": max(w, 1 if sg else 0), "sg": sg})
        cases.append({"k": "const_auto", "v": big()})
        cases.append({"k": "const_int", "v": big(), "w": rng.randrange(-1, 70)})
    # range-shaped signal inits
    for _ in range(N):
        a, b = rng.randrange(-12, 13), rng.randrange(-12, 13)
        st = rng.choice((1, 1, 2, 3, -1, -2, -3))
        cases.append({"k": "init_range", "a": a, "b": b, "st": st, "v": rng.randrange(-15, 16)})
    # constant expressions
    def cexpr(d):
        r = rng.random()
        if d == 0 or r < 0.3:
            sg = rng.random() < 0.4
            w = rng.randrange(1 if sg else 0, 7)
            return ["c", rng.randrange(-40, 41), w, sg]
        if r < 0.7:
            return ["cat", [cexpr(d - 1) for _ in range(rng.randrange(0, 4))]]
        e = cexpr(d - 1)
        n = cwidth(e)
        lo = rng.randrange(0, n + 1)
        hi = rng.randrange(lo, n + 1)
        if rng.random() < 0.08:
            hi = n + 1 + rng.randrange(0, 2)   # malformed
        return ["sl", e, lo, hi]
    for _ in range(N):
        cases.append({"k": "const_cast", "e": cexpr(rng.randrange(1, 4 if not thorough else 6))})
    return cases


def cwidth(e):
    if e[0] == "c":
        return e[2]
    if e[0] == "cat":
        return sum(cwidth(p) for p in e[1])
    return e[3] - e[2]


def _sh(s):
    return [s.width, int(s.signed)]


def run_impl(c):
    from amaranth.hdl import Shape, Const, Cat, Signal
    from amaranth.hdl._ast import Slice
    from amaranth import utils
    k = c["k"]
    try:
        if k == "bits_for":
            return [utils.bits_for(c["n"], c["b"])]
        if k == "ceil_log2":
            try:
                return [1, utils.ceil_log2(c["n"])]
            except ValueError:
                return [0]
        if k == "exact_log2":
            try:
                return [1, utils.exact_log2(c["n"])]
            except ValueError:
                return [0]
        if k == "range":
            return _sh(Shape.cast(range(c["a"], c["b"], c["st"])))
        if k == "enum":
            E = enum.Enum("E", {f"M{i}": v for i, v in enumerate(c["ms"])})
            return _sh(Shape.cast(E))
        if k == "const":
            try:
                return [1, Const(c["v"], Shape(c["w"], c["sg"])).value]
            except TypeError:
                return [0]
        if k == "const_auto":
            k_ = Const(c["v"])
            return _sh(k_.shape()) + [k_.value]
        if k == "const_int":
            try:
                k_ = Const(c["v"], c["w"])
                return [1] + _sh(k_.shape()) + [k_.value]
            except TypeError:
                return [0]
        if k == "init":
            return [Signal(Shape(c["w"], c["sg"]), init=c["v"]).init]
        if k == "init_range":
            try:
                return [1, Signal(range(c["a"], c["b"], c["st"]), init=c["v"]).init]
            except Exception as e:
                if type(e).__name__ == "SyntaxError":   # amaranth.hdl._ast.SyntaxError
                    return [0]
                raise
        if k == "const_cast":
            def build(e):
                if e[0] == "c":
                    return Const(e[1], Shape(e[2], e[3]))
                if e[0] == "cat":
                    return Cat(*[build(p) for p in e[1]])
                return Slice(build(e[1]), e[2], e[3])
            try:
                k_ = Const.cast(build(c["e"]))
                return [1, k_.value] + _sh(k_.shape())
            except (IndexError, TypeError):
                return [0]
    except Exception as e:
        return [-1, sum(map(ord, type(e).__name__))]
    raise ValueError(k)


def _cexpr(e):
    if e[0] == "c":
        return f"(CConst {z(e[1])} (Sh {z(e[2])} {blit(e[3])}))"
    if e[0] == "cat":
        return "(CCat [" + "; ".join(_cexpr(p) for p in e[1]) + "])"
    return f"(CSlice {_cexpr(e[1])} {z(e[2])} {z(e[3])})"


def coq_term(c):
    k = c["k"]
    if k == "bits_for":
        return f"k_bits_for {z(c['n'])} {blit(c['b'])}"
    if k in ("ceil_log2", "exact_log2"):
        return f"k_{k} {z(c['n'])}"
    if k == "range":
        return f"k_range {z(c['a'])} {z(c['b'])} {z(c['st'])}"
    if k == "enum":
        return f"k_enum {zlist(c['ms'])}"
    if k == "const":
        return f"k_const {z(c['v'])} {z(c['w'])} {blit(c['sg'])}"
    if k == "const_auto":
        return f"k_const_auto {z(c['v'])}"
    if k == "const_int":
        return f"k_const_int {z(c['v'])} {z(c['w'])}"
    if k == "init":
        return f"k_init {z(c['v'])} {z(c['w'])} {blit(c['sg'])}"
    if k == "init_range":
        return f"k_init_range {z(c['a'])} {z(c['b'])} {z(c['st'])} {z(c['v'])}"
    if k == "const_cast":
        return f"k_const_cast {_cexpr(c['e'])}"
    raise ValueError(k)


def explain(c):
    return "model answer encodes: shapes as [width, signed], optional results as [1, value] / [0] (rejected)"

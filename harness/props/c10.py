"""C10 — shape casting and constant normalisation are exact and minimal."""
import enum, itertools, random
from common import z, zlist, blit
import exprgen as G

ID = "C10"
LEVEL = "proof"
PROPS_FILE = "C10.v"
RUN_MODULE = "RunC10"
TRANSLATOR_UNITS = ["utils", "shape"]
RULE = ("[after the audit: + Signal init / MemoryData rows given as int, bool, IntEnum and Enum members, Const, Cat, Slice on Shape and "
        "range shapes (exhaustive small ranges x values, rows beyond depth), Const(v, range), Const(member[, shape]), enumeration "
        "classes of every kind (Enum, IntEnum, Flag, IntFlag, amaranth.lib.enum with/without shape=, Const-valued members), "
        "int/bool/enum parts in Const.cast] exhaustive small scope (ranges start,stop in [-20,20] x step in [-5,5]\\{0} in thorough, [-9,9]x[-3,3] quick; "
        "Const(v,shape) |v|<=70 x width<=6; enums from multisets of <=3 values in [-9,9]; bit helpers -300..300) "
        "+ seeded random around +-2^k (k<=70) + malformed (invalid shapes, out-of-range inits). "
        "non-trivial = the model answer is not an error and the input is not all-zero; distinct by case hash")
MODELLED = ("Shape.cast(range/Enum), Const.__init__, Const.cast(Cat/Slice), utils.bits_for/ceil_log2/exact_log2 are "
            "modelled in coq/Model/Shape.v; utils.py, Shape._unify, range branch, enum loop body and Const wrap are "
            "additionally regenerated from source (coq/Gen) and proved equal to the model; CPython's len(range)/range[-1], "
            "enum member iteration (cls.__members__: every declared member, aliases and multi-bit Flag members included), _get_init_value and MemoryData.Init "
            "(coq/Model/Cast.v get_init_value / mem_init) are hand-modelled and validated by the run")
ASSUMPTIONS = ["CPython range semantics as modelled by Shape.range_len/range_nth (validated by the run)"]


def _ikind(i):
    if i is None:
        return "None"
    if isinstance(i, bool):
        return "bool"
    if isinstance(i, int):
        return "int"
    return {"ie": "IntEnum", "en": "Enum", "c": "Const", "cat": "Cat", "sl": "Slice", "pi": "int", "b": "bool"}[i[0]]


def classify(c):
    k = c["k"]
    if k == "init_x":
        return f"init_x:{c['sp'][0]}:{_ikind(c['i'])}"
    if k == "mem_init":
        return f"mem_init:{c['sp'][0]}:" + "+".join(sorted({_ikind(i) for i in c["elems"]}) or ["empty"])
    if k in ("enum_cls", "const_member"):
        return f"{k}:{c['cls']}" + (":shape=" if c.get("shape") is not None else "")
    return k


def nontrivial(c, obs):
    if obs and obs[0] == 0 and c["k"] in ("ceil_log2", "exact_log2", "const", "const_int", "const_cast", "init_range",
                                           "init_x", "mem_init", "const_member", "enum_cls"):
        return False
    return any(v not in (0, None) for v in _ints(c))


def _ints(c):
    for k, v in c.items():
        if isinstance(v, int):
            yield v
        elif isinstance(v, list):
            for x in v:
                if isinstance(x, int):
                    yield x
                else:
                    yield 1


def gen_cases(tier, seed):
    rng = random.Random(seed)
    cases = []
    thorough = tier == "thorough"
    B = 300 if not thorough else 2000
    for n in range(-B, B + 1):
        cases.append({"k": "bits_for", "n": n, "b": False})
        cases.append({"k": "bits_for", "n": n, "b": True})
    for n in range(-20, (300 if not thorough else 5000)):
        cases.append({"k": "ceil_log2", "n": n})
        cases.append({"k": "exact_log2", "n": n})
    R, S = (9, 3) if not thorough else (20, 5)
    for a in range(-R, R + 1):
        for b in range(-R, R + 1):
            for st in range(-S, S + 1):
                if st:
                    cases.append({"k": "range", "a": a, "b": b, "st": st})
    vals = list(range(-9, 10))
    for n in range(0, 3 if not thorough else 4):
        for ms in itertools.combinations_with_replacement(vals, n):
            if n == 3 and not thorough and rng.random() < 0.5:
                continue
            if n == 4 and rng.random() < 0.9:
                continue
            cases.append({"k": "enum", "ms": list(ms)})
    for w in range(0, 7):
        for sg in (False, True):
            for v in range(-70, 71, 1 if thorough else 3):
                cases.append({"k": "const", "v": v, "w": w, "sg": sg})
                if w > 0 or not sg:
                    cases.append({"k": "init", "v": v, "w": w, "sg": sg})
    for v in range(-70, 71):
        cases.append({"k": "const_auto", "v": v})
        for w in (-1, 0, 1, 3, 6):
            cases.append({"k": "const_int", "v": v, "w": w})
    # random around powers of two
    N = 600 if not thorough else 20000
    def big():
        k = rng.randrange(0, 71)
        return rng.choice((1, -1)) * ((1 << k) + rng.randrange(-3, 4))
    for _ in range(N):
        n = big()
        cases.append({"k": "bits_for", "n": n, "b": rng.random() < 0.5})
        cases.append({"k": "ceil_log2", "n": n})
        cases.append({"k": "exact_log2", "n": abs(n) if rng.random() < 0.8 else 1 << rng.randrange(0, 70)})
        def mid():
            k = rng.randrange(0, 61)
            return rng.choice((1, -1)) * ((1 << k) + rng.randrange(-3, 4))
        a, b = mid(), mid()
        st = rng.choice((1, -1)) * rng.choice((1, 2, 3, 7, 1 << rng.randrange(0, 40), abs(a - b) // 3 + 1))
        cases.append({"k": "range", "a": a, "b": b, "st": st})
        cases.append({"k": "enum", "ms": [big() if rng.random() < 0.7 else rng.randrange(-3, 4) for _ in range(rng.randrange(1, 5))]})
        w = rng.randrange(0, 72)
        sg = rng.random() < 0.5
        cases.append({"k": "const", "v": big(), "w": w, "sg": sg})
        cases.append({"k": "init", "v": big(), "w": max(w, 1 if sg else 0), "sg": sg})
        cases.append({"k": "const_auto", "v": big()})
        cases.append({"k": "const_int", "v": big(), "w": rng.randrange(-1, 70)})
    # range-shaped signal inits
    for _ in range(N):
        a, b = rng.randrange(-12, 13), rng.randrange(-12, 13)
        st = rng.choice((1, 1, 2, 3, -1, -2, -3))
        cases.append({"k": "init_range", "a": a, "b": b, "st": st, "v": rng.randrange(-15, 16)})
    # constant expressions
    def cexpr(d, ext=False, part=False):
        r = rng.random()
        if ext and part and rng.random() < 0.3:
            # a Cat part that is not a Value: int, bool, enum member (Value.cast applies)
            q = rng.random()
            if q < 0.5:
                return ["pi", rng.randrange(-9, 10)]
            if q < 0.65:
                return ["b", rng.random() < 0.5]
            ms = sorted({rng.randrange(-5, 9) for _ in range(rng.randrange(1, 4))})
            return [rng.choice(("ie", "en")), rng.choice(ms), ms]
        if d == 0 or r < 0.3:
            sg = rng.random() < 0.4
            w = rng.randrange(1 if sg else 0, 7)
            return ["c", rng.randrange(-40, 41), w, sg]
        if r < 0.7:
            return ["cat", [cexpr(d - 1, ext, True) for _ in range(rng.randrange(0, 4))]]
        e = cexpr(d - 1, ext)
        n = cwidth(e)
        lo = rng.randrange(0, n + 1)
        hi = rng.randrange(lo, n + 1)
        if not ext and rng.random() < 0.08:
            hi = n + 1 + rng.randrange(0, 2)   # malformed
        return ["sl", e, lo, hi]
    for _ in range(N):
        cases.append({"k": "const_cast", "e": cexpr(rng.randrange(1, 4 if not thorough else 6))})
    # ---------------- added after the coverage audit ----------------
    SHAPES = [["sh", w, sg] for w in (0, 1, 3, 4) for sg in (False, True) if w or not sg]
    def rand_init(shape_w):
        """an `init=` value: int / bool / IntEnum member / Enum member / Const / Cat / Slice"""
        r = rng.random()
        v = rng.randrange(-(1 << shape_w) - 2, (1 << shape_w) + 3)
        if r < 0.25:
            return v
        if r < 0.3:
            return ["b", rng.random() < 0.5]
        if r < 0.45:
            ms = sorted({v, rng.randrange(-9, 10), rng.randrange(0, 4)})
            return [rng.choice(("ie", "en")), v, ms]
        if r < 0.5:
            return None
        return cexpr(rng.randrange(0, 3), ext=True)
    # Signal(shape, init=<every kind>) on Shape shapes: exhaustive small values; then random
    for sp in SHAPES:
        w = sp[1]
        for v in range(-(1 << w) - 1, (1 << w) + 2):
            ms = sorted({v, 0, 3})
            cases.append({"k": "init_x", "sp": sp, "i": ["ie", v, ms]})
            cases.append({"k": "init_x", "sp": sp, "i": ["en", v, ms]})
            for csh in ([w + 1, True], [max(1, w), False], [w + 2, False]):
                cases.append({"k": "init_x", "sp": sp, "i": ["c", v, csh[0], csh[1]]})
            cases.append({"k": "init_x", "sp": sp, "i": ["cat", [["c", v, 2, False], ["c", v >> 2, max(1, w), True]]]})
            cases.append({"k": "init_x", "sp": sp, "i": ["sl", ["c", v, w + 3, True], 1, w + 2]})
        cases.append({"k": "init_x", "sp": sp, "i": None})
        cases.append({"k": "init_x", "sp": sp, "i": ["b", True]})
    # ... and on range shapes: every small range x every kind of init at, around and inside the range
    RR = 5 if not thorough else 8
    for a in range(-RR, RR + 1):
        for b in range(-RR, RR + 1):
            for st in (1, 2, -1, -3):
                if not thorough and (a + b + st) % 3:
                    continue
                sp = ["rg", a, b, st]
                elems = list(range(a, b, st))
                probe = sorted(set([a, b, a - st, b - st, b + st, 0] + elems[:2] + elems[-1:]))
                for v in probe:
                    # the same value as an int, an IntEnum member, a plain Enum member, a Const: accepted iff the VALUE is an element
                    cases.append({"k": "init_x", "sp": sp, "i": v})
                    cases.append({"k": "init_x", "sp": sp, "i": ["ie", v, sorted({v, 1})]})
                    cases.append({"k": "init_x", "sp": sp, "i": ["en", v, sorted({v, 1})]})
                    cases.append({"k": "init_x", "sp": sp, "i": ["c", v, 5, True]})
                v = rng.choice(probe)
                cases.append({"k": "init_x", "sp": sp, "i": ["cat", [["c", v, 5, True]]]})
                cases.append({"k": "init_x", "sp": sp, "i": ["sl", ["c", 2 * v + 1, 7, True], 1, 6]})
                cases.append({"k": "init_x", "sp": sp, "i": None})
                # the same range as the shape of memory rows
                row = [rng.choice(elems) if elems and rng.random() < 0.8 else rng.choice(probe) for _ in range(rng.randrange(0, 4))]
                row = [x if rng.random() < 0.5 else rng.choice((["c", x, 5, True], ["en", x, sorted({x, 2})], ["ie", x, sorted({x, 2})]))
                       for x in row]
                cases.append({"k": "mem_init", "sp": sp, "depth": len(row) + rng.randrange(0, 3), "elems": row})
                cases.append({"k": "const_range", "v": rng.choice(probe + [b, a + 100, -77]), "a": a, "b": b, "st": st})
    # MemoryData rows on Shape shapes: wrapped like Const; every kind of element; too many elements; default rows
    for sp in SHAPES:
        w = sp[1]
        for v in range(-(1 << w) - 1, (1 << w) + 2):
            cases.append({"k": "mem_init", "sp": sp, "depth": 3, "elems": [v, -v]})
        for _ in range(40 if not thorough else 400):
            n = rng.randrange(0, 5)
            depth = n + rng.choice((0, 0, 1, 3, -1)) if n else rng.choice((0, 2))
            cases.append({"k": "mem_init", "sp": sp, "depth": depth, "elems": [rand_init(w) for _ in range(n)]})
    for _ in range(N):
        sg = rng.random() < 0.5
        sp = ["sh", rng.randrange(1 if sg else 0, 70), sg]
        cases.append({"k": "init_x", "sp": sp, "i": rand_init(rng.randrange(0, 66))})
        cases.append({"k": "mem_init", "sp": sp, "depth": rng.randrange(0, 4), "elems": [big() if rng.random() < 0.5 else rand_init(6) for _ in range(rng.randrange(0, 4))]})
        a, b = mid(), mid()
        cases.append({"k": "const_range", "v": big(), "a": a, "b": b, "st": rng.choice((1, -1, 3, -7, 1 << rng.randrange(0, 30)))})
    # enumeration classes of every kind; Const(member) and Const(member, shape)
    PY = ("Enum", "IntEnum", "Flag", "IntFlag")
    AM = ("aEnum", "aIntEnum", "aFlag", "aIntFlag")
    for n in range(0, 4):
        for ms in itertools.combinations_with_replacement(list(range(-4, 9)), n):
            if n == 3 and rng.random() < (0.85 if not thorough else 0.3):
                continue
            for cls in PY + AM:
                flag = "Flag" in cls
                if flag and any(m < 0 for m in ms):
                    continue
                if not thorough and rng.random() < 0.5:
                    continue
                cases.append({"k": "enum_cls", "cls": cls, "ms": list(ms)})
                if ms and rng.random() < 0.5:
                    sh = rng.choice((None, None, rng.randrange(-1, 5), ["sh", rng.randrange(0, 5), rng.random() < 0.5]))
                    cases.append({"k": "const_member", "cls": cls, "ms": list(ms), "v": rng.choice(ms), "shape": sh})
    for _ in range(N // 2):
        cls = rng.choice(PY + AM)
        flag = "Flag" in cls
        ms = [abs(big()) if flag else (big() if rng.random() < 0.6 else rng.randrange(-3, 4)) for _ in range(rng.randrange(1, 5))]
        if flag and rng.random() < 0.5:
            ms = [1 << rng.randrange(0, 40) for _ in ms] + ([rng.randrange(0, 1 << 12)] if rng.random() < 0.5 else [])
        cases.append({"k": "enum_cls", "cls": cls, "ms": ms})
        cases.append({"k": "const_member", "cls": cls, "ms": ms, "v": rng.choice(ms), "shape": rng.choice((None, None, rng.randrange(0, 70)))})
        # amaranth.lib.enum: members whose values are constants (replaced by their integer value), explicit shape=
        cm = [rng.choice((rng.randrange(-9, 10), ["c", rng.randrange(-40, 41), *(lambda g: (rng.randrange(1 if g else 0, 7), g))(rng.random() < 0.4)]))
              for _ in range(rng.randrange(1, 4))]
        cases.append({"k": "enum_cls", "cls": "aEnum", "ms": cm})
        sg = rng.random() < 0.5
        cases.append({"k": "enum_cls", "cls": "aEnum", "ms": cm, "shape": ["sh", rng.randrange(1 if sg else 0, 8), sg]})
        c1 = ["c", rng.randrange(-40, 41), *(lambda g: (rng.randrange(1 if g else 0, 9), g))(rng.random() < 0.4)]
        cases.append({"k": "enum_cls", "cls": "Enum", "ms": [c1]})          # a plain enum.Enum with ONE Const-valued member
    # constant expressions with parts that are not Const: ints, bools, enum members
    for _ in range(N // 2):
        cases.append({"k": "const_cast", "e": ["cat", [cexpr(rng.randrange(0, 3), ext=True) for _ in range(rng.randrange(1, 4))]]})
    return cases


def cwidth(e):
    if e[0] == "c":
        return e[2]
    if e[0] == "pi":
        return G.const_shape(e[1])[0]
    if e[0] == "b":
        return 1
    if e[0] in ("ie", "en"):
        return G.enum_shape(e[2])[0]
    if e[0] == "cat":
        return sum(cwidth(p) for p in e[1])
    return e[3] - e[2]


def _sh(s):
    return [s.width, int(s.signed)]


def run_impl(c):
    from amaranth.hdl import Shape, Const, Cat, Signal
    from amaranth.hdl._ast import Slice
    from amaranth import utils
    k = c["k"]
    try:
        if k == "bits_for":
            return [utils.bits_for(c["n"], c["b"])]
        if k == "ceil_log2":
            try:
                return [1, utils.ceil_log2(c["n"])]
            except ValueError:
                return [0]
        if k == "exact_log2":
            try:
                return [1, utils.exact_log2(c["n"])]
            except ValueError:
                return [0]
        if k == "range":
            return _sh(Shape.cast(range(c["a"], c["b"], c["st"])))
        if k == "enum":
            E = enum.Enum("E", {f"M{i}": v for i, v in enumerate(c["ms"])})
            return _sh(Shape.cast(E))
        if k == "const":
            try:
                return [1, Const(c["v"], Shape(c["w"], c["sg"])).value]
            except TypeError:
                return [0]
        if k == "const_auto":
            k_ = Const(c["v"])
            return _sh(k_.shape()) + [k_.value]
        if k == "const_int":
            try:
                k_ = Const(c["v"], c["w"])
                return [1] + _sh(k_.shape()) + [k_.value]
            except TypeError:
                return [0]
        if k == "init":
            return [Signal(Shape(c["w"], c["sg"]), init=c["v"]).init]
        if k == "init_range":
            try:
                return [1, Signal(range(c["a"], c["b"], c["st"]), init=c["v"]).init]
            except Exception as e:
                if type(e).__name__ == "SyntaxError":   # amaranth.hdl._ast.SyntaxError
                    return [0]
                raise
        if k in ("init_x", "mem_init", "const_range", "const_member", "enum_cls"):
            try:
                if k == "init_x":
                    return [1, Signal(_shape(c["sp"]), init=_init(c["i"])).init]
                if k == "mem_init":
                    from amaranth.hdl import MemoryData
                    return [1] + list(MemoryData(shape=_shape(c["sp"]), depth=c["depth"], init=[_init(i) for i in c["elems"]]).init)
                if k == "const_range":
                    k_ = Const(c["v"], range(c["a"], c["b"], c["st"]))
                    return _sh(k_.shape()) + [k_.value]
                E = _enum_class(c["cls"], c["ms"], c.get("shape") if k == "enum_cls" else None)
                if k == "enum_cls":
                    return [1] + _sh(Shape.cast(E))
                member = E[f"M{c['ms'].index(c['v'])}"]
                sh = c["shape"]
                k_ = Const(member) if sh is None else Const(member, sh if isinstance(sh, int) else Shape(sh[1], sh[2]))
                return [1] + _sh(k_.shape()) + [k_.value]
            except Exception as e:
                code = ERR_CLASS.get(type(e).__name__)
                if code:
                    return [0, code]
                raise
        if k == "const_cast":
            build = _build_cexpr
            try:
                k_ = Const.cast(build(c["e"]))
                return [1, k_.value] + _sh(k_.shape())
            except (IndexError, TypeError):
                return [0]
    except Exception as e:
        return [-1, sum(map(ord, type(e).__name__))]
    raise ValueError(k)


ERR_CLASS = {"TypeError": 1, "ValueError": 2, "IndexError": 3, "SyntaxError": 4}    # by NAME (amaranth has its own SyntaxError)


def _shape(sp):
    from amaranth.hdl import Shape
    return Shape(sp[1], bool(sp[2])) if sp[0] == "sh" else range(sp[1], sp[2], sp[3])


def _member(kind, v, ms):
    return G.enum_member(v, ms, "I" if kind == "ie" else "E")


def _build_cexpr(e):
    from amaranth.hdl import Const, Shape, Cat
    from amaranth.hdl._ast import Slice
    if e[0] == "c":
        return Const(e[1], Shape(e[2], bool(e[3])))
    if e[0] == "pi":
        return e[1]
    if e[0] == "b":
        return bool(e[1])
    if e[0] in ("ie", "en"):
        return _member(e[0], e[1], e[2])
    if e[0] == "cat":
        return Cat(*[_build_cexpr(p) for p in e[1]])
    return Slice(_build_cexpr(e[1]), e[2], e[3])


def _init(i):
    if i is None or isinstance(i, int):
        return i
    return _build_cexpr(i)


def _enum_class(cls, ms, shape=None):
    """a fresh enumeration class of the given kind; members M0.. with the given values (ints or ["c", v, w, sg] constants)"""
    import types
    from amaranth.hdl import Const, Shape
    vals = [m if isinstance(m, int) else Const(m[1], Shape(m[2], bool(m[3]))) for m in ms]
    if cls.startswith("a"):
        from amaranth.lib import enum as aenum
        base = getattr(aenum, cls[1:])
    else:
        base = getattr(enum, cls)
    kw = {} if shape is None else {"shape": Shape(shape[1], bool(shape[2]))}
    def body(ns):
        for i, v in enumerate(vals):
            ns[f"M{i}"] = v
    return types.new_class("E", (base,), kw, body)


def _spec(sp):
    return f"(SShape (Sh {z(sp[1])} {blit(sp[2])}))" if sp[0] == "sh" else f"(SRange {z(sp[1])} {z(sp[2])} {z(sp[3])})"


def _initv(i):
    if i is None:
        return "INone"
    if isinstance(i, int):
        return f"(IInt {z(i)})"
    if i[0] == "b":
        return f"(IInt {int(bool(i[1]))})"
    if i[0] in ("ie", "en"):
        return f"(IEnum {zlist(i[2])} {z(i[1])})"      # Const.cast(member) = Const(member.value, Shape.cast(class)), IntEnum too
    return f"(IExpr {_cexpr(i)})"


def _cls_shape(c):
    """Gallina term for Shape.cast(class): the model iterates the members the way the class does"""
    ms = "[" + "; ".join(z(m) if isinstance(m, int) else f"(const_norm (Sh {z(m[2])} {blit(m[3])}) {z(m[1])})" for m in c["ms"]) + "]"
    if c.get("shape") is not None and c["k"] == "enum_cls":
        return f"(Sh {z(c['shape'][1])} {blit(c['shape'][2])})"
    if c["cls"] == "Enum" and any(not isinstance(m, int) for m in c["ms"]):
        return "(cast_enum_shapes [" + "; ".join(f"Sh {z(m[2])} {blit(m[3])}" for m in c["ms"]) + "])"
    return f"(cast_flag {ms})" if "Flag" in c["cls"] else f"(cast_enum {ms})"


def _cexpr(e):
    if e[0] == "c":
        return f"(CConst {z(e[1])} (Sh {z(e[2])} {blit(e[3])}))"
    if e[0] == "pi":
        return f"(CConst {z(e[1])} (const_shape {z(e[1])}))"
    if e[0] == "b":
        return f"(CConst {int(bool(e[1]))} (const_shape {int(bool(e[1]))}))"
    if e[0] in ("ie", "en"):
        return f"(CConst {z(e[1])} (cast_enum {zlist(e[2])}))"
    if e[0] == "cat":
        return "(CCat [" + "; ".join(_cexpr(p) for p in e[1]) + "])"
    return f"(CSlice {_cexpr(e[1])} {z(e[2])} {z(e[3])})"


def coq_term(c):
    k = c["k"]
    if k == "bits_for":
        return f"k_bits_for {z(c['n'])} {blit(c['b'])}"
    if k in ("ceil_log2", "exact_log2"):
        return f"k_{k} {z(c['n'])}"
    if k == "range":
        return f"k_range {z(c['a'])} {z(c['b'])} {z(c['st'])}"
    if k == "enum":
        return f"k_enum {zlist(c['ms'])}"
    if k == "const":
        return f"k_const {z(c['v'])} {z(c['w'])} {blit(c['sg'])}"
    if k == "const_auto":
        return f"k_const_auto {z(c['v'])}"
    if k == "const_int":
        return f"k_const_int {z(c['v'])} {z(c['w'])}"
    if k == "init":
        return f"k_init {z(c['v'])} {z(c['w'])} {blit(c['sg'])}"
    if k == "init_range":
        return f"k_init_range {z(c['a'])} {z(c['b'])} {z(c['st'])} {z(c['v'])}"
    if k == "const_cast":
        return f"k_const_cast {_cexpr(c['e'])}"
    if k == "init_x":
        return f"k_init_x {_spec(c['sp'])} {_initv(c['i'])}"
    if k == "mem_init":
        return f"k_mem_init {_spec(c['sp'])} {z(c['depth'])} [" + "; ".join(_initv(i) for i in c["elems"]) + "]"
    if k == "const_range":
        return f"k_const_range {z(c['v'])} {z(c['a'])} {z(c['b'])} {z(c['st'])}"
    if k == "enum_cls":
        return f"k_shape {_cls_shape(c)}"
    if k == "const_member":
        sh = c["shape"]
        if sh is None:
            return f"k_const_member_default {_cls_shape(c)} {z(c['v'])}"
        o = f"(const_int_shape {z(c['v'])} {z(sh)})" if isinstance(sh, int) else f"(Some (Sh {z(sh[1])} {blit(sh[2])}))"
        return f"k_const_member_shape {o} {z(c['v'])}"
    raise ValueError(k)


def explain(c):
    return ("model answer encodes: shapes as [width, signed], optional results as [1, value] / [0] (rejected); the kinds added "
            "after the audit answer [0, c] with the exception class c (1 TypeError, 2 ValueError, 3 IndexError, 4 SyntaxError)")

"""C18 — I/O buffers apply direction, inversion and registering exactly per bit."""
import itertools, random
from common import z, zlist, blit

ID = "C18"
LEVEL = "proof"
PROPS_FILE = "C18.v"
RUN_MODULE = "RunC18"
TRANSLATOR_UNITS = []
RULE = ("port algebra: exhaustive one-step scope (widths 0..4: every int index in [-w-1,w], every slice with start/stop in "
        "{None} u [-w-1,w+1] x step in {None,1,2,3,-1,-2,0} (all of them in thorough; in quick all for w <= 1 and a 30% sample "
        "for w >= 2), every inversion mask for int indices, 2 masks for slices; "
        "`+` of every direction pair and kind pair; `~`) + random expressions of <= 3 slicing/`+`/`~` steps over 1..3 base ports "
        "(widths 0..6, kinds Simulation/SingleEnded/Differential) + malformed bases; "
        "Buffer simulated on SimulationPorts: widths 0..4 x all masks x all 9 (port,buffer) direction pairs with exhaustive "
        "o/oe/i words for width <= 2 and random words otherwise, then random port expressions (duplicated wires included; "
        "ports sliced out of a port that repeats a wire are capped at 25/120 cases, tag alias_under_slice: known finding); "
        "FFBuffer: the same with sync / separate i,o domains / wrongly supplied domains and random edge patterns of 10 events; "
        "netlist: 1..3 Buffers on slices of 1..3 SingleEnded/Differential IOPort-based ports (partitions, overlaps, reuse) "
        "through Fragment.get + build_netlist, IOBuffer cells decoded symbolically (xor/not with constants traced to the "
        "buffer's o/oe/i members). non-trivial = accepted by the implementation and some port involved has width > 0 "
        "(for simulations: some step drives or reads a wire); distinct by case hash")
MODELLED = ("lib.io Direction.__and__, SingleEndedPort/DifferentialPort/SimulationPort __init__ length checks, __getitem__ "
            "(via Value/IOValue.__getitem__, Slice/IOSlice bounds checks, tuple slicing, slice.indices), __add__, __invert__, "
            "Buffer/FFBuffer.__init__ direction checks, Buffer.elaborate (inversion constant, SimulationPort loop-back, "
            "IOBufferInstance per port kind), FFBuffer.elaborate registers, NetlistEmitter.emit_io/emit_io_use/emit_iobuffer "
            "are modelled in coq/Model/Io.v; the simulator's settling of the combinational statements, wiring.Component "
            "signature plumbing, Fragment/Design traversal order and nir net allocation are validated only")
ASSUMPTIONS = ["CPython slice.indices / tuple slicing semantics as modelled by Io.slice_indices/range_list (validated by the run)",
               "simulator semantics of comb assignment to Cat/Slice targets = per-bit assignment in order (validated by the run; the simulator deviates for a Slice of a Cat that repeats a signal bit: finding C18-SIM-LHS-ALIAS, Props C18_sim_lhs_alias_refuted)"]
SHARD = 500

DIRS = ["i", "o", "io"]
ERR = {"IndexError": 1, "ValueError": 2, "TypeError": 3, "DriverConflict": 4}


def classify(c):
    return c["k"] + ":" + c.get("tag", "")


def nontrivial(c, obs):
    if not obs or obs[0] != 1:
        return False
    widths = [b[2] for b in c["bases"]]
    if c["k"] == "port":
        return max(widths, default=0) > 0
    if c["k"] == "net":
        return any((_plen(e, widths) or 0) > 0 for _, e in c["bufs"])
    return (_plen(c["e"], widths) or 0) > 0


# ------------------------------------------------------------------ expression helpers (generator side)
def _plen(e, widths):
    """length of a port expression under Python/amaranth slicing rules; None if it raises"""
    t = e[0]
    if t == "b":
        return widths[e[1]]
    if t == "~":
        return _plen(e[1], widths)
    if t == "+":
        a, b = _plen(e[1], widths), _plen(e[2], widths)
        return None if a is None or b is None else a + b
    n = _plen(e[1], widths)
    if n is None:
        return None
    if t == "i":
        return 1 if -n <= e[2] < n else None
    if e[4] == 0:
        return None
    a, b, s = slice(e[2], e[3], e[4]).indices(n)
    if s == 1 and a > b:
        return None
    return len(range(a, b, s))


def _wires(e, widths, seen=None):
    """(wire list of a port expression, True if some subexpression under a slice/index repeats a wire);
    None if it raises.  Wires are (base, bit)."""
    t = e[0]
    if t == "b":
        return [(e[1], k) for k in range(widths[e[1]])], False
    if t == "~":
        return _wires(e[1], widths)
    if t == "+":
        a, b = _wires(e[1], widths), _wires(e[2], widths)
        if a is None or b is None:
            return None
        return a[0] + b[0], a[1] or b[1]
    r = _wires(e[1], widths)
    if r is None:
        return None
    w, al = r
    al = al or len(set(w)) != len(w)
    n = len(w)
    if t == "i":
        return ([w[e[2]]], al) if -n <= e[2] < n else None
    if e[4] == 0:
        return None
    a, b, s = slice(e[2], e[3], e[4]).indices(n)
    if s == 1 and a > b:
        return None
    return [w[i] for i in range(a, b, s)], al


def _alias_under_slice(c):
    r = _wires(c["e"], [b[2] for b in c["bases"]])
    return bool(r and r[1])


def known_finding(case, obs, model):
    # The simulator lowers an assignment to Slice(Cat(...)) as read-modify-write of the whole Cat; when the Cat
    # names a signal bit twice, the stale copy is written back over the new value (netlist semantics: per bit).
    if case["k"] in ("buf", "ff") and _alias_under_slice(case):
        return "C18-SIM-LHS-ALIAS"
    return None


def _rand_step(rng, e, widths, nb, malformed):
    n = _plen(e, widths)
    r = rng.random()
    if n is None:
        return ["~", e]
    if r < 0.2:
        return ["~", e]
    if r < 0.4:
        if malformed and rng.random() < 0.3:
            return ["i", e, rng.choice([n, -n - 1, n + 2])]
        if n == 0:
            return ["i", e, 0] if malformed else ["~", e]
        return ["i", e, rng.randrange(-n, n)]
    if r < 0.75:
        def ep():
            q = rng.random()
            if q < 0.25:
                return None
            if q < 0.85 or not malformed:
                return rng.randrange(0, n + 1)
            return rng.randrange(-n - 2, n + 3)
        a, b = ep(), ep()
        st = rng.choice([None, None, None, 1, 2, -1, 3, -2]) if rng.random() < 0.4 else None
        if malformed and rng.random() < 0.05:
            st = 0
        if st in (None, 1) and a is not None and b is not None and a > b and not (malformed and rng.random() < 0.3):
            a, b = b, a
        if rng.random() < 0.15:
            a = None if a is None else a - n if a - n < 0 else a
        return ["s", e, a, b, st]
    o = ["b", rng.randrange(nb)]
    if rng.random() < 0.5:
        m = widths[o[1]]
        lo = rng.randrange(0, m + 1)
        hi = rng.randrange(lo, m + 1)
        o = ["s", o, lo, hi, None]
    return ["+", e, o] if rng.random() < 0.6 else ["+", o, e]


def _rand_expr(rng, widths, nb, steps, malformed=False):
    e = ["b", rng.randrange(nb)]
    for _ in range(steps):
        e = _rand_step(rng, e, widths, nb, malformed)
    return e


def _rand_base(rng, kind, d=None, wmax=6):
    w = rng.randrange(0, wmax + 1)
    inv = [rng.randrange(2) for _ in range(w)]
    if rng.random() < 0.15:
        inv = [inv[0] if inv else 0] * w
    asb = int(len(set(inv)) <= 1 and rng.random() < 0.5)
    return [kind, rng.randrange(3) if d is None else d, w, inv, asb]


def _bits(m, w):
    return [(m >> k) & 1 for k in range(w)]


def _compat_dirs(rng, nb, want_err):
    """directions of nb sim bases and a buffer direction, mostly compatible"""
    if want_err:
        return [rng.randrange(3) for _ in range(nb)], rng.randrange(3)
    bd = rng.randrange(3)
    ds = []
    for _ in range(nb):
        ds.append(2 if bd == 2 or rng.random() < 0.5 else bd)
    return ds, bd


def _steps(rng, bases, n, ff, same):
    out = []
    wmax = max([b[2] for b in bases] + [1])
    tot = sum(b[2] for b in bases) + 1
    for k in range(n):
        mode = rng.random()
        def word(w):
            if mode < 0.1:
                return 0
            if mode < 0.2:
                return (1 << w) - 1
            return rng.randrange(1 << w)
        st = [word(min(tot, 12)), rng.randrange(2) if rng.random() < 0.8 else 1, [word(b[2]) for b in bases]]
        if ff:
            if same:
                e = int(rng.random() < 0.75)
                st += [e, e]
            else:
                st += [int(rng.random() < 0.6), int(rng.random() < 0.6)]
        out.append(st)
    return out


def gen_cases(tier, seed):
    rng = random.Random(seed)
    thorough = tier == "thorough"
    cases = []
    # ---------------------------------------------------------------- port algebra, exhaustive one step
    for w in range(0, 5):
        masks = list(range(1 << w))
        for m in masks:
            kind = m % 3
            d = (m // 3) % 3
            base = [kind, d, w, _bits(m, w), 0]
            for i in range(-w - 1, w + 1):
                cases.append({"k": "port", "tag": "idx", "bases": [base], "e": ["i", ["b", 0], i]})
            cases.append({"k": "port", "tag": "inv", "bases": [base], "e": ["~", ["b", 0]]})
            cases.append({"k": "port", "tag": "inv", "bases": [base], "e": ["~", ["~", ["b", 0]]]})
        ends = [None] + list(range(-w - 1, w + 2))
        smasks = [0b0110 & ((1 << w) - 1), rng.randrange(1 << w)]
        for mi, m in enumerate(smasks):
            for a in ends:
                for b in ends:
                    for st in (None, 1, 2, 3, -1, -2, 0):
                        if not thorough and w >= 2 and rng.random() < 0.7:
                            continue
                        kind = rng.randrange(3)
                        cases.append({"k": "port", "tag": "slice", "bases": [[kind, rng.randrange(3), w, _bits(m, w), 0]],
                                      "e": ["s", ["b", 0], a, b, st]})
    for k1 in range(3):
        for k2 in range(3):
            for d1 in range(3):
                for d2 in range(3):
                    b1 = _rand_base(rng, k1, d1, 3)
                    b2 = _rand_base(rng, k2, d2, 3)
                    cases.append({"k": "port", "tag": "add", "bases": [b1, b2], "e": ["+", ["b", 0], ["b", 1]]})
    # (p+q)[k]
    for _ in range(150 if not thorough else 1500):
        kind = rng.randrange(3)
        b1, b2 = _rand_base(rng, kind, None, 4), _rand_base(rng, kind, None, 4)
        n = b1[2] + b2[2]
        cases.append({"k": "port", "tag": "add_idx", "bases": [b1, b2],
                      "e": ["i", ["+", ["b", 0], ["b", 1]], rng.randrange(-n - 1, n + 1)]})
    # malformed bases
    for kind in range(3):
        for w in range(0, 4):
            for l in range(0, 5):
                cases.append({"k": "port", "tag": "badbase" if l != w else "base",
                              "bases": [[kind, rng.randrange(3), w, [rng.randrange(2) for _ in range(l)], 0]],
                              "e": ["b", 0]})
    # random expressions
    for _ in range(1000 if not thorough else 15000):
        nb = rng.randrange(1, 4)
        kind = rng.randrange(3)
        bases = [_rand_base(rng, kind if rng.random() < 0.93 else rng.randrange(3)) for _ in range(nb)]
        mal = rng.random() < 0.25
        e = _rand_expr(rng, [b[2] for b in bases], nb, rng.randrange(1, 4), mal)
        cases.append({"k": "port", "tag": "rand" + ("_mal" if mal else ""), "bases": bases, "e": e})
    # ---------------------------------------------------------------- Buffer / FFBuffer on simulation ports
    for w in range(0, 5):
        for m in range(1 << w):
            for pd in range(3):
                for bd in range(3):
                    base = [0, pd, w, _bits(m, w), int(m in (0, (1 << w) - 1) and (m + pd) % 2 == 0)]
                    if w <= 2:
                        steps = [[o, oe, [i]] for o in range(1 << w) for oe in range(2) for i in range(1 << w)]
                    else:
                        steps = _steps(rng, [base], 8, False, True)
                    ok = pd == 2 or pd == bd
                    cases.append({"k": "buf", "tag": ("w%d" % w) if ok else "baddir", "bases": [base], "e": ["b", 0],
                                  "bd": bd, "steps": steps})
                    if w <= 3 or thorough or rng.random() < 0.4:
                        for doms in ("sync", "ab"):
                            cases.append({"k": "ff", "tag": (doms if ok else "baddir"), "bases": [base], "e": ["b", 0],
                                          "bd": bd, "doms": doms, "steps": _steps(rng, [base], 10, True, doms == "sync")})
    for bd, doms in ((1, "bad_i"), (1, "bad_io"), (0, "bad_o"), (0, "bad_io")):
        for w in (0, 2):
            base = [0, 2, w, [1, 0][:w], 0]
            cases.append({"k": "ff", "tag": "baddom", "bases": [base], "e": ["b", 0], "bd": bd, "doms": doms,
                          "steps": _steps(rng, [base], 4, True, False)})
    n_alias = 0
    for _ in range(1000 if not thorough else 12000):
        nb = rng.randrange(1, 4)
        bad = rng.random() < 0.1
        ds, bd = _compat_dirs(rng, nb, bad)
        bases = [_rand_base(rng, 0, ds[b]) for b in range(nb)]
        mal = rng.random() < 0.08
        e = _rand_expr(rng, [b[2] for b in bases], nb, rng.randrange(0, 4), mal)
        tag = "rand" + ("_baddir" if bad else "") + ("_mal" if mal else "")
        if _alias_under_slice({"e": e, "bases": bases}):
            # ports sliced out of a port that repeats a wire: see known_finding; keep a few
            n_alias += 1
            if n_alias > (25 if not thorough else 120):
                continue
            tag = "alias_under_slice"
        if rng.random() < 0.55:
            cases.append({"k": "buf", "tag": tag, "bases": bases, "e": e, "bd": bd,
                          "steps": _steps(rng, bases, 8, False, True)})
        else:
            doms = rng.choice(["sync", "ab", "ab"])
            cases.append({"k": "ff", "tag": tag + "_" + doms, "bases": bases, "e": e, "bd": bd, "doms": doms,
                          "steps": _steps(rng, bases, 10, True, doms == "sync")})
    # ---------------------------------------------------------------- netlists of buffers on real ports
    # every width/mask/direction, one buffer on the whole port
    for kind in (1, 2):
        for w in range(0, 4):
            for m in range(1 << w):
                for pd in range(3):
                    for bd in range(3):
                        cases.append({"k": "net", "tag": "whole" if (pd == 2 or pd == bd) else "baddir",
                                      "bases": [[kind, pd, w, _bits(m, w), 0]], "bufs": [[bd, ["b", 0]]]})
    for _ in range(800 if not thorough else 10000):
        nb = rng.randrange(1, 4)
        kind = rng.choice((1, 2))
        bases = [_rand_base(rng, kind if rng.random() < 0.95 else 3 - kind, 2 if rng.random() < 0.8 else None, 5)
                 for _ in range(nb)]
        mode = rng.random()
        bufs = []
        if mode < 0.55:
            # partition of base 0 (or of b0 + b1) into consecutive slices, each its own buffer
            src = ["b", 0]
            n = bases[0][2]
            if nb > 1 and bases[1][0] == bases[0][0] and rng.random() < 0.5:
                src = ["+", ["b", 0], ["~", ["b", 1]]] if rng.random() < 0.5 else ["+", ["b", 1], ["b", 0]]
                n += bases[1][2]
            cuts = sorted(rng.randrange(0, n + 1) for _ in range(rng.randrange(0, 3)))
            cuts = [0] + cuts + [n]
            for a, b in zip(cuts, cuts[1:]):
                e = ["s", src, a, b, None]
                if rng.random() < 0.3:
                    e = ["~", e]
                if rng.random() < 0.15:
                    e = ["s", e, None, None, -1]
                bufs.append([rng.randrange(3), e])
            tag = "partition"
        elif mode < 0.8:
            for _ in range(rng.randrange(1, 4)):
                bufs.append([rng.randrange(3), _rand_expr(rng, [b[2] for b in bases], nb, rng.randrange(0, 3))])
            tag = "overlap"
        else:
            for j in range(nb):
                e = _rand_expr(rng, [b[2] for b in bases], nb, rng.randrange(0, 4), rng.random() < 0.2)
                bufs.append([rng.randrange(3), e])
            tag = "rand"
        cases.append({"k": "net", "tag": tag, "bases": bases, "bufs": bufs})
    rng.shuffle(cases)          # uniform shards
    return cases


# ------------------------------------------------------------------ implementation side
def _err(e):
    return [0, ERR.get(type(e).__name__, 90 + len(type(e).__name__))]


def _mk_bases(bases):
    from amaranth.hdl import IOPort
    from amaranth.lib import io
    ports, sigmap, iomap = [], {}, {}
    for b, (kind, d, w, inv, asb) in enumerate(bases):
        arg = [bool(x) for x in inv]
        if asb and len(set(inv)) <= 1 and len(inv) == w:
            arg = bool(inv[0]) if inv else False
        if kind == 0:
            p = io.SimulationPort(DIRS[d], w, invert=arg, name=f"p{b}")
            for s in (p._i, p._o, p._oe):
                if s is not None:
                    sigmap[id(s)] = b
        elif kind == 1:
            a = IOPort(w, name=f"io{2 * b}")
            iomap[id(a)] = 2 * b
            p = io.SingleEndedPort(a, invert=arg, direction=DIRS[d])
        else:
            a = IOPort(w, name=f"io{2 * b}")
            n = IOPort(w, name=f"io{2 * b + 1}")
            iomap[id(a)] = 2 * b
            iomap[id(n)] = 2 * b + 1
            p = io.DifferentialPort(a, n, invert=arg, direction=DIRS[d])
        ports.append(p)
    return ports, sigmap, iomap


def _build(e, ports):
    t = e[0]
    if t == "b":
        return ports[e[1]]
    if t == "i":
        return _build(e[1], ports)[e[2]]
    if t == "s":
        return _build(e[1], ports)[slice(e[2], e[3], e[4])]
    if t == "+":
        a = _build(e[1], ports)
        b = _build(e[2], ports)
        return a + b
    if t == "~":
        return ~_build(e[1], ports)
    raise ValueError(t)


def _flat_value(v, sigmap):
    from amaranth.hdl._ast import Signal, Slice, Concat
    if isinstance(v, Signal):
        return [(sigmap[id(v)], k) for k in range(len(v))]
    if isinstance(v, Slice):
        return _flat_value(v.value, sigmap)[v.start:v.stop]
    if isinstance(v, Concat):
        out = []
        for p in v.parts:
            out += _flat_value(p, sigmap)
        return out
    raise TypeError(repr(v))


def _flat_io(v, iomap):
    from amaranth.hdl._ast import IOPort, IOSlice, IOConcat
    if isinstance(v, IOPort):
        return [(iomap[id(v)], k) for k in range(len(v))]
    if isinstance(v, IOSlice):
        return _flat_io(v.value, iomap)[v.start:v.stop]
    if isinstance(v, IOConcat):
        out = []
        for p in v.parts:
            out += _flat_io(p, iomap)
        return out
    raise TypeError(repr(v))


def _run_port(c):
    from amaranth.lib import io
    try:
        ports, sigmap, iomap = _mk_bases(c["bases"])
        p = _build(c["e"], ports)
    except Exception as e:
        return _err(e)
    d = DIRS.index(p.direction.value)
    inv = [int(x) for x in p.invert]
    if not all(isinstance(x, bool) for x in p.invert) or not isinstance(p.invert, tuple):
        return [-2, 1]
    nrefs = []
    if isinstance(p, io.SimulationPort):
        kind = 0
        present = [s for s in (p._i, p._o, p._oe) if s is not None]
        want = {0: 1, 1: 2, 2: 3}[d]
        if len(present) != want or (p._i is None) != (d == 1) or (p._o is None) != (d == 0) or (p._oe is None) != (d == 0):
            return [-2, 2]
        fl = [_flat_value(s, sigmap) for s in present]
        if any(f != fl[0] for f in fl):
            return [-2, 3]
        refs = fl[0]
    elif isinstance(p, io.SingleEndedPort):
        kind = 1
        refs = _flat_io(p.io, iomap)
    else:
        kind = 2
        refs = _flat_io(p.p, iomap)
        nrefs = _flat_io(p.n, iomap)
    if len(p) != len(refs):
        return [-2, 4]
    out = [1, kind, d, len(refs), len(nrefs), len(inv)] + inv
    for r in refs + nrefs:
        out += list(r)
    return out


def _obs_sim(ctx, ports, buf, bd):
    out = []
    for p in ports:
        if p._o is not None:
            out.append(ctx.get(p._o))
    for p in ports:
        if p._oe is not None:
            out.append(ctx.get(p._oe))
    out.append(ctx.get(buf.i) if bd != 1 else 0)
    return out


def _run_buf(c):
    from amaranth.hdl import Module
    from amaranth.lib import io
    from amaranth.sim import Simulator
    bd = c["bd"]
    try:
        ports, sigmap, iomap = _mk_bases(c["bases"])
        p = _build(c["e"], ports)
        buf = io.Buffer(DIRS[bd], p)
    except Exception as e:
        return _err(e)
    m = Module()
    m.submodules.buf = buf
    sim = Simulator(m)
    out = [1]

    async def tb(ctx):
        for o, oe, iv in c["steps"]:
            if bd != 0:
                ctx.set(buf.o, o & ((1 << len(p)) - 1))
                ctx.set(buf.oe, oe)
            for b, base in enumerate(ports):
                if base._i is not None:
                    ctx.set(base._i, iv[b])
            out.extend(_obs_sim(ctx, ports, buf, bd))
    sim.add_testbench(tb)
    sim.run()
    return out


def _ff_doms(c):
    """-> (kwargs for FFBuffer, domains to declare, i clock name, o clock name)"""
    bd, doms = c["bd"], c["doms"]
    if doms == "sync":
        return {}, ["sync"], "sync", "sync"
    kw = {}
    if doms == "ab":
        if bd != 1:
            kw["i_domain"] = "a"
        if bd != 0:
            kw["o_domain"] = "b"
    else:
        if "i" in doms[4:]:
            kw["i_domain"] = "a"
        if "o" in doms[4:]:
            kw["o_domain"] = "b"
    return kw, ["a", "b"], "a", "b"


def _run_ff(c):
    from amaranth.hdl import Module, ClockDomain, Cat
    from amaranth.lib import io
    from amaranth.sim import Simulator
    bd = c["bd"]
    kw, decl, ci, co = _ff_doms(c)
    try:
        ports, sigmap, iomap = _mk_bases(c["bases"])
        p = _build(c["e"], ports)
        ff = io.FFBuffer(DIRS[bd], p, **kw)
    except Exception as e:
        return _err(e)
    m = Module()
    cds = {}
    for name in decl:
        cds[name] = ClockDomain(name)
        m.domains += cds[name]
    if (ff.i_domain or ci) != ci and bd != 1 or (ff.o_domain or co) != co and bd != 0:
        return [-2, 5]
    m.submodules.ff = ff
    sim = Simulator(m)
    out = [1]

    async def tb(ctx):
        for o, oe, iv, ei, eo in c["steps"]:
            if bd != 0:
                ctx.set(ff.o, o & ((1 << len(p)) - 1))
                ctx.set(ff.oe, oe)
            for b, base in enumerate(ports):
                if base._i is not None:
                    ctx.set(base._i, iv[b])
            if ci == co:
                if ei:
                    ctx.set(cds[ci].clk, 1)
            elif ei or eo:
                ctx.set(Cat(cds[ci].clk, cds[co].clk), ei | (eo << 1))
            out.extend(_obs_sim(ctx, ports, ff, bd))
            if ci == co:
                ctx.set(cds[ci].clk, 0)
            else:
                ctx.set(Cat(cds[ci].clk, cds[co].clk), 0)
    sim.add_testbench(tb)
    sim.run()
    return out


def _run_net(c):
    from amaranth.hdl import Module
    from amaranth.hdl._ir import build_netlist, Fragment
    from amaranth.hdl import _nir
    from amaranth.lib import io
    try:
        ports, sigmap, iomap = _mk_bases(c["bases"])
        bufs = []
        for bd, e in c["bufs"]:
            bufs.append(io.Buffer(DIRS[bd], _build(e, ports)))
    except Exception as e:
        return _err(e)
    m = Module()
    sigs = []
    for j, b in enumerate(bufs):
        m.submodules[f"b{j}"] = b
        d = b.direction.value
        if "i" in d:
            sigs.append(b.i)
        if "o" in d:
            sigs += [b.o, b.oe]
    try:
        nl = build_netlist(Fragment.get(m, None), ports=sigs)
    except Exception as e:
        return _err(e)
    # signals of interest -> nets
    net2sig = {}
    for j, b in enumerate(bufs):
        if "o" in b.direction.value:
            for k, net in enumerate(nl.signals[b.o]):
                net2sig[net] = ("o", j, k)
            for k, net in enumerate(nl.signals[b.oe]):
                net2sig[net] = ("oe", j, k)

    def trace(net, depth=0):
        """-> (source, inverted); source = ('o'|'oe', buf, bit) | ('cell', idx, bit) | ('const', v) | ('?',)"""
        if net in net2sig:
            return net2sig[net], 0
        if net.is_const:
            return ("const", net.const), 0
        if net.is_late or depth > 8 or net.cell == 0:
            return ("?", int(net)), 0
        cell = nl.cells[net.cell]
        if isinstance(cell, _nir.IOBuffer):
            return ("cell", net.cell, net.bit), 0
        if isinstance(cell, _nir.Operator) and cell.operator == "~":
            s, i = trace(cell.inputs[0][net.bit], depth + 1)
            return s, i ^ 1
        if isinstance(cell, _nir.Operator) and cell.operator == "^":
            (s1, i1), (s2, i2) = (trace(v[net.bit], depth + 1) for v in cell.inputs)
            if s2[0] == "const":
                return s1, i1 ^ i2 ^ s2[1]
            if s1[0] == "const":
                return s2, i1 ^ i2 ^ s1[1]
        return ("?", int(net)), 0

    iobs = [(idx, cell) for idx, cell in enumerate(nl.cells) if isinstance(cell, _nir.IOBuffer)]
    out = [1, len(iobs)]
    dcode = {"input": 0, "output": 1, "inout": 2}
    pos = 0
    for j, b in enumerate(bufs):
        mine = [(idx, cell) for idx, cell in iobs if nl.modules[cell.module_idx].name[-1] == f"b{j}"]
        # cells of consecutive buffers must appear in order
        if [idx for idx, _ in mine] != [idx for idx, _ in iobs[pos:pos + len(mine)]]:
            return [-2, 6]
        pos += len(mine)
        out.append(len(mine))
        for idx, cell in mine:
            out += [dcode[cell.dir.value], len(cell.port)]
            for net in cell.port:
                out += [iomap[id(nl.io_ports[net.port])], net.bit]
            if cell.o is None:
                out.append(0)
            else:
                out.append(len(cell.o))
                for net in cell.o:
                    s, inv = trace(net)
                    if s[0] != "o" or s[1] != j:
                        return [-2, 7]
                    out += [s[2], inv]
                s, inv = trace(cell.oe)
                if s != ("oe", j, 0) or inv:
                    return [-2, 8]
        if "i" in b.direction.value:
            nets = nl.signals[b.i]
            out.append(len(nets))
            local = {idx: n for n, (idx, _) in enumerate(mine)}
            for net in nets:
                s, inv = trace(net)
                if s[0] != "cell" or s[1] not in local:
                    return [-2, 9]
                out += [local[s[1]], s[2], inv]
        else:
            out.append(0)
    return out


def run_impl(c):
    k = c["k"]
    if k == "port":
        return _run_port(c)
    if k == "buf":
        return _run_buf(c)
    if k == "ff":
        return _run_ff(c)
    if k == "net":
        return _run_net(c)
    raise ValueError(k)


# ------------------------------------------------------------------ Coq side
def _oz(v):
    return "None" if v is None else f"(Some {z(v)})"


def _dir(d):
    return ("DIn", "DOut", "DBidir")[d]


def _bl(bs):
    return "[" + "; ".join(blit(b) for b in bs) + "]"


def _expr(e):
    t = e[0]
    if t == "b":
        return f"(PBase {e[1]})"
    if t == "i":
        return f"(PIdx {_expr(e[1])} {z(e[2])})"
    if t == "s":
        return f"(PSlice {_expr(e[1])} (Sl {_oz(e[2])} {_oz(e[3])} {_oz(e[4])}))"
    if t == "+":
        return f"(PAdd {_expr(e[1])} {_expr(e[2])})"
    return f"(PInv {_expr(e[1])})"


def _bases(bases):
    con = ("BSim", "BSingle", "BDiff")
    return "[" + "; ".join(f"{con[k]} {_dir(d)} {w} {_bl(inv)}" for k, d, w, inv, _ in bases) + "]"


def coq_term(c):
    k = c["k"]
    if k == "port":
        return f"k_port {_bases(c['bases'])} {_expr(c['e'])}"
    if k == "buf":
        st = "[" + "; ".join(f"({z(o)}, {z(oe)}, {zlist(iv)})" for o, oe, iv in c["steps"]) + "]"
        return f"k_buf {_bases(c['bases'])} {_expr(c['e'])} {_dir(c['bd'])} {st}"
    if k == "ff":
        kw = _ff_doms(c)[0]
        st = "[" + "; ".join(f"({z(o)}, {z(oe)}, {zlist(iv)}, {blit(ei)}, {blit(eo)})"
                             for o, oe, iv, ei, eo in c["steps"]) + "]"
        return (f"k_ff {_bases(c['bases'])} {_expr(c['e'])} {_dir(c['bd'])} {blit('i_domain' in kw)} "
                f"{blit('o_domain' in kw)} {st}")
    if k == "net":
        bufs = "[" + "; ".join(f"({_dir(bd)}, {_expr(e)})" for bd, e in c["bufs"]) + "]"
        return f"k_net {_bases(c['bases'])} {bufs}"
    raise ValueError(k)


def explain(c):
    return ("model answer: [0, err] (1 IndexError, 2 ValueError, 3 TypeError, 4 DriverConflict) or 1 :: payload; "
            "port: kind, dir, len, len(n), len(invert), invert bits, (base, bit) wires; buf/ff: per step the o words of the "
            "base ports that have one, their oe words, then the buffer's i; net: #cells, then per buffer its cells "
            "(dir, n, wires, #o, (o bit, inverted)...) and its i bits (cell, bit, inverted)")

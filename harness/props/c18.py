"""C18 — I/O buffers apply direction, inversion and registering exactly per bit."""
import itertools, random
from common import z, zlist, blit

ID = "C18"
LEVEL = "proof"
PROPS_FILE = "C18.v"
RUN_MODULE = "RunC18"
TRANSLATOR_UNITS = ["io"]
RULE = ("port algebra: exhaustive one-step scope (widths 0..4: every int index in [-w-1,w], every slice with start/stop in "
        "{None} u [-w-1,w+1] x step in {None,1,2,3,-1,-2,0} (all of them in thorough; in quick all for w <= 1 and a 30% sample "
        "for w >= 2), every inversion mask for int indices, 2 masks for slices; `+` of every direction pair and kind pair; `~`) "
        "+ random expressions of <= 3 slicing/`+`/`~` steps over 1..3 base ports (widths 0..6 and 8..65, kinds Simulation/"
        "SingleEnded/Differential; `invert=` omitted / bool / iterable, `direction=` omitted / str / Direction, all normalised "
        "by the model) + malformed bases; the Value tree of every simulation port is compared with the model's tree; "
        "Buffer simulated on SimulationPorts: widths 0..4 x all masks x all 9 (port,buffer) direction pairs with exhaustive "
        "o/oe/i words for width <= 2 and random words otherwise, then random port expressions (duplicated wires included, "
        "plus a dedicated group of ports sliced out of a port that repeats a wire, tag alias*: known finding, recognised only "
        "when the observation equals the model's prediction under the simulator's lowering); "
        "FFBuffer: the same with i_domain/o_domain in {omitted, sync, a, b} resolved by the model, all three clocks declared, "
        "random subsets of clocks ticking per event (10 events), wrongly supplied domains; "
        "multi: 2..4 Buffers on a partition of one or two (concatenated) simulation ports in ONE simulated design; "
        "netlist: 1..3 Buffers/FFBuffers on slices of 1..3 SingleEnded/Differential IOPort-based ports (partitions, overlaps, "
        "reuse) through Fragment.get + build_netlist, IOBuffer cells decoded symbolically (xor/not with constants and "
        "flip-flops with their clock traced to the buffer's o/oe/i members). non-trivial = accepted by the implementation "
        "and some port involved has width > 0 (for simulations: some step drives or reads a wire); distinct by case hash")
MODELLED = ("lib.io Direction.__and__, SingleEndedPort/DifferentialPort/SimulationPort __init__ length checks, __getitem__ "
            "(via Value/IOValue.__getitem__, Slice/IOSlice bounds checks, tuple slicing, slice.indices), __add__, __invert__, "
            "Buffer/FFBuffer.__init__ direction and domain checks (`x or \"sync\"`), the `invert=`/`direction=` normalisation, Buffer.elaborate (inversion constant, SimulationPort loop-back, "
            "IOBufferInstance per port kind), FFBuffer.elaborate registers, NetlistEmitter.emit_io/emit_io_use/emit_iobuffer "
            "are modelled in coq/Model/Io.v; the simulator's settling of the combinational statements, wiring.Component "
            "signature plumbing, Fragment/Design traversal order and nir net allocation are validated only")
ASSUMPTIONS = ["CPython slice.indices / tuple slicing semantics as modelled by Io.slice_indices/range_list (validated by the run)",
               "simulator semantics of comb assignment to Cat/Slice targets = per-bit assignment in order (validated by the run; the simulator deviates for a Slice of a Cat that repeats a signal bit: finding C18-SIM-LHS-ALIAS, Props C18_sim_lhs_alias_refuted)"]
SHARD = 500

DIRS = ["i", "o", "io"]
ERR = {"IndexError": 1, "ValueError": 2, "TypeError": 3, "DriverConflict": 4}


def classify(c):
    return c["k"] + ":" + c.get("tag", "")


def _widths(c):
    return [b[2] for b in c["bases"]]


def nontrivial(c, obs):
    if not obs or obs[0] != 1:
        return False
    widths = _widths(c)
    if c["k"] == "port":
        return max(widths, default=0) > 0
    if c["k"] in ("net", "multi"):
        return any((_plen(b[1], widths) or 0) > 0 for b in c["bufs"])
    return (_plen(c["e"], widths) or 0) > 0


# ------------------------------------------------------------------ expression helpers (generator side)
def _plen(e, widths):
    """length of a port expression under Python/amaranth slicing rules; None if it raises"""
    t = e[0]
    if t == "b":
        return widths[e[1]]
    if t == "~":
        return _plen(e[1], widths)
    if t == "+":
        a, b = _plen(e[1], widths), _plen(e[2], widths)
        return None if a is None or b is None else a + b
    n = _plen(e[1], widths)
    if n is None:
        return None
    if t == "i":
        return 1 if -n <= e[2] < n else None
    if e[4] == 0:
        return None
    a, b, s = slice(e[2], e[3], e[4]).indices(n)
    if s == 1 and a > b:
        return None
    return len(range(a, b, s))


def _wires(e, widths):
    """(wire list of a port expression, True if some subexpression under a slice/index repeats a wire);
    None if it raises.  Only used to steer the generator (tags), never to produce or to filter an answer."""
    t = e[0]
    if t == "b":
        return [(e[1], k) for k in range(widths[e[1]])], False
    if t == "~":
        return _wires(e[1], widths)
    if t == "+":
        a, b = _wires(e[1], widths), _wires(e[2], widths)
        if a is None or b is None:
            return None
        return a[0] + b[0], a[1] or b[1]
    r = _wires(e[1], widths)
    if r is None:
        return None
    w, al = r
    al = al or len(set(w)) != len(w)
    n = len(w)
    if t == "i":
        return ([w[e[2]]], al) if -n <= e[2] < n else None
    if e[4] == 0:
        return None
    a, b, s = slice(e[2], e[3], e[4]).indices(n)
    if s == 1 and a > b:
        return None
    return [w[i] for i in range(a, b, s)], al


def _alias_under_slice(e, widths):
    r = _wires(e, widths)
    return bool(r and r[1])


SIM_MARK = -7


def known_finding(case, obs, model):
    # The model answers with the specified per-bit behaviour; when the simulator's lowering of the port's Value tree
    # (read-modify-write of a whole Cat under a Slice, _pyrtl._LHSValueCompiler) predicts something else, the model
    # appends that prediction after SIM_MARK (RunC18.with_sim).  The mismatch is the listed finding only if the
    # observation is exactly that prediction.
    if case["k"] in ("buf", "ff") and model and model[0] == 1 and SIM_MARK in model:
        k = model.index(SIM_MARK)
        if obs == [1] + model[k + 1:]:
            return "C18-SIM-LHS-ALIAS"
    return None


def _rand_step(rng, e, widths, nb, malformed):
    n = _plen(e, widths)
    r = rng.random()
    if n is None:
        return ["~", e]
    if r < 0.2:
        return ["~", e]
    if r < 0.4:
        if malformed and rng.random() < 0.3:
            return ["i", e, rng.choice([n, -n - 1, n + 2])]
        if n == 0:
            return ["i", e, 0] if malformed else ["~", e]
        return ["i", e, rng.randrange(-n, n)]
    if r < 0.75:
        def ep():
            q = rng.random()
            if q < 0.25:
                return None
            if q < 0.85 or not malformed:
                return rng.randrange(0, n + 1)
            return rng.randrange(-n - 2, n + 3)
        a, b = ep(), ep()
        st = rng.choice([None, None, None, 1, 2, -1, 3, -2]) if rng.random() < 0.4 else None
        if malformed and rng.random() < 0.05:
            st = 0
        if st in (None, 1) and a is not None and b is not None and a > b and not (malformed and rng.random() < 0.3):
            a, b = b, a
        if rng.random() < 0.15:
            a = None if a is None else a - n if a - n < 0 else a
        return ["s", e, a, b, st]
    o = ["b", rng.randrange(nb)]
    if rng.random() < 0.5:
        m = widths[o[1]]
        lo = rng.randrange(0, m + 1)
        hi = rng.randrange(lo, m + 1)
        o = ["s", o, lo, hi, None]
    return ["+", e, o] if rng.random() < 0.6 else ["+", o, e]


def _rand_expr(rng, widths, nb, steps, malformed=False):
    e = ["b", rng.randrange(nb)]
    for _ in range(steps):
        e = _rand_step(rng, e, widths, nb, malformed)
    return e


WIDE = (8, 13, 17, 32, 33, 64, 65)


def _rand_base(rng, kind, d=None, wmax=6, wide=0.04):
    """base = [kind, direction (0/1/2, or None = argument omitted), width, invert (None omitted | bool | list), dform]"""
    w = rng.choice(WIDE) if rng.random() < wide else rng.randrange(0, wmax + 1)
    q = rng.random()
    if q < 0.08:
        inv = None
    elif q < 0.2:
        inv = bool(rng.randrange(2))
    else:
        inv = [rng.randrange(2) for _ in range(w)]
    d = rng.randrange(3) if d is None else d
    if kind != 0 and d == 2 and rng.random() < 0.3:
        d = None
    return [kind, d, w, inv, rng.randrange(2)]


def _bits(m, w):
    return [(m >> k) & 1 for k in range(w)]


def _compat_dirs(rng, nb, want_err):
    """directions of nb sim bases and a buffer direction, mostly compatible"""
    if want_err:
        return [rng.randrange(3) for _ in range(nb)], rng.randrange(3)
    bd = rng.randrange(3)
    ds = []
    for _ in range(nb):
        ds.append(2 if bd == 2 or rng.random() < 0.5 else bd)
    return ds, bd


def _word(rng, mode, w):
    if mode < 0.1:
        return 0
    if mode < 0.2:
        return (1 << w) - 1
    return rng.randrange(1 << w)


def _steps(rng, bases, n, ff, ow=None):
    out = []
    tot = min(sum(b[2] for b in bases) + 1, 70) if ow is None else ow
    for k in range(n):
        mode = rng.random()
        st = [_word(rng, mode, tot), rng.randrange(2) if rng.random() < 0.8 else 1, [_word(rng, mode, b[2]) for b in bases]]
        if ff:
            st.append([int(rng.random() < 0.55) for _ in range(3)])
        out.append(st)
    return out


DOMS = (None, "sync", "a", "b")


def _rand_doms(rng, bd, bad=False):
    i = rng.choice(DOMS) if bd != 1 else None
    o = rng.choice(DOMS) if bd != 0 else None
    if bad:
        if bd == 1:
            i = rng.choice(DOMS[1:])
        elif bd == 0:
            o = rng.choice(DOMS[1:])
    return i, o


def _partition(rng, src, n, parts):
    cuts = sorted(rng.randrange(0, n + 1) for _ in range(parts - 1))
    cuts = [0] + cuts + [n]
    return [["s", src, a, b, None] for a, b in zip(cuts, cuts[1:])]


def gen_cases(tier, seed):
    rng = random.Random(seed)
    thorough = tier == "thorough"
    cases = []
    # ---------------------------------------------------------------- port algebra, exhaustive one step
    for w in range(0, 5):
        masks = list(range(1 << w))
        for m in masks:
            kind = m % 3
            d = (m // 3) % 3
            base = [kind, d, w, _bits(m, w), m % 2]
            for i in range(-w - 1, w + 1):
                cases.append({"k": "port", "tag": "idx", "bases": [base], "e": ["i", ["b", 0], i]})
            cases.append({"k": "port", "tag": "inv", "bases": [base], "e": ["~", ["b", 0]]})
            cases.append({"k": "port", "tag": "inv", "bases": [base], "e": ["~", ["~", ["b", 0]]]})
        ends = [None] + list(range(-w - 1, w + 2))
        smasks = [0b0110 & ((1 << w) - 1), rng.randrange(1 << w)]
        for mi, m in enumerate(smasks):
            for a in ends:
                for b in ends:
                    for st in (None, 1, 2, 3, -1, -2, 0):
                        if not thorough and w >= 2 and rng.random() < 0.7:
                            continue
                        kind = rng.randrange(3)
                        cases.append({"k": "port", "tag": "slice", "bases": [[kind, rng.randrange(3), w, _bits(m, w), 0]],
                                      "e": ["s", ["b", 0], a, b, st]})
    for k1 in range(3):
        for k2 in range(3):
            for d1 in range(3):
                for d2 in range(3):
                    b1 = _rand_base(rng, k1, d1, 3, 0)
                    b2 = _rand_base(rng, k2, d2, 3, 0)
                    cases.append({"k": "port", "tag": "add", "bases": [b1, b2], "e": ["+", ["b", 0], ["b", 1]]})
    # (p+q)[k]
    for _ in range(150 if not thorough else 1500):
        kind = rng.randrange(3)
        b1, b2 = _rand_base(rng, kind, None, 4), _rand_base(rng, kind, None, 4)
        n = b1[2] + b2[2]
        cases.append({"k": "port", "tag": "add_idx", "bases": [b1, b2],
                      "e": ["i", ["+", ["b", 0], ["b", 1]], rng.randrange(-n - 1, n + 1)]})
    # every way of giving invert= / direction=, and malformed bases
    for kind in range(3):
        for w in range(0, 4):
            for l in range(0, 5):
                cases.append({"k": "port", "tag": "badbase" if l != w else "base",
                              "bases": [[kind, rng.randrange(3), w, [rng.randrange(2) for _ in range(l)], l % 2]],
                              "e": ["b", 0]})
            for inv in (None, False, True):
                for d in (0, 1, 2) + ((None,) if kind else ()):
                    for dform in (0, 1):
                        cases.append({"k": "port", "tag": "base_args", "bases": [[kind, d, w, inv, dform]],
                                      "e": ["~", ["b", 0]] if w % 2 else ["b", 0]})
    # random expressions
    for _ in range(1000 if not thorough else 15000):
        nb = rng.randrange(1, 4)
        kind = rng.randrange(3)
        bases = [_rand_base(rng, kind if rng.random() < 0.93 else rng.randrange(3)) for _ in range(nb)]
        mal = rng.random() < 0.25
        e = _rand_expr(rng, [b[2] for b in bases], nb, rng.randrange(1, 4), mal)
        cases.append({"k": "port", "tag": "rand" + ("_mal" if mal else ""), "bases": bases, "e": e})
    # ---------------------------------------------------------------- Buffer / FFBuffer on simulation ports
    for w in range(0, 5):
        for m in range(1 << w):
            for pd in range(3):
                for bd in range(3):
                    inv = _bits(m, w)
                    if m in (0, (1 << w) - 1) and (m + pd) % 2 == 0:
                        inv = bool(m) if (pd + bd) % 3 or m else None
                    base = [0, pd, w, inv, (m + bd) % 2]
                    if w <= 2:
                        steps = [[o, oe, [i]] for o in range(1 << w) for oe in range(2) for i in range(1 << w)]
                    else:
                        steps = _steps(rng, [base], 8, False)
                    ok = pd == 2 or pd == bd
                    cases.append({"k": "buf", "tag": ("w%d" % w) if ok else "baddir", "bases": [base], "e": ["b", 0],
                                  "bd": bd, "bdform": (m + pd) % 2, "steps": steps})
                    if w <= 3 or thorough or rng.random() < 0.4:
                        for n in range(2):
                            i, o = (None, None) if n == 0 else _rand_doms(rng, bd)
                            cases.append({"k": "ff", "tag": ("dflt" if n == 0 else "named") if ok else "baddir",
                                          "bases": [base], "e": ["b", 0], "bd": bd, "bdform": n, "idom": i, "odom": o,
                                          "steps": _steps(rng, [base], 10, True)})
    for bd in (0, 1):
        for dname in DOMS[1:]:
            for w in (0, 2):
                base = [0, 2, w, [1, 0][:w], 0]
                i, o = (dname, None) if bd == 1 else (None, dname)
                cases.append({"k": "ff", "tag": "baddom", "bases": [base], "e": ["b", 0], "bd": bd, "bdform": 0,
                              "idom": i, "odom": o, "steps": _steps(rng, [base], 4, True)})

    def add_sim(bases, e, bd, tag, bad=False):
        if rng.random() < 0.55:
            cases.append({"k": "buf", "tag": tag, "bases": bases, "e": e, "bd": bd, "bdform": rng.randrange(2),
                          "steps": _steps(rng, bases, 8, False)})
        else:
            i, o = _rand_doms(rng, bd, bad and rng.random() < 0.3)
            cases.append({"k": "ff", "tag": tag, "bases": bases, "e": e, "bd": bd, "bdform": rng.randrange(2),
                          "idom": i, "odom": o, "steps": _steps(rng, bases, 10, True)})
    for _ in range(1000 if not thorough else 12000):
        nb = rng.randrange(1, 4)
        bad = rng.random() < 0.1
        ds, bd = _compat_dirs(rng, nb, bad)
        bases = [_rand_base(rng, 0, ds[b]) for b in range(nb)]
        mal = rng.random() < 0.08
        e = _rand_expr(rng, [b[2] for b in bases], nb, rng.randrange(0, 4), mal)
        tag = "rand" + ("_baddir" if bad else "") + ("_mal" if mal else "")
        if _alias_under_slice(e, [b[2] for b in bases]):
            tag = "alias_rand"
        add_sim(bases, e, bd, tag, bad)
    # ports sliced out of a port that repeats a wire (finding C18-SIM-LHS-ALIAS), built on purpose
    for _ in range(60 if not thorough else 600):
        nb = rng.randrange(1, 3)
        ds, bd = _compat_dirs(rng, nb, False)
        if bd == 0:
            bd = rng.choice((1, 2))
            ds = [2] * nb
        bases = [_rand_base(rng, 0, ds[b], 4, 0) for b in range(nb)]
        bases[0][2] = max(bases[0][2], 1)
        if isinstance(bases[0][3], list):
            bases[0][3] = [rng.randrange(2) for _ in range(bases[0][2])]
        widths = [b[2] for b in bases]
        x = ["b", 0]
        y = rng.choice([["b", 0], ["s", ["b", 0], 0, rng.randrange(1, widths[0] + 1), None], ["~", ["b", 0]]])
        src = ["+", x, y] if rng.random() < 0.6 else ["+", y, ["+", ["b", nb - 1], x]]
        n = _plen(src, widths)
        q = rng.random()
        if q < 0.4:
            e = ["i", src, rng.randrange(-n, n)]
        elif q < 0.8:
            lo = rng.randrange(0, n)
            e = ["s", src, lo, rng.randrange(lo, n + 1), None]
        else:
            e = ["s", src, None, None, rng.choice((2, -1, 3))]
        if rng.random() < 0.3:
            e = ["~", e]
        add_sim(bases, e, bd, "alias_built")
    # several buffers on a partition of one (concatenated) port, one simulated design
    for _ in range(200 if not thorough else 2500):
        nb = rng.randrange(1, 3)
        bases = [_rand_base(rng, 0, 2, 5, 0.02) for _ in range(nb)]
        widths = [b[2] for b in bases]
        src = ["b", 0] if nb == 1 or rng.random() < 0.4 else ["+", ["b", 0], ["~", ["b", 1]]]
        n = _plen(src, widths)
        bufs = []
        for e in _partition(rng, src, n, rng.randrange(2, 5)):
            if rng.random() < 0.3:
                e = ["~", e]
            bufs.append([rng.randrange(3), e])
        if rng.random() < 0.4:                      # an extra Input buffer overlapping the others (drives nothing)
            bufs.insert(rng.randrange(len(bufs) + 1), [0, _rand_expr(rng, widths, nb, rng.randrange(0, 3))])
        steps = []
        for _k in range(6):
            mode = rng.random()
            steps.append([[[_word(rng, mode, (_plen(e, widths) or 0) + 1), rng.randrange(2)] for _, e in bufs],
                          [_word(rng, mode, w) for w in widths]])
        cases.append({"k": "multi", "tag": "partition" if src[0] == "b" else "partition_cat", "bases": bases,
                      "bufs": bufs, "steps": steps})
    # ---------------------------------------------------------------- netlists of buffers on real ports
    # every width/mask/direction, one buffer on the whole port
    for kind in (1, 2):
        for w in range(0, 4):
            for m in range(1 << w):
                for pd in range(3):
                    for bd in range(3):
                        ff = None
                        if (m + pd + bd + kind) % 3 == 0:
                            ff = list(_rand_doms(rng, bd))
                        cases.append({"k": "net", "tag": ("whole" if ff is None else "whole_ff") if (pd == 2 or pd == bd)
                                      else "baddir",
                                      "bases": [[kind, pd if (pd != 2 or m % 2) else None, w, _bits(m, w), bd % 2]],
                                      "bufs": [[bd, ["b", 0], ff]]})
    for bd in (0, 1):
        for dname in DOMS[1:]:
            i, o = (dname, None) if bd == 1 else (None, dname)
            cases.append({"k": "net", "tag": "baddom", "bases": [[1, 2, 2, [1, 0], 0]], "bufs": [[bd, ["b", 0], [i, o]]]})
    for _ in range(800 if not thorough else 10000):
        nb = rng.randrange(1, 4)
        kind = rng.choice((1, 2))
        bases = [_rand_base(rng, kind if rng.random() < 0.95 else 3 - kind, 2 if rng.random() < 0.8 else None, 5)
                 for _ in range(nb)]
        widths = [b[2] for b in bases]
        mode = rng.random()
        bufs = []

        def ffspec(bd):
            return list(_rand_doms(rng, bd, rng.random() < 0.05)) if rng.random() < 0.4 else None
        if mode < 0.55:
            # partition of base 0 (or of b0 + b1) into consecutive slices, each its own buffer
            src = ["b", 0]
            if nb > 1 and bases[1][0] == bases[0][0] and rng.random() < 0.5:
                src = ["+", ["b", 0], ["~", ["b", 1]]] if rng.random() < 0.5 else ["+", ["b", 1], ["b", 0]]
            n = _plen(src, widths)
            for e in _partition(rng, src, n, rng.randrange(1, 4)):
                if rng.random() < 0.3:
                    e = ["~", e]
                if rng.random() < 0.15:
                    e = ["s", e, None, None, -1]
                bd = rng.randrange(3)
                bufs.append([bd, e, ffspec(bd)])
            tag = "partition"
        elif mode < 0.8:
            for _k in range(rng.randrange(1, 4)):
                bd = rng.randrange(3)
                bufs.append([bd, _rand_expr(rng, widths, nb, rng.randrange(0, 3)), ffspec(bd)])
            tag = "overlap"
        else:
            for j in range(nb):
                e = _rand_expr(rng, widths, nb, rng.randrange(0, 4), rng.random() < 0.2)
                bd = rng.randrange(3)
                bufs.append([bd, e, ffspec(bd)])
            tag = "rand"
        if any(b[2] is not None for b in bufs):
            tag += "_ff"
        cases.append({"k": "net", "tag": tag, "bases": bases, "bufs": bufs})
    rng.shuffle(cases)          # uniform shards
    return cases


# ------------------------------------------------------------------ implementation side
def _err(e):
    return [0, ERR.get(type(e).__name__, 90 + len(type(e).__name__))]


def _dirarg(d, form):
    from amaranth.lib import io
    return io.Direction(DIRS[d]) if form else DIRS[d]


def _mk_bases(bases):
    from amaranth.hdl import IOPort
    from amaranth.lib import io
    ports, sigmap, iomap = [], {}, {}
    for b, (kind, d, w, inv, dform) in enumerate(bases):
        kw = {}
        if inv is not None:
            kw["invert"] = inv if isinstance(inv, bool) else [bool(x) for x in inv]
        if kind == 0:
            p = io.SimulationPort(_dirarg(d, dform), w, name=f"p{b}", **kw)
            for s in (p._i, p._o, p._oe):
                if s is not None:
                    sigmap[id(s)] = b
        else:
            if d is not None:
                kw["direction"] = _dirarg(d, dform)
            a = IOPort(w, name=f"io{2 * b}")
            iomap[id(a)] = 2 * b
            if kind == 1:
                p = io.SingleEndedPort(a, **kw)
            else:
                n = IOPort(w, name=f"io{2 * b + 1}")
                iomap[id(n)] = 2 * b + 1
                p = io.DifferentialPort(a, n, **kw)
        ports.append(p)
    return ports, sigmap, iomap


def _build(e, ports):
    t = e[0]
    if t == "b":
        return ports[e[1]]
    if t == "i":
        return _build(e[1], ports)[e[2]]
    if t == "s":
        return _build(e[1], ports)[slice(e[2], e[3], e[4])]
    if t == "+":
        a = _build(e[1], ports)
        b = _build(e[2], ports)
        return a + b
    if t == "~":
        return ~_build(e[1], ports)
    raise ValueError(t)


def _flat_value(v, sigmap):
    from amaranth.hdl._ast import Signal, Slice, Concat
    if isinstance(v, Signal):
        return [(sigmap[id(v)], k) for k in range(len(v))]
    if isinstance(v, Slice):
        return _flat_value(v.value, sigmap)[v.start:v.stop]
    if isinstance(v, Concat):
        out = []
        for p in v.parts:
            out += _flat_value(p, sigmap)
        return out
    raise TypeError(repr(v))


def _enc_value(v, sigmap):
    """the Value tree itself: Signal -> 0 b w, Slice -> 1 lo hi v, Cat -> 2 n parts"""
    from amaranth.hdl._ast import Signal, Slice, Concat
    if isinstance(v, Signal):
        return [0, sigmap[id(v)], len(v)]
    if isinstance(v, Slice):
        return [1, v.start, v.stop] + _enc_value(v.value, sigmap)
    if isinstance(v, Concat):
        out = [2, len(v.parts)]
        for p in v.parts:
            out += _enc_value(p, sigmap)
        return out
    raise TypeError(repr(v))


def _flat_io(v, iomap):
    from amaranth.hdl._ast import IOPort, IOSlice, IOConcat
    if isinstance(v, IOPort):
        return [(iomap[id(v)], k) for k in range(len(v))]
    if isinstance(v, IOSlice):
        return _flat_io(v.value, iomap)[v.start:v.stop]
    if isinstance(v, IOConcat):
        out = []
        for p in v.parts:
            out += _flat_io(p, iomap)
        return out
    raise TypeError(repr(v))


def _run_port(c):
    from amaranth.lib import io
    try:
        ports, sigmap, iomap = _mk_bases(c["bases"])
        p = _build(c["e"], ports)
    except Exception as e:
        return _err(e)
    d = DIRS.index(p.direction.value)
    inv = [int(x) for x in p.invert]
    if not all(isinstance(x, bool) for x in p.invert) or not isinstance(p.invert, tuple):
        return [-2, 1]
    nrefs = []
    tree = []
    if isinstance(p, io.SimulationPort):
        kind = 0
        present = [s for s in (p._i, p._o, p._oe) if s is not None]
        want = {0: 1, 1: 2, 2: 3}[d]
        if len(present) != want or (p._i is None) != (d == 1) or (p._o is None) != (d == 0) or (p._oe is None) != (d == 0):
            return [-2, 2]
        fl = [_flat_value(s, sigmap) for s in present]
        trees = [_enc_value(s, sigmap) for s in present]
        if any(f != fl[0] for f in fl) or any(t != trees[0] for t in trees):
            return [-2, 3]
        refs = fl[0]
        tree = trees[0]
    elif isinstance(p, io.SingleEndedPort):
        kind = 1
        refs = _flat_io(p.io, iomap)
    else:
        kind = 2
        refs = _flat_io(p.p, iomap)
        nrefs = _flat_io(p.n, iomap)
    if len(p) != len(refs):
        return [-2, 4]
    out = [1, kind, d, len(refs), len(nrefs), len(inv)] + inv
    for r in refs + nrefs:
        out += list(r)
    return out + tree


def _obs_bases(ctx, ports):
    out = []
    for p in ports:
        if p._o is not None:
            out.append(ctx.get(p._o))
    for p in ports:
        if p._oe is not None:
            out.append(ctx.get(p._oe))
    return out


def _set_bases(ctx, ports, iv):
    for b, base in enumerate(ports):
        if base._i is not None:
            ctx.set(base._i, iv[b])


def _run_buf(c):
    from amaranth.hdl import Module
    from amaranth.lib import io
    from amaranth.sim import Simulator
    bd = c["bd"]
    try:
        ports, sigmap, iomap = _mk_bases(c["bases"])
        p = _build(c["e"], ports)
        buf = io.Buffer(_dirarg(bd, c.get("bdform", 0)), p)
    except Exception as e:
        return _err(e)
    m = Module()
    m.submodules.buf = buf
    sim = Simulator(m)
    out = [1]

    async def tb(ctx):
        for o, oe, iv in c["steps"]:
            if bd != 0:
                ctx.set(buf.o, o & ((1 << len(p)) - 1))
                ctx.set(buf.oe, oe)
            _set_bases(ctx, ports, iv)
            out.extend(_obs_bases(ctx, ports))
            out.append(ctx.get(buf.i) if bd != 1 else 0)
    sim.add_testbench(tb)
    sim.run()
    return out


def _run_multi(c):
    from amaranth.hdl import Module
    from amaranth.lib import io
    from amaranth.sim import Simulator
    try:
        ports, sigmap, iomap = _mk_bases(c["bases"])
        bufs = [io.Buffer(DIRS[bd], _build(e, ports)) for bd, e in c["bufs"]]
    except Exception as e:
        return _err(e)
    m = Module()
    for j, b in enumerate(bufs):
        m.submodules[f"b{j}"] = b
    sim = Simulator(m)
    out = [1]

    async def tb(ctx):
        for oes, iv in c["steps"]:
            for b, (o, oe) in zip(bufs, oes):
                if b.direction.value != "i":
                    ctx.set(b.o, o & ((1 << len(b.port)) - 1))
                    ctx.set(b.oe, oe)
            _set_bases(ctx, ports, iv)
            out.extend(_obs_bases(ctx, ports))
            for b in bufs:
                out.append(ctx.get(b.i) if b.direction.value != "o" else 0)
    sim.add_testbench(tb)
    sim.run()
    return out


def _ff_kwargs(i, o):
    kw = {}
    if i is not None:
        kw["i_domain"] = i
    if o is not None:
        kw["o_domain"] = o
    return kw


def _run_ff(c):
    from amaranth.hdl import Module, ClockDomain, Cat
    from amaranth.lib import io
    from amaranth.sim import Simulator
    bd = c["bd"]
    try:
        ports, sigmap, iomap = _mk_bases(c["bases"])
        p = _build(c["e"], ports)
        ff = io.FFBuffer(_dirarg(bd, c.get("bdform", 0)), p, **_ff_kwargs(c["idom"], c["odom"]))
    except Exception as e:
        return _err(e)
    m = Module()
    cds = [ClockDomain(n) for n in ("sync", "a", "b")]      # the buffer finds its clocks by name
    for cd in cds:
        m.domains += cd
    m.submodules.ff = ff
    sim = Simulator(m)
    out = [1]
    clks = Cat(cd.clk for cd in cds)

    async def tb(ctx):
        for o, oe, iv, t in c["steps"]:
            if bd != 0:
                ctx.set(ff.o, o & ((1 << len(p)) - 1))
                ctx.set(ff.oe, oe)
            _set_bases(ctx, ports, iv)
            if any(t):
                ctx.set(clks, t[0] | t[1] << 1 | t[2] << 2)
            out.extend(_obs_bases(ctx, ports))
            out.append(ctx.get(ff.i) if bd != 1 else 0)
            ctx.set(clks, 0)
    sim.add_testbench(tb)
    sim.run()
    return out


def _run_net(c):
    from amaranth.hdl import Module, ClockDomain
    from amaranth.hdl._ir import build_netlist, Fragment
    from amaranth.hdl import _nir
    from amaranth.lib import io
    try:
        ports, sigmap, iomap = _mk_bases(c["bases"])
        bufs = []
        for bd, e, ff in c["bufs"]:
            p = _build(e, ports)
            if ff is None:
                bufs.append(io.Buffer(DIRS[bd], p))
            else:
                bufs.append(io.FFBuffer(DIRS[bd], p, **_ff_kwargs(*ff)))
    except Exception as e:
        return _err(e)
    m = Module()
    cds = [ClockDomain(n) for n in ("sync", "a", "b")]
    for cd in cds:
        m.domains += cd
    sigs = [cd.clk for cd in cds]
    for j, b in enumerate(bufs):
        m.submodules[f"b{j}"] = b
        d = b.direction.value
        if "i" in d:
            sigs.append(b.i)
        if "o" in d:
            sigs += [b.o, b.oe]
    try:
        nl = build_netlist(Fragment.get(m, None), ports=sigs)
    except Exception as e:
        return _err(e)
    # signals of interest -> nets
    net2sig = {}
    for j, b in enumerate(bufs):
        if "o" in b.direction.value:
            for k, net in enumerate(nl.signals[b.o]):
                net2sig[net] = ("o", j, k)
            for k, net in enumerate(nl.signals[b.oe]):
                net2sig[net] = ("oe", j, k)
    clk2dom = {}
    for n, cd in enumerate(cds):
        v = nl.signals.get(cd.clk)
        if v is not None and len(v) == 1 and not v[0].is_const:
            clk2dom[v[0]] = n + 1

    def trace(net, depth=0):
        """-> (source, inverted, clock domains of the flip-flops passed, outermost first);
        source = ('o'|'oe', buf, bit) | ('cell', idx, bit) | ('const', v) | ('?',)"""
        if net in net2sig:
            return net2sig[net], 0, ()
        if net.is_const:
            return ("const", net.const), 0, ()
        if net.is_late or depth > 8 or net.cell == 0:
            return ("?", int(net)), 0, ()
        cell = nl.cells[net.cell]
        if isinstance(cell, _nir.IOBuffer):
            return ("cell", net.cell, net.bit), 0, ()
        if isinstance(cell, _nir.FlipFlop):
            # a plain register: rising edge, init 0, no asynchronous reset
            if cell.clk_edge != "pos" or cell.init != 0 or not (cell.arst.is_const and cell.arst.const == 0):
                return ("?", int(net)), 0, ()
            s, i, f = trace(cell.data[net.bit], depth + 1)
            return s, i, (clk2dom.get(cell.clk, 9),) + f
        if isinstance(cell, _nir.Operator) and cell.operator == "~":
            s, i, f = trace(cell.inputs[0][net.bit], depth + 1)
            return s, i ^ 1, f
        if isinstance(cell, _nir.Operator) and cell.operator == "^":
            (s1, i1, f1), (s2, i2, f2) = (trace(v[net.bit], depth + 1) for v in cell.inputs)
            if s2[0] == "const":
                return s1, i1 ^ i2 ^ s2[1], f1
            if s1[0] == "const":
                return s2, i1 ^ i2 ^ s1[1], f2
        return ("?", int(net)), 0, ()

    iobs = [(idx, cell) for idx, cell in enumerate(nl.cells) if isinstance(cell, _nir.IOBuffer)]
    out = [1, len(iobs)]
    dcode = {"input": 0, "output": 1, "inout": 2}
    pos = 0
    for j, b in enumerate(bufs):
        mine = [(idx, cell) for idx, cell in iobs if nl.modules[cell.module_idx].name[1] == f"b{j}"]
        # cells of consecutive buffers must appear in order
        if [idx for idx, _ in mine] != [idx for idx, _ in iobs[pos:pos + len(mine)]]:
            return [-2, 6]
        pos += len(mine)
        out.append(len(mine))
        oregs, iregs = set(), set()
        for idx, cell in mine:
            out += [dcode[cell.dir.value], len(cell.port)]
            for net in cell.port:
                out += [iomap[id(nl.io_ports[net.port])], net.bit]
            if cell.o is None:
                out.append(0)
            else:
                out.append(len(cell.o))
                for net in cell.o:
                    s, inv, f = trace(net)
                    if s[0] != "o" or s[1] != j:
                        return [-2, 7]
                    out += [s[2], inv]
                    oregs.add(f)
                s, inv, f = trace(cell.oe)
                if s != ("oe", j, 0) or inv:
                    return [-2, 8]
                oregs.add(f)
        if "i" in b.direction.value:
            nets = nl.signals[b.i]
            out.append(len(nets))
            local = {idx: n for n, (idx, _) in enumerate(mine)}
            for net in nets:
                s, inv, f = trace(net)
                if s[0] != "cell" or s[1] not in local:
                    return [-2, 9]
                out += [local[s[1]], s[2], inv]
                iregs.add(f)
        else:
            out.append(0)
        # register stages: every bit of a direction must pass the same registers
        for regs in (oregs, iregs):
            if len(regs) > 1 or any(len(set(f)) > 1 for f in regs):
                return [-2, 10]
            f = next(iter(regs)) if regs else ()      # (a zero-width buffer has no i bit: nothing to see there)
            out += [0, 0] if not f else [len(f), f[0]]
    return out


def run_impl(c):
    k = c["k"]
    if k == "port":
        return _run_port(c)
    if k == "buf":
        return _run_buf(c)
    if k == "ff":
        return _run_ff(c)
    if k == "multi":
        return _run_multi(c)
    if k == "net":
        return _run_net(c)
    raise ValueError(k)


# ------------------------------------------------------------------ Coq side
def _oz(v):
    return "None" if v is None else f"(Some {z(v)})"


def _dir(d):
    return ("DIn", "DOut", "DBidir")[d]


def _odir(d):
    return "None" if d is None else f"(Some {_dir(d)})"


def _bl(bs):
    return "[" + "; ".join(blit(b) for b in bs) + "]"


def _inv(inv):
    if inv is None:
        return "InvDefault"
    if isinstance(inv, bool):
        return f"(InvBool {blit(inv)})"
    return f"(InvList {_bl(inv)})"


def _dom(d):
    return "None" if d is None else "(Some %s)" % {"sync": "DSync", "a": "DA", "b": "DB"}[d]


def _expr(e):
    t = e[0]
    if t == "b":
        return f"(PBase {e[1]})"
    if t == "i":
        return f"(PIdx {_expr(e[1])} {z(e[2])})"
    if t == "s":
        return f"(PSlice {_expr(e[1])} (Sl {_oz(e[2])} {_oz(e[3])} {_oz(e[4])}))"
    if t == "+":
        return f"(PAdd {_expr(e[1])} {_expr(e[2])})"
    return f"(PInv {_expr(e[1])})"


def _bases(bases):
    out = []
    for k, d, w, inv, _ in bases:
        if k == 0:
            out.append(f"BSim {_dir(d)} {w} {_inv(inv)}")
        else:
            out.append(f"{'BSingle' if k == 1 else 'BDiff'} {_odir(d)} {w} {_inv(inv)}")
    return "[" + "; ".join(out) + "]"


def coq_term(c):
    k = c["k"]
    if k == "port":
        return f"k_port {_bases(c['bases'])} {_expr(c['e'])}"
    if k == "buf":
        st = "[" + "; ".join(f"({z(o)}, {z(oe)}, {zlist(iv)})" for o, oe, iv in c["steps"]) + "]"
        return f"k_buf {_bases(c['bases'])} {_expr(c['e'])} {_dir(c['bd'])} {st}"
    if k == "ff":
        st = "[" + "; ".join(f"({z(o)}, {z(oe)}, {zlist(iv)}, Tk {blit(t[0])} {blit(t[1])} {blit(t[2])})"
                             for o, oe, iv, t in c["steps"]) + "]"
        return (f"k_ff {_bases(c['bases'])} {_expr(c['e'])} {_dir(c['bd'])} {_dom(c['idom'])} {_dom(c['odom'])} {st}")
    if k == "multi":
        bufs = "[" + "; ".join(f"({_dir(bd)}, {_expr(e)})" for bd, e in c["bufs"]) + "]"
        st = "[" + "; ".join("([" + "; ".join(f"({z(o)}, {z(oe)})" for o, oe in oes) + f"], {zlist(iv)})"
                             for oes, iv in c["steps"]) + "]"
        return f"k_multi {_bases(c['bases'])} {bufs} {st}"
    if k == "net":
        bufs = "[" + "; ".join(
            f"({_dir(bd)}, {_expr(e)}, " + ("None" if ff is None else f"Some ({_dom(ff[0])}, {_dom(ff[1])})") + ")"
            for bd, e, ff in c["bufs"]) + "]"
        return f"k_net {_bases(c['bases'])} {bufs}"
    raise ValueError(k)


def explain(c):
    return ("model answer: [0, err] (1 IndexError, 2 ValueError, 3 TypeError, 4 DriverConflict) or 1 :: payload; "
            "port: kind, dir, len, len(n), len(invert), invert bits, (base, bit) wires, Value tree (simulation ports); "
            "buf/ff/multi: per step the o words of the base ports that have one, their oe words, then the buffers' i "
            "(after -7: what the simulator's Slice-of-Cat lowering would give instead, finding C18-SIM-LHS-ALIAS); "
            "net: #cells, then per buffer its cells (dir, n, wires, #o, (o bit, inverted)...), its i bits "
            "(cell, bit, inverted) and the register stages (count, domain) on the o and on the i path")

"""C20 — Print, Assert and Format match Python formatting at the right instants."""
import contextlib, io, itertools, random
from common import z, zlist, blit

ID = "C20"
LEVEL = "proof"
PROPS_FILE = "C20.v"
RUN_MODULE = "RunC20"
TRANSLATOR_UNITS = []
RULE = ("fmt: the whole accepted grammar fill{none,' ','*','0','x'} x align{none,<,>,=} x sign x '#' x '0' x "
        "width{none,1,5,12} x '_' x type{none,b,o,d,x,X,c,s} (16384 specs, each with a shape that accepts it when one "
        "exists, 8% with a rejecting shape) x boundary/random values (1 per spec quick, 6 thorough), model py_format vs "
        "CPython format(); spec: grammar-random and mutated/invalid spec strings ('^', ',', 'n', precision, '00', "
        "unicode/brace/newline fills, '=' or sign or '#' with c/s, s on widths not multiple of 8) vs Format(...) "
        "accept/ValueError and the dict of _parse_format_spec; sim: random sync designs (1-4 input signals, nested "
        "If/Elif/Else and Switch/Case/Default, Print(Format) with 1-3 fields over sig/as_signed/as_unsigned/~/-, "
        "Assert/Assume/Cover with and without message, pos/neg-edge domain, sync reset, async reset excluded) driven "
        "by hand over 6-16 steps; observable = captured stdout + exception class/text + step index; "
        "rtl: FORMAT parameter of the $print cell written by back.rtlil for Print(Format('x{' '{:spec}', sig)) over every "
        "13th spec of the grammar (all in thorough) + random + fixed ('<05', '5c', brace and non-ASCII fills) vs the model "
        "of emit_print's string building. "
        "non-trivial = accepted spec (fmt/spec) or non-empty output/stop (sim); distinct by case hash")
MODELLED = ("Format._FORMAT_SPEC_PATTERN/_parse_format_spec, _StatementCompiler.emit_format/on_Print/on_Property, "
            "value_to_string, _emit_switch conditions and edge_waker, and the FORMAT string building of "
            "back/rtlil.py emit_print are modelled in coq/Model/Format.v; the reading of the FORMAT items "
            "(rchunks_render) follows the Yosys manual and is not validated (no Yosys available); CPython's "
            "int.__format__/str.__format__/bytes.decode are modelled (py_format, utf8_decode) and validated against the "
            "real CPython on the whole accepted grammar; the equality simulator-text = str.format holds because the "
            "simulator calls str.format and is validated only; If/Switch lowering to nested conditions is done by the "
            "harness (C02 owns the DSL lowering)")
ASSUMPTIONS = ["CPython 3.12 int/str __format__ and UTF-8 decoding as modelled by Format.py_format (validated by the fmt stream)",
               "async-reset domains excluded (finding F7 belongs to C03)"]
SHARD = 600

ALIGN = "<>="
TYPES = ["", "b", "o", "d", "x", "X", "c", "s"]


def _codes(s):
    return [ord(ch) for ch in s]


def _pack(s):
    """[number of code points] + code points"""
    return [len(s)] + _codes(s)


def classify(c):
    k = c["k"]
    if k == "fmt":
        t = c["spec"][-1:] if c["spec"][-1:] in "bodxXcs" and c["spec"] else "-"
        return f"fmt:{t or '-'}"
    if k == "spec":
        return "spec:" + c.get("cls", "?")
    if k == "rtl":
        t = c["spec"][-1:] if c["spec"] and c["spec"][-1:] in "bodxXcs" else "-"
        return f"rtl:{t}"
    return "sim:" + c.get("cls", "?")


def nontrivial(c, obs):
    if not isinstance(obs, list) or not obs:
        return False
    if c["k"] in ("fmt", "spec", "rtl"):
        return obs[0] == 1
    if obs[0] < 0 or len(obs) < 3:
        return False
    return obs[0] != 0 or obs[2] > 0


# ------------------------------------------------------------------ generators
BOUND = [0, 1, -1, 7, 8, 9, 10, 99, 100, 999, 1000, -1000, 4095, 4096, 65535, -32768, 123456789, 2 ** 31, -2 ** 31,
         2 ** 64 - 1, -2 ** 63, 255, 256, -128, 127, 15, 16, 63, 64, 511, 512]
STRS = ["A", "AB", "ABC", "hi!", "hé", "中", "\U0001F600", "aß€", "{x}", "  ", "\x7f", "0", "Zz9"]
BADBYTES = [[0xff], [0xc0, 0x80], [0xed, 0xa0, 0x80], [0xf4, 0x90, 0x80, 0x80], [0xe0, 0x80, 0x80], [0x80],
            [0xc3], [0xe2, 0x82], [0xf0, 0x9f, 0x98], [0x41, 0xfe], [0xf5, 0x80, 0x80, 0x80], [0xc1, 0xbf],
            [0xed, 0x9f, 0xbf], [0xf4, 0x8f, 0xbf, 0xbf], [0xe0, 0xa0, 0x80], [0xf0, 0x90, 0x80, 0x80], [0xc2, 0x80]]


def _str_value(rng, nbytes):
    """little-endian integer of a byte string that fits in nbytes (zero bytes may be interleaved)"""
    if nbytes == 0:
        return 0
    r = rng.random()
    if r < 0.2:
        bs = list(rng.choice(BADBYTES))
    elif r < 0.3:
        bs = [rng.randrange(0, 256) for _ in range(rng.randrange(1, nbytes + 1))]
    else:
        bs = list(rng.choice(STRS).encode())
    if rng.random() < 0.4 and len(bs) < nbytes:
        bs.insert(rng.randrange(0, len(bs) + 1), 0)
    bs = bs[:nbytes]
    return int.from_bytes(bytes(bs), "little")


def _fmt_values(rng, spec_type, w, n):
    out = []
    for _ in range(n):
        if spec_type == "s":
            out.append(_str_value(rng, max(w // 8, 1) if w else 0) if rng.random() < 0.9 else _str_value(rng, 8))
        elif spec_type == "c":
            r = rng.random()
            if r < 0.6:
                out.append(rng.choice([0x41, 0x7a, 0x20, 0xe9, 0x4e2d, 0x1f600, 0x10ffff, 0xd800, 0, 10, 0x7f, 0x80, 0xffff, 0x10000]))
            elif r < 0.8:
                out.append(rng.randrange(0, 0x110000))
            else:
                out.append(rng.choice([0x110000, -1, 0x110001, 2 ** 32, -65]))
        else:
            r = rng.random()
            if r < 0.5:
                out.append(rng.choice(BOUND))
            elif r < 0.8:
                k = rng.randrange(0, 70)
                out.append(rng.choice((1, -1)) * ((1 << k) + rng.randrange(-2, 3)))
            else:
                out.append(rng.randrange(-100000, 100000))
    return out


def _shape_for(rng, t, bad=False):
    if t == "c":
        return (rng.choice([8, 21, 24, 7, 32]), bad)
    if t == "s":
        if bad:
            return rng.choice([(8, True), (7, False), (12, False), (1, False), (16, True)])
        return (rng.choice([8, 16, 24, 32, 0, 64]), False)
    sg = rng.random() < 0.5
    return (rng.choice([1, 8, 16, 64, 3]) if sg else rng.choice([0, 1, 8, 16, 64, 5]), sg)


def gen_cases(tier, seed):
    rng = random.Random(seed)
    thorough = tier == "thorough"
    cases = []
    # --- stream 1: the whole accepted grammar against CPython
    nv = 6 if thorough else 2
    fa = [""] + list(ALIGN) + [f + a for f in " *0x" for a in ALIGN]
    for fill_align, sign, alt, zero, width, grp, t in itertools.product(
            fa, ["", "-", "+", " "], ["", "#"], ["", "0"], ["", "1", "5", "12"], ["", "_"], TYPES):
        spec = fill_align + sign + alt + zero + width + grp + t
        w, sg = _shape_for(rng, t, bad=rng.random() < 0.08)
        cases.append({"k": "fmt", "spec": spec, "w": w, "sg": sg, "vs": _fmt_values(rng, t, w, nv if thorough else 1)})
    # wider widths / other fills, random
    for _ in range(1500 if not thorough else 20000):
        spec, t = _rand_spec(rng, valid=True)
        w, sg = _shape_for(rng, t)
        cases.append({"k": "fmt", "spec": spec, "w": w, "sg": sg, "vs": _fmt_values(rng, t, w, nv)})
    # --- stream 2: accept / reject and the parsed dict
    for _ in range(3000 if not thorough else 30000):
        r = rng.random()
        if r < 0.35:
            spec, t = _rand_spec(rng, valid=True)
            cls = "grammar"
        elif r < 0.6:
            spec, t = _rand_spec(rng, valid=False)
            cls = "grammar-any"
        else:
            spec, t = _rand_spec(rng, valid=rng.random() < 0.5)
            spec = _mutate(rng, spec)
            cls = "mutated"
        if rng.random() < 0.7:
            w, sg = _shape_for(rng, t if t in ("c", "s") else "", bad=rng.random() < 0.2)
        else:
            sg = rng.random() < 0.5
            w = rng.randrange(1 if sg else 0, 34)
        cases.append({"k": "spec", "cls": cls, "spec": spec, "w": w, "sg": sg})
    for spec in ["^", "^5", "x^5", "^<5", "<^5", ",", "5,", "_", "n", "5n", ".3", "5.3d", "00", "05", "010", "0", "=5c", "=5s",
                 "x=5c", "+c", "#c", "0c", "_c", "+s", "#s", "05s", "_s", " s", "-c", "c", "s", "<<", "==", "=", ">", "\n<5", "\n",
                 "{<5", "}>3", "5 ", " 5", "d5", "dd", "D", "B", "e", "f", "%", "5_d", "5,d", "_5", "#0", "0#", "+-", "-+5",
                 "1234567", "é<5", "<", "x", "X", "b", "o", "<5x", "*=+#012_X", "  5", " <5", "ss", "cs", "١", "١٢"]:
        for (w, sg) in [(8, False), (8, True), (12, False), (0, False), (1, True)]:
            cases.append({"k": "spec", "cls": "fixed", "spec": spec, "w": w, "sg": sg})
    # --- stream 3: simulations
    for i in range(800 if not thorough else 12000):
        cases.append(_rand_sim(rng, thorough))
    # --- stream 4: FORMAT parameter of the emitted RTLIL $print cell (emission only; no Yosys here)
    k = 0
    for fill_align, sign, alt, zero, width, grp, t in itertools.product(
            fa, ["", "-", "+", " "], ["", "#"], ["", "0"], ["", "1", "5", "12"], ["", "_"], TYPES):
        k += 1
        if not thorough and k % 13 != seed % 13:
            continue
        w, sg = _shape_for(rng, t, bad=rng.random() < 0.03)
        cases.append({"k": "rtl", "spec": fill_align + sign + alt + zero + width + grp + t, "w": w, "sg": sg})
    for _ in range(300 if not thorough else 6000):
        w, sg = _shape_for(rng, rng.choice(TYPES))
        spec, t = _rand_spec(rng, valid=rng.random() < 0.9, shape=(w, sg), allow_brace=rng.random() < 0.1)
        cases.append({"k": "rtl", "spec": spec, "w": w, "sg": sg})
    for spec in ["<05", ">05", "=05", "05", "*<05", "5c", "<5c", ">5c", "*>5c", "{<5c", "{<4c", "}>3c", "{<5", "é<5", "é<5c",
                 "5s", ">5s", "0=8_d", "08_x", "#d", "#_b", " 010_o", "+#12_X", "c", "s", "", "d", "<", "1c", "0"]:
        for (w, sg) in [(8, False), (8, True), (16, False), (21, False)]:
            cases.append({"k": "rtl", "spec": spec, "w": w, "sg": sg})
    rng.shuffle(cases)          # every shard gets the same mix of cheap and expensive cases
    return cases


FILLS = [" ", "*", "0", "x", "<", "^", "=", ">", "-", "+", "#", "_", "é", "中", "1", "s", "c", ",", "n"]


def _rand_spec(rng, valid, shape=None, allow_brace=False, small=False):
    """returns (spec, type); valid=True stays inside the grammar accepted for a suitable shape"""
    types = TYPES
    if shape is not None and valid:
        w, sg = shape
        types = ["", "b", "o", "d", "x", "X"] + ([] if sg else ["c"] + (["s"] if w % 8 == 0 else []))
    t = rng.choice(types)
    cs = t in ("c", "s")
    r = rng.random()
    aligns = "<>" if (cs and valid) else ALIGN
    if r < 0.4:
        fa = ""
    elif r < 0.65:
        fa = rng.choice(aligns)
    else:
        f = rng.choice(FILLS)
        if allow_brace and rng.random() < 0.5:
            f = rng.choice("{}")
        if not valid and rng.random() < 0.05:
            f = rng.choice(["\n", "{", "}"])
        fa = f + rng.choice(aligns)
    if not valid and rng.random() < 0.08:
        fa = fa[:-1] + "^" if fa else "^"
    plain = cs and valid
    sign = "" if plain else rng.choice(["", "", "-", "+", " "])
    alt = "" if plain else rng.choice(["", "", "#"])
    zero = "" if plain else rng.choice(["", "", "0"])
    width = rng.choice(["", "", "1", "2", "3", "5", "7", "9", "10", "12", "20"] + ([] if small else ["33", "100"]))
    grp = "" if plain else rng.choice(["", "", "_"])
    if not valid and rng.random() < 0.06:
        grp = ","
    if not valid and rng.random() < 0.06:
        t = "n"
    return fa + sign + alt + zero + width + grp + t, t


def _mutate(rng, spec):
    r = rng.randrange(8)
    pool = "^,n.0_#+- <>=bodxXcs19%eEfgG{}\né"
    pos = rng.randrange(0, len(spec) + 1)
    if r < 3:
        return spec[:pos] + rng.choice(pool) + spec[pos:]
    if r < 5 and spec:
        pos = rng.randrange(0, len(spec))
        return spec[:pos] + spec[pos + 1:]
    if r < 7 and spec:
        pos = rng.randrange(0, len(spec))
        return spec[:pos] + rng.choice(pool) + spec[pos + 1:]
    return spec + rng.choice([".2", "00", "n", ",d", "^", "dd", " "])


LITS = ["", "v=", " ", "x{", "}y", "{{}}", "a b", "é:", "[", "]", "=> ", "\t", "%d"]


def _rand_sim(rng, thorough):
    nsig = rng.randrange(1, 5)
    sigs = []
    for _ in range(nsig):
        sg = rng.random() < 0.4
        r = rng.random()
        if r < 0.6:
            w = rng.randrange(1 if sg else 0, 9)
        elif r < 0.85:
            w = rng.choice([8, 16, 24, 32])
        else:
            w = rng.randrange(9, 40 if not thorough else 70)
        sigs.append([w, sg])
    stats = {"print": 0, "prop": 0, "ctl": 0, "brace": 0, "bad": 0}

    def vexpr():
        i = rng.randrange(nsig)
        r = rng.random()
        if r < 0.6:
            return ["sig", i]
        op = rng.choice(["as_s", "as_u", "inv", "neg"])
        if op == "as_s" and sigs[i][0] == 0:
            op = "as_u"
        return [op, i]

    def vshape(e):
        w, sg = sigs[e[1]]
        return {"sig": (w, sg), "inv": (w, sg), "as_s": (w, True), "as_u": (w, False), "neg": (w + 1, True)}[e[0]]

    def fmt():
        chunks = []
        nf = rng.choice([0, 1, 1, 1, 2, 3])
        brace = rng.random() < 0.02 and nf == 1
        for j in range(nf):
            if rng.random() < 0.6 and not brace:
                chunks.append(["lit", rng.choice(LITS)])
            e = vexpr()
            valid = rng.random() < 0.97
            if not valid:
                stats["bad"] += 1
            spec, _ = _rand_spec(rng, valid=valid, shape=vshape(e), allow_brace=brace, small=True)
            if brace and spec[:1] in "{}":
                stats["brace"] += 1
            chunks.append(["fld", e, spec])
        if (rng.random() < 0.5 or nf == 0) and not brace:
            chunks.append(["lit", rng.choice(LITS)])
        return chunks

    def pats(i):
        w = sigs[i][0]
        n = rng.choice([0, 1, 1, 1, 2, 3])
        out = []
        for _ in range(n):
            out.append("".join(rng.choice("01-" if rng.random() < 0.6 else "01") for _ in range(w)))
        return out

    def body(depth):
        out = []
        for _ in range(rng.choice([1, 1, 2] if depth < top else [1, 2, 2, 3])):
            r = rng.random()
            if depth > 0 and r < 0.4:
                stats["ctl"] += 1
                if rng.random() < 0.55:
                    arms = [[rng.randrange(nsig), body(depth - 1)] for _ in range(rng.choice([1, 1, 2, 3]))]
                    els = body(depth - 1) if rng.random() < 0.5 else None
                    out.append(["if", arms, els])
                else:
                    i = rng.randrange(nsig)
                    arms = [[pats(i), body(depth - 1)] for _ in range(rng.choice([1, 2, 3]))]
                    if rng.random() < 0.4:
                        arms.append(["default", body(depth - 1)])
                    out.append(["switch", i, arms])
            elif r < 0.75:
                stats["print"] += 1
                out.append(["print", fmt()])
            else:
                stats["prop"] += 1
                kind = rng.choice(["assert", "assert", "assume", "cover"])
                msg = rng.choice([None, "fmt", "fmt", "str"])
                if kind == "cover" and msg is None and rng.random() < 0.85:
                    msg = "fmt"
                if msg == "fmt":
                    msg = fmt()
                elif msg == "str":
                    msg = [["lit", rng.choice(["boom", "x={}", "", "é!"])]]
                out.append(["prop", kind, vexpr(), msg])
        return out

    top = rng.choice([0, 1, 1, 2, 2, 3])
    prog = body(top)
    pos = rng.random() < 0.7
    has_rst = rng.random() < 0.5
    steps = []
    clk = 0

    def rand_val(i):
        w, sg = sigs[i]
        lo, hi = (-(1 << (w - 1)), (1 << (w - 1)) - 1) if sg else (0, (1 << w) - 1)
        r = rng.random()
        if r < 0.35:
            return rng.choice([lo, hi, 0, min(1, hi), max(-1, lo)])
        if r < 0.55 and not sg and w % 8 == 0 and w:
            return _str_value(rng, w // 8)
        if r < 0.65 and not sg:
            return min(hi, rng.choice([0x41, 0xe9, 0x4e2d, 0x10ffff, 0x110000, 0x1f600]))
        return rng.randrange(lo, hi + 1)

    for _ in range(rng.randrange(6, 17 if not thorough else 30)):
        r = rng.random()
        if r < 0.45:
            i = rng.randrange(nsig)
            steps.append(["set", i, rand_val(i)])
        elif r < 0.92 or not has_rst:
            clk = (1 - clk) if rng.random() < 0.9 else clk
            steps.append(["clk", clk])
        else:
            steps.append(["rst", rng.randrange(2)])
    kinds = [k for k in ("print", "prop", "ctl") if stats[k]]
    cls = "+".join(kinds) + ("+brace" if stats["brace"] else "") + ("+badspec" if stats["bad"] else "")
    return {"k": "sim", "cls": cls, "sigs": sigs, "pos": pos, "rst": has_rst, "prog": prog, "steps": steps}


# ------------------------------------------------------------------ implementation side
def _exc_code(e):
    return [-1, sum(map(ord, type(e).__name__))]


def _mk_format(Format, chunks, values):
    """Format object from model chunks through the public constructor"""
    s = ""
    args = []
    for ch in chunks:
        if ch[0] == "lit":
            s += ch[1].replace("{", "{{").replace("}", "}}")
        else:
            spec = ch[2]
            args.append(values(ch[1]))
            if "{" in spec or "}" in spec:
                s += "{:{}}"
                args.append(spec)
            else:
                s += "{:" + spec + "}"
    return Format(s, *args)


def run_impl(c):
    from amaranth.hdl import Shape, Signal, Format
    k = c["k"]
    if k in ("fmt", "spec"):
        from amaranth.sim._pyeval import value_to_string
        spec = c["spec"]
        shape = Shape(c["w"], c["sg"])
        try:
            _mk_format(Format, [["fld", None, spec]], lambda e: Signal(shape))
        except Exception as e:
            if type(e).__name__ == "ValueError":
                return [0]
            return _exc_code(e)
        if k == "spec":
            d = Format._parse_format_spec(spec, shape)
            o = lambda x: -1 if x is None else ord(x)
            return [1, o(d["fill"]), o(d["align"]), o(d["sign"]), int(d["show_base"]), d["width"], o(d["grouping"]), o(d["type"])]
        out = [1]
        for v in c["vs"]:
            try:
                if spec.endswith("s"):
                    if v < 0:
                        raise OverflowError   # value_to_string does not terminate on negative ints (unreachable: unsigned only)
                    txt = format(value_to_string(v), spec[:-1])
                else:
                    txt = format(v, spec)
                out += _pack(txt)
            except (OverflowError, UnicodeDecodeError):
                out.append(-1)
        return out
    if k == "rtl":
        return _run_rtl(c)
    return _run_sim(c)


_UNESC = {"n": "\n", "t": "\t", "r": "\r", "\"": "\"", "\\": "\\"}


def _run_rtl(c):
    """FORMAT parameter of the $print cell of  Print(Format("x{" "{:<spec>}", sig))  as written by back.rtlil"""
    from amaranth.hdl import Shape, Signal, Format, Module, ClockDomain, Print
    from amaranth.back import rtlil
    sig = Signal(Shape(c["w"], c["sg"]), name="a")
    m = Module()
    m.domains.sync = ClockDomain("sync")
    try:
        m.d.sync += Print(_mk_format(Format, [["lit", "x{"], ["fld", None, c["spec"]]], lambda e: sig))
    except Exception as e:
        if type(e).__name__ == "ValueError":
            return [-2]
        return _exc_code(e)
    try:
        text = rtlil.convert(m, ports=[sig])
    except NotImplementedError:
        return [0]
    lines = [l for l in text.split("\n") if l.strip().startswith("parameter \\FORMAT ")]
    if len(lines) != 1:
        raise AssertionError(f"{len(lines)} FORMAT parameters")
    raw = lines[0].strip()[len("parameter \\FORMAT "):]
    assert raw[0] == '"' and raw[-1] == '"', raw
    raw, out, i = raw[1:-1], [], 0
    while i < len(raw):
        if raw[i] == "\\":
            out.append(_UNESC[raw[i + 1]])
            i += 2
        else:
            out.append(raw[i])
            i += 1
    return [1] + _codes("".join(out))


def _run_sim(c):
    from amaranth.hdl import Shape, Signal, Format, Module, ClockDomain, Print, Assert, Assume, Cover
    from amaranth.sim import Simulator
    sigs = [Signal(Shape(w, sg), name=f"s{i}") for i, (w, sg) in enumerate(c["sigs"])]
    m = Module()
    cd = ClockDomain("sync", clk_edge="pos" if c["pos"] else "neg", reset_less=not c["rst"])
    m.domains.sync = cd
    prefixes = []

    def val(e):
        s = sigs[e[1]]
        return {"sig": lambda: s, "as_s": s.as_signed, "as_u": s.as_unsigned, "inv": lambda: ~s, "neg": lambda: -s}[e[0]]()

    def build(stmts):
        for st in stmts:
            if st[0] == "print":
                m.d.sync += Print(_mk_format(Format, st[1], val))
            elif st[0] == "prop":
                msg = st[3]
                if msg is not None:
                    if all(ch[0] == "lit" for ch in msg) and len(msg) == 1 and "{" not in msg[0][1]:
                        msg = msg[0][1]               # plain str message
                    else:
                        msg = _mk_format(Format, msg, val)
                fn = {"assert": Assert, "assume": Assume, "cover": Cover}[st[1]]
                stmt = fn(val(st[2]), msg)
                if st[1] == "cover":
                    prefixes.append("Coverage hit at {}:{}:".format(*stmt.src_loc))
                m.d.sync += stmt
            elif st[0] == "if":
                for j, (i, b) in enumerate(st[1]):
                    with (m.If(sigs[i]) if j == 0 else m.Elif(sigs[i])):
                        build(b)
                if st[2] is not None:
                    with m.Else():
                        build(st[2])
            elif st[0] == "switch":
                with m.Switch(sigs[st[1]]):
                    for p, b in st[2]:
                        with (m.Default() if p == "default" else m.Case(*p)):
                            build(b)
            else:
                raise AssertionError(st)

    try:
        build(c["prog"])
    except Exception as e:
        if type(e).__name__ == "ValueError":
            return [-2]
        raise
    cur = [0]

    async def tb(ctx):
        for n, st in enumerate(c["steps"]):
            cur[0] = n
            if st[0] == "set":
                ctx.set(sigs[st[1]], st[2])
            elif st[0] == "clk":
                ctx.set(cd.clk, st[1])
            else:
                ctx.set(cd.rst, st[1])
        cur[0] = len(c["steps"])

    try:
        sim = Simulator(m)
    except SyntaxError as e:      # generated process code does not compile
        return _exc_code(e)
    sim.add_testbench(tb)
    buf = io.StringIO()
    code, msg = 0, ""
    with contextlib.redirect_stdout(buf):
        try:
            sim.run()
        except Exception as e:
            name = type(e).__name__
            code = {"AssertionError": 1, "OverflowError": 2, "UnicodeDecodeError": 3, "ValueError": 4}.get(name)
            if code is None:
                return _exc_code(e)
            msg = str(e) if code == 1 else ""
    text = buf.getvalue()
    for p in prefixes:
        text = text.replace(p, "\x1f")
    return [code, cur[0]] + _pack(text) + (_pack(msg) if code else [])


# ------------------------------------------------------------------ model side
def _s(s):
    return zlist(_codes(s))


def _vexpr(e):
    return {"sig": "VSig", "as_s": "VAsS", "as_u": "VAsU", "inv": "VInv", "neg": "VNeg"}[e[0]] + f" {e[1]}"


def _fmt_term(chunks):
    out = []
    for ch in chunks:
        if ch[0] == "lit":
            out.append(f"CLit {_s(ch[1])}")
        else:
            out.append(f"CField ({_vexpr(ch[1])}) {_s(ch[2])}")
    return "[" + "; ".join(out) + "]"


def _pat(p):
    mask = int("".join("0" if b == "-" else "1" for b in p) or "0", 2)
    value = int("".join("0" if b == "-" else b for b in p) or "0", 2)
    return f"({mask}, {value})"


def _prog_term(stmts):
    if not stmts:
        return "PSkip"
    terms = [_stmt_term(st) for st in stmts]
    t = terms[-1]
    for u in reversed(terms[:-1]):
        t = f"PSeq ({u}) ({t})"
    return t


def _stmt_term(st):
    if st[0] == "print":
        return f"PPrint {_fmt_term(st[1])}"
    if st[0] == "prop":
        k = {"assert": "KAssert", "assume": "KAssume", "cover": "KCover"}[st[1]]
        m = "None" if st[3] is None else f"(Some {_fmt_term(st[3])})"
        return f"PProp {k} ({_vexpr(st[2])}) {m}"
    if st[0] == "if":
        t = _prog_term(st[2]) if st[2] is not None else "PSkip"
        for i, b in reversed(st[1]):
            t = f"PIf (CNz {i}) ({_prog_term(b)}) ({t})"
        return t
    if st[0] == "switch":
        t = "PSkip"
        for p, b in reversed(st[2]):
            ps = "[(0, 0)]" if p == "default" else "[" + "; ".join(_pat(x) for x in p) + "]"
            t = f"PIf (CPat {st[1]} {ps}) ({_prog_term(b)}) ({t})"
        return t
    raise ValueError(st)


def coq_term(c):
    k = c["k"]
    if k == "spec":
        return f"k_spec {_s(c['spec'])} {z(c['w'])} {blit(c['sg'])}"
    if k == "rtl":
        return f"k_rtl {_s(c['spec'])} {z(c['w'])} {blit(c['sg'])}"
    if k == "fmt":
        return f"k_fmt {_s(c['spec'])} {z(c['w'])} {blit(c['sg'])} {zlist(c['vs'])}"
    sigs = "[" + "; ".join(f"Sh {w} {blit(sg)}" for w, sg in c["sigs"]) + "]"
    steps = []
    for st in c["steps"]:
        if st[0] == "set":
            steps.append(f"StSet {st[1]} {z(st[2])}")
        elif st[0] == "clk":
            steps.append(f"StClk {blit(st[1])}")
        else:
            steps.append(f"StRst {blit(st[1])}")
    return f"k_sim {sigs} {blit(c['pos'])} ({_prog_term(c['prog'])}) [" + "; ".join(steps) + "]"


def explain(c):
    return ("texts are n :: n code points; "
            "fmt: [0] rejected | 1 :: per value (text | -1 when Python raises); spec: [0] | 1 :: dict; "
            "sim: [code; step] ++ stdout text ++ exception text (code 0 finished, 1 AssertionError, "
            "2 OverflowError, 3 UnicodeDecodeError, 4 ValueError), [-2] ValueError at construction; \\x1f = 'Coverage hit at f:l:'")


# ------------------------------------------------------------------ findings
BRACE_ID = "C20-brace-fill"
EMPTY_ID = "C20-cover-empty-block"


def _bodies(stmts):
    """every statement list of the program that becomes one indented block of the generated process"""
    for st in stmts:
        if st[0] == "if":
            for _, b in st[1]:
                yield b
                yield from _bodies(b)
            if st[2] is not None:
                yield st[2]
                yield from _bodies(st[2])
        elif st[0] == "switch":
            for _, b in st[2]:
                yield b
                yield from _bodies(b)


def _formats(stmts):
    for st in stmts:
        if st[0] == "print":
            yield st[1]
        elif st[0] == "prop" and st[3]:
            yield st[3]
    for b in _bodies(stmts):
        for st in b:
            if st[0] == "print":
                yield st[1]
            elif st[0] == "prop" and st[3]:
                yield st[3]


def _silent(b):
    return all(st[0] == "prop" and st[1] == "cover" and st[3] is None for st in b)


def known_finding(case, obs, model):
    if case["k"] != "sim":
        return None
    # Cover without message is the only content of a block: the generated code has an empty block
    # (model = spec: such a Cover does nothing; the code raises IndentationError when the simulator is built)
    if obs == [-1, sum(map(ord, "IndentationError"))] and (
            any(_silent(b) for b in _bodies(case["prog"])) or (_silent(case["prog"]) and not case["rst"])):
        return EMPTY_ID
    # a '{' or '}' fill is accepted by Format and formatted by Python (model = spec), but the simulator's
    # re-assembled format string is malformed: ValueError (code 4) when the statement runs
    if obs[:1] == [4] and any(ch[0] == "fld" and ch[2][:1] in ("{", "}") and ch[2][1:2] in ("<", ">", "=")
                              for f in _formats(case["prog"]) for ch in f):
        return BRACE_ID
    return None


# ------------------------------------------------------------------ shrinking (simulator build failures only)
def _stmt_variants(stmts):
    """all statement lists obtained by one deletion / simplification somewhere in the tree"""
    for i, st in enumerate(stmts):
        pre, post = stmts[:i], stmts[i + 1:]
        yield pre + post
        if st[0] == "if":
            arms, els = st[1], st[2]
            if els is not None:
                yield pre + [["if", arms, None]] + post
                for nb in _stmt_variants(els):
                    if nb:
                        yield pre + [["if", arms, nb]] + post
            for j, (sig, b) in enumerate(arms):
                if len(arms) > 1:
                    yield pre + [["if", arms[:j] + arms[j + 1:], els]] + post
                for nb in _stmt_variants(b):
                    if nb:
                        yield pre + [["if", arms[:j] + [[sig, nb]] + arms[j + 1:], els]] + post
        elif st[0] == "switch":
            arms = st[2]
            for j, (p, b) in enumerate(arms):
                if len(arms) > 1:
                    yield pre + [["switch", st[1], arms[:j] + arms[j + 1:]]] + post
                for nb in _stmt_variants(b):
                    if nb:
                        yield pre + [["switch", st[1], arms[:j] + [[p, nb]] + arms[j + 1:]]] + post
        elif st[0] == "print" and st[1] != [["lit", "x"]]:
            yield pre + [["print", [["lit", "x"]]]] + post
        elif st[0] == "prop" and st[3] not in (None, [["lit", "x"]]):
            yield pre + [["prop", st[1], st[2], [["lit", "x"]]]] + post


def shrink(case, obs, model):
    """greedy structural shrinking of a simulation that shows a known finding (drop/simplify statements, drop
    steps, as long as the same finding is still observed); other mismatches are replayed as generated"""
    fid = known_finding(case, obs, model) if case["k"] == "sim" else None
    if fid is None:
        return case, obs, model

    def still(c):
        o = run_impl(c)
        return o if isinstance(o, list) and known_finding(c, o, None) == fid else None

    cur, cur_obs = case, obs
    progress = True
    while progress:
        progress = False
        cands = [dict(cur, prog=p) for p in _stmt_variants(cur["prog"]) if p]
        if cur["steps"]:
            cands.insert(0, dict(cur, steps=[]))
            cands += [dict(cur, steps=cur["steps"][:i] + cur["steps"][i + 1:]) for i in range(len(cur["steps"]))]
        for cand in cands:
            o = still(cand)
            if o is not None:
                cur, cur_obs, progress = cand, o, True
                break
    import common as C
    mism, errors = C.run_model(ID + "_shrink", RUN_MODULE, [coq_term(cur)], [cur_obs], shard_size=SHARD)
    if errors or 0 not in mism:
        return case, obs, model
    return cur, cur_obs, mism[0]

"""C20 — Print, Assert and Format match Python formatting at the right instants."""
import contextlib, io, itertools, random
from common import z, zlist, blit

ID = "C20"
LEVEL = "proof"
PROPS_FILE = "C20.v"
RUN_MODULE = "RunC20"
TRANSLATOR_UNITS = ["format"]
RULE = ("fmt: the whole accepted grammar fill{none,' ','*','0','x'} x align{none,<,>,=} x sign x '#' x '0' x "
        "width{none,1,5,12} x '_' x type{none,b,o,d,x,X,c,s} (16384 specs, each with a shape that accepts it when one "
        "exists, 8% with a rejecting shape) x boundary/random values (1 per spec quick, 6 thorough), model py_format vs "
        "CPython format(); spec: grammar-random and mutated/invalid spec strings ('^', ',', 'n', precision, '00', "
        "unicode/brace/newline fills, '=' or sign or '#' with c/s, s on widths not multiple of 8) vs Format(...) "
        "accept/ValueError (exception class by name) and the dict of _parse_format_spec; sim: random designs with 1-4 "
        "testbench-driven inputs, 0-2 registers (`with m.If(en): m.d.<dom> += r.eq(r + step)`, signed/unsigned, "
        "reset-less or not) read by fields/conditions/tests, 1-2 clock domains (pos/neg edge, no reset / sync reset / "
        "async reset), an optional comb-domain program, nested If/Elif/Else and Switch/Case/Default (lowered by the "
        "Gallina model), Print(Format) with 1-3 fields over sig/as_signed/as_unsigned/~/-, Assert/Assume/Cover with and "
        "without message, driven by hand over 6-16 steps (set input / toggle one clock / change one reset / clock and reset of a domain in one command); plus every "
        "37th accepted spec of the grammar (every 3rd in thorough) printed by the real simulator for 3 values; "
        "observable = captured stdout + exception class/text + step index; "
        "rtl: FORMAT parameter of the $print cell written by back.rtlil for Print(Format('x{' '{:spec}', sig)) over every "
        "17th spec of the grammar (all in thorough) + random + fixed ('<05', '5c', brace and non-ASCII fills) vs the model "
        "of emit_print's string building. "
        "non-trivial = accepted spec (fmt/spec/rtl) or non-empty output/stop (sim); distinct by case hash")
MODELLED = ("Format._FORMAT_SPEC_PATTERN/_parse_format_spec, _StatementCompiler.emit_format/on_Print/on_Property, "
            "value_to_string, _emit_switch conditions (with the If/Switch lowering and Case pattern masks), edge_waker, "
            "the sync process (statements on pre-edge values, then register update, reset), the comb process wake-up, "
            "and the FORMAT string building of back/rtlil.py emit_print are modelled in coq/Model/Format.v; the "
            "reading of the FORMAT items (rchunks_render) follows the Yosys manual and is not validated (no Yosys "
            "available); CPython's int.__format__/str.__format__/bytes.decode are modelled (py_format, utf8_decode) "
            "and validated against the real CPython on the whole accepted grammar; the equality simulator-text = "
            "str.format holds because the simulator calls str.format and is validated only; submodules, FSMs and "
            "control inserters are not generated here (C02/C03/C08 own them)")
ASSUMPTIONS = ["CPython 3.12 int/str __format__ and UTF-8 decoding as modelled by Format.py_format (validated by the fmt stream)",
               "async-reset domains are generated with the documented semantics (F7 repaired in /repo 574e1db); the "
               "pre-repair semantics remains selectable (F7_FAITHFUL in c20.py, theorem C20_async_reset_F7_refuted)",
               "two clocks are never toggled in the same testbench command (process order within one delta belongs to C08)"]
SHARD = 600

ALIGN = "<>="
TYPES = ["", "b", "o", "d", "x", "X", "c", "s"]


def _codes(s):
    return [ord(ch) for ch in s]


def _pack(s):
    """[number of code points] + code points"""
    return [len(s)] + _codes(s)


def classify(c):
    k = c["k"]
    if k == "fmt":
        t = c["spec"][-1:] if c["spec"][-1:] in "bodxXcs" and c["spec"] else "-"
        return f"fmt:{t or '-'}"
    if k == "spec":
        return "spec:" + c.get("cls", "?")
    if k == "rtl":
        t = c["spec"][-1:] if c["spec"] and c["spec"][-1:] in "bodxXcs" else "-"
        return f"rtl:{t}"
    return "sim:" + c.get("cls", "?")


def nontrivial(c, obs):
    if not isinstance(obs, list) or not obs:
        return False
    if c["k"] in ("fmt", "spec", "rtl"):
        return obs[0] == 1
    if obs[0] < 0 or len(obs) < 3:
        return False
    return obs[0] != 0 or obs[2] > 0


# ------------------------------------------------------------------ generators
BOUND = [0, 1, -1, 7, 8, 9, 10, 99, 100, 999, 1000, -1000, 4095, 4096, 65535, -32768, 123456789, 2 ** 31, -2 ** 31,
         2 ** 64 - 1, -2 ** 63, 255, 256, -128, 127, 15, 16, 63, 64, 511, 512]
STRS = ["A", "AB", "ABC", "hi!", "hé", "中", "\U0001F600", "aß€", "{x}", "  ", "\x7f", "0", "Zz9"]
BADBYTES = [[0xff], [0xc0, 0x80], [0xed, 0xa0, 0x80], [0xf4, 0x90, 0x80, 0x80], [0xe0, 0x80, 0x80], [0x80],
            [0xc3], [0xe2, 0x82], [0xf0, 0x9f, 0x98], [0x41, 0xfe], [0xf5, 0x80, 0x80, 0x80], [0xc1, 0xbf],
            [0xed, 0x9f, 0xbf], [0xf4, 0x8f, 0xbf, 0xbf], [0xe0, 0xa0, 0x80], [0xf0, 0x90, 0x80, 0x80], [0xc2, 0x80]]


def _str_value(rng, nbytes):
    """little-endian integer of a byte string that fits in nbytes (zero bytes may be interleaved)"""
    if nbytes == 0:
        return 0
    r = rng.random()
    if r < 0.2:
        bs = list(rng.choice(BADBYTES))
    elif r < 0.3:
        bs = [rng.randrange(0, 256) for _ in range(rng.randrange(1, nbytes + 1))]
    else:
        bs = list(rng.choice(STRS).encode())
    if rng.random() < 0.4 and len(bs) < nbytes:
        bs.insert(rng.randrange(0, len(bs) + 1), 0)
    bs = bs[:nbytes]
    return int.from_bytes(bytes(bs), "little")


def _fmt_values(rng, spec_type, w, n):
    out = []
    for _ in range(n):
        if spec_type == "s":
            out.append(_str_value(rng, max(w // 8, 1) if w else 0) if rng.random() < 0.9 else _str_value(rng, 8))
        elif spec_type == "c":
            r = rng.random()
            if r < 0.6:
                out.append(rng.choice([0x41, 0x7a, 0x20, 0xe9, 0x4e2d, 0x1f600, 0x10ffff, 0xd800, 0, 10, 0x7f, 0x80, 0xffff, 0x10000]))
            elif r < 0.8:
                out.append(rng.randrange(0, 0x110000))
            else:
                out.append(rng.choice([0x110000, -1, 0x110001, 2 ** 32, -65]))
        else:
            r = rng.random()
            if r < 0.5:
                out.append(rng.choice(BOUND))
            elif r < 0.8:
                k = rng.randrange(0, 70)
                out.append(rng.choice((1, -1)) * ((1 << k) + rng.randrange(-2, 3)))
            else:
                out.append(rng.randrange(-100000, 100000))
    return out


def _shape_for(rng, t, bad=False):
    if t == "c":
        return (rng.choice([8, 21, 24, 7, 32]), bad)
    if t == "s":
        if bad:
            return rng.choice([(8, True), (7, False), (12, False), (1, False), (16, True)])
        return (rng.choice([8, 16, 24, 32, 0, 64]), False)
    sg = rng.random() < 0.5
    return (rng.choice([1, 8, 16, 64, 3]) if sg else rng.choice([0, 1, 8, 16, 64, 5]), sg)


def gen_cases(tier, seed):
    rng = random.Random(seed)
    thorough = tier == "thorough"
    cases = []
    # --- stream 1: the whole accepted grammar against CPython
    nv = 6 if thorough else 2
    fa = [""] + list(ALIGN) + [f + a for f in " *0x" for a in ALIGN]
    for fill_align, sign, alt, zero, width, grp, t in itertools.product(
            fa, ["", "-", "+", " "], ["", "#"], ["", "0"], ["", "1", "5", "12"], ["", "_"], TYPES):
        spec = fill_align + sign + alt + zero + width + grp + t
        w, sg = _shape_for(rng, t, bad=rng.random() < 0.08)
        cases.append({"k": "fmt", "spec": spec, "w": w, "sg": sg, "vs": _fmt_values(rng, t, w, nv if thorough else 1)})
    # wider widths / other fills, random
    for _ in range(800 if not thorough else 20000):
        spec, t = _rand_spec(rng, valid=True)
        w, sg = _shape_for(rng, t)
        cases.append({"k": "fmt", "spec": spec, "w": w, "sg": sg, "vs": _fmt_values(rng, t, w, nv)})
    # --- stream 2: accept / reject and the parsed dict
    for _ in range(2000 if not thorough else 30000):
        r = rng.random()
        if r < 0.35:
            spec, t = _rand_spec(rng, valid=True)
            cls = "grammar"
        elif r < 0.6:
            spec, t = _rand_spec(rng, valid=False)
            cls = "grammar-any"
        else:
            spec, t = _rand_spec(rng, valid=rng.random() < 0.5)
            spec = _mutate(rng, spec)
            cls = "mutated"
        if rng.random() < 0.7:
            w, sg = _shape_for(rng, t if t in ("c", "s") else "", bad=rng.random() < 0.2)
        else:
            sg = rng.random() < 0.5
            w = rng.randrange(1 if sg else 0, 34)
        cases.append({"k": "spec", "cls": cls, "spec": spec, "w": w, "sg": sg})
    for spec in ["^", "^5", "x^5", "^<5", "<^5", ",", "5,", "_", "n", "5n", ".3", "5.3d", "00", "05", "010", "0", "=5c", "=5s",
                 "x=5c", "+c", "#c", "0c", "_c", "+s", "#s", "05s", "_s", " s", "-c", "c", "s", "<<", "==", "=", ">", "\n<5", "\n",
                 "{<5", "}>3", "5 ", " 5", "d5", "dd", "D", "B", "e", "f", "%", "5_d", "5,d", "_5", "#0", "0#", "+-", "-+5",
                 "1234567", "é<5", "<", "x", "X", "b", "o", "<5x", "*=+#012_X", "  5", " <5", "ss", "cs", "١", "١٢"]:
        for (w, sg) in [(8, False), (8, True), (12, False), (0, False), (1, True)]:
            cases.append({"k": "spec", "cls": "fixed", "spec": spec, "w": w, "sg": sg})
    # --- stream 3: simulations
    for i in range(600 if not thorough else 12000):
        cases.append(_rand_sim(rng, thorough))
    # the open finding C20-brace-fill is always exercised (accepted spec with a brace fill, printed at an edge)
    for spec, v in (("{<5", 5), ("}>4d", 7), ("{=6x", 255)):
        cases.append({"k": "sim", "cls": "print+brace", "sigs": [[8, False]], "comb": [], "regs": [],
                      "doms": [{"pos": True, "rst": False, "async": False, "prog": [["print", [["fld", ["sig", 0], spec]]]]}],
                      "steps": [["set", 0, v], ["clk", 0, 1]]})
    # --- stream 3b: every k-th spec of the grammar printed by the real simulator (3 values each)
    k = 0
    for fill_align, sign, alt, zero, width, grp, t in itertools.product(
            fa, ["", "-", "+", " "], ["", "#"], ["", "0"], ["", "1", "5", "12"], ["", "_"], TYPES):
        k += 1
        if t in ("c", "s") and (sign or alt or zero or grp or "=" in fill_align):
            continue                                   # rejected at construction: covered by the spec stream
        if k % (3 if thorough else 37) != seed % (3 if thorough else 37):
            continue
        cases.append(_grammar_sim(rng, fill_align + sign + alt + zero + width + grp + t, t))
    # --- stream 4: FORMAT parameter of the emitted RTLIL $print cell (emission only; no Yosys here)
    k = 0
    for fill_align, sign, alt, zero, width, grp, t in itertools.product(
            fa, ["", "-", "+", " "], ["", "#"], ["", "0"], ["", "1", "5", "12"], ["", "_"], TYPES):
        k += 1
        if not thorough and k % 17 != seed % 17:
            continue
        w, sg = _shape_for(rng, t, bad=rng.random() < 0.03)
        cases.append({"k": "rtl", "spec": fill_align + sign + alt + zero + width + grp + t, "w": w, "sg": sg})
    for _ in range(150 if not thorough else 6000):
        w, sg = _shape_for(rng, rng.choice(TYPES))
        spec, t = _rand_spec(rng, valid=rng.random() < 0.9, shape=(w, sg), allow_brace=rng.random() < 0.1)
        cases.append({"k": "rtl", "spec": spec, "w": w, "sg": sg})
    for spec in ["<05", ">05", "=05", "05", "*<05", "5c", "<5c", ">5c", "*>5c", "{<5c", "{<4c", "}>3c", "{<5", "é<5", "é<5c",
                 "5s", ">5s", "0=8_d", "08_x", "#d", "#_b", " 010_o", "+#12_X", "c", "s", "", "d", "<", "1c", "0"]:
        for (w, sg) in [(8, False), (8, True), (16, False), (21, False)]:
            cases.append({"k": "rtl", "spec": spec, "w": w, "sg": sg})
    rng.shuffle(cases)          # every shard gets the same mix of cheap and expensive cases
    return cases


FILLS = [" ", "*", "0", "x", "<", "^", "=", ">", "-", "+", "#", "_", "é", "中", "1", "s", "c", ",", "n"]


def _rand_spec(rng, valid, shape=None, allow_brace=False, small=False, stray_brace=True):
    """returns (spec, type); valid=True stays inside the grammar accepted for a suitable shape"""
    types = TYPES
    if shape is not None and valid:
        w, sg = shape
        types = ["", "b", "o", "d", "x", "X"] + ([] if sg else ["c"] + (["s"] if w % 8 == 0 else []))
    t = rng.choice(types)
    cs = t in ("c", "s")
    r = rng.random()
    aligns = "<>" if (cs and valid) else ALIGN
    if r < 0.4:
        fa = ""
    elif r < 0.65:
        fa = rng.choice(aligns)
    else:
        f = rng.choice(FILLS)
        if allow_brace and rng.random() < 0.5:
            f = rng.choice("{}")
        if not valid and rng.random() < 0.05:
            # a brace fill in a simulated format is only drawn in the controlled form (single field, no brace in the
            # literals): elsewhere the simulator's malformed format string fails with other classes (KeyError ...)
            f = rng.choice(["\n", "{", "}"] if stray_brace else ["\n"])
        fa = f + rng.choice(aligns)
    if not valid and rng.random() < 0.08:
        fa = fa[:-1] + "^" if fa else "^"
    plain = cs and valid
    sign = "" if plain else rng.choice(["", "", "-", "+", " "])
    alt = "" if plain else rng.choice(["", "", "#"])
    zero = "" if plain else rng.choice(["", "", "0"])
    width = rng.choice(["", "", "1", "2", "3", "5", "7", "9", "10", "12", "20"] + ([] if small else ["33", "100"]))
    grp = "" if plain else rng.choice(["", "", "_"])
    if not valid and rng.random() < 0.06:
        grp = ","
    if not valid and rng.random() < 0.06:
        t = "n"
    return fa + sign + alt + zero + width + grp + t, t


def _mutate(rng, spec):
    r = rng.randrange(8)
    pool = "^,n.0_#+- <>=bodxXcs19%eEfgG{}\né"
    pos = rng.randrange(0, len(spec) + 1)
    if r < 3:
        return spec[:pos] + rng.choice(pool) + spec[pos:]
    if r < 5 and spec:
        pos = rng.randrange(0, len(spec))
        return spec[:pos] + spec[pos + 1:]
    if r < 7 and spec:
        pos = rng.randrange(0, len(spec))
        return spec[:pos] + rng.choice(pool) + spec[pos + 1:]
    return spec + rng.choice([".2", "00", "n", ",d", "^", "dd", " "])


LITS = ["", "v=", " ", "x{", "}y", "{{}}", "a b", "é:", "[", "]", "=> ", "\t", "%d"]


def _rand_sim(rng, thorough):
    nsig = rng.randrange(1, 5)
    sigs = []
    for _ in range(nsig):
        sg = rng.random() < 0.4
        r = rng.random()
        if r < 0.6:
            w = rng.randrange(1 if sg else 0, 9)
        elif r < 0.85:
            w = rng.choice([8, 16, 24, 32])
        else:
            w = rng.randrange(9, 40 if not thorough else 70)
        sigs.append([w, sg])
    stats = {"print": 0, "prop": 0, "ctl": 0, "brace": 0, "bad": 0}

    def vexpr():
        i = rng.randrange(nsig)
        r = rng.random()
        if r < 0.6:
            return ["sig", i]
        op = rng.choice(["as_s", "as_u", "inv", "neg"])
        if op == "as_s" and sigs[i][0] == 0:
            op = "as_u"
        return [op, i]

    def vshape(e):
        w, sg = sigs[e[1]]
        return {"sig": (w, sg), "inv": (w, sg), "as_s": (w, True), "as_u": (w, False), "neg": (w + 1, True)}[e[0]]

    def fmt():
        chunks = []
        nf = rng.choice([0, 1, 1, 1, 2, 3])
        brace = rng.random() < 0.02 and nf == 1
        for j in range(nf):
            if rng.random() < 0.6 and not brace:
                chunks.append(["lit", rng.choice(LITS)])
            e = vexpr()
            valid = rng.random() < 0.97
            if not valid:
                stats["bad"] += 1
            spec, _ = _rand_spec(rng, valid=valid, shape=vshape(e), allow_brace=brace, small=True, stray_brace=False)
            if brace and spec[:1] in "{}":
                stats["brace"] += 1
            chunks.append(["fld", e, spec])
        if (rng.random() < 0.5 or nf == 0) and not brace:
            chunks.append(["lit", rng.choice(LITS)])
        return chunks

    def pats(i):
        w = sigs[i][0]
        n = rng.choice([0, 1, 1, 1, 2, 3])
        out = []
        for _ in range(n):
            out.append("".join(rng.choice("01-" if rng.random() < 0.6 else "01") for _ in range(w)))
        return out

    def body(depth):
        out = []
        for _ in range(rng.choice([1, 1, 2] if depth < top else [1, 2, 2, 3])):
            r = rng.random()
            if depth > 0 and r < 0.4:
                stats["ctl"] += 1
                if rng.random() < 0.55:
                    arms = [[rng.randrange(nsig), body(depth - 1)] for _ in range(rng.choice([1, 1, 2, 3]))]
                    els = body(depth - 1) if rng.random() < 0.5 else None
                    out.append(["if", arms, els])
                else:
                    i = rng.randrange(nsig)
                    arms = [[pats(i), body(depth - 1)] for _ in range(rng.choice([1, 2, 3]))]
                    if rng.random() < 0.4:
                        arms.append(["default", body(depth - 1)])
                    out.append(["switch", i, arms])
            elif r < 0.75:
                stats["print"] += 1
                out.append(["print", fmt()])
            else:
                stats["prop"] += 1
                kind = rng.choice(["assert", "assert", "assume", "cover"])
                msg = rng.choice([None, "fmt", "fmt", "str"])
                if kind == "cover" and msg is None and rng.random() < 0.85:
                    msg = "fmt"
                if msg == "fmt":
                    msg = fmt()
                elif msg == "str":
                    msg = [["lit", rng.choice(["boom", "x={}", "", "é!"])]]
                out.append(["prop", kind, vexpr(), msg])
        return out

    # --- registers: `with m.If(en): m.d.<dom> += r.eq(r + step)`, read by prints / conditions / tests like inputs
    ndom = 1 if rng.random() < 0.7 else 2
    ninputs = nsig
    regs = []
    if rng.random() < 0.55:
        for _ in range(rng.choice([1, 1, 2])):
            sg = rng.random() < 0.3
            w = rng.randrange(1 if sg else 0, 6)
            lo, hi = (-(1 << (w - 1)), (1 << (w - 1)) - 1) if sg else (0, (1 << w) - 1)
            sigs.append([w, sg])
            regs.append({"i": len(sigs) - 1, "d": rng.randrange(ndom),
                         "en": rng.randrange(ninputs) if rng.random() < 0.4 else None,
                         "step": rng.choice([1, 1, 1, -1, 2, 3, 5]), "init": rng.randrange(lo, hi + 1),
                         "rless": rng.random() < 0.3})
        nsig = len(sigs)          # bodies drawn from here on may read the registers
    doms = []
    for d in range(ndom):
        top = rng.choice([0, 1, 1, 2, 2, 3])
        has_rst = rng.random() < 0.55
        doms.append({"pos": rng.random() < 0.7, "rst": has_rst, "async": has_rst and rng.random() < 0.35,
                     "prog": body(top)})
    comb = []
    if rng.random() < 0.25:
        top = rng.choice([0, 1, 1, 2])
        comb = body(top)
    steps = []
    clk = [0] * ndom

    def rand_val(i):
        w, sg = sigs[i]
        lo, hi = (-(1 << (w - 1)), (1 << (w - 1)) - 1) if sg else (0, (1 << w) - 1)
        r = rng.random()
        if r < 0.35:
            return rng.choice([lo, hi, 0, min(1, hi), max(-1, lo)])
        if r < 0.55 and not sg and w % 8 == 0 and w:
            return _str_value(rng, w // 8)
        if r < 0.65 and not sg:
            return min(hi, rng.choice([0x41, 0xe9, 0x4e2d, 0x10ffff, 0x110000, 0x1f600]))
        return rng.randrange(lo, hi + 1)

    for _ in range(rng.randrange(6, 17 if not thorough else 30)):
        r = rng.random()
        d = rng.randrange(ndom)
        if r < 0.4:
            i = rng.randrange(ninputs)
            steps.append(["set", i, rand_val(i)])
        elif r < 0.86 or not doms[d]["rst"]:
            clk[d] = (1 - clk[d]) if rng.random() < 0.9 else clk[d]
            steps.append(["clk", d, clk[d]])
        elif r < 0.95:
            steps.append(["rst", d, rng.randrange(2) if rng.random() < 0.5 else 1])
        else:                           # reset changes together with the clock
            clk[d] = (1 - clk[d]) if rng.random() < 0.8 else clk[d]
            steps.append(["both", d, clk[d], rng.randrange(2) if rng.random() < 0.4 else 1])
    kinds = [k for k in ("print", "prop", "ctl") if stats[k]]
    cls = ("+".join(kinds) + ("+reg" if regs else "") + ("+comb" if comb else "") + ("+2dom" if ndom > 1 else "")
           + ("+async" if any(dm["async"] for dm in doms) else "")
           + ("+brace" if stats["brace"] else "") + ("+badspec" if stats["bad"] else ""))
    return {"k": "sim", "cls": cls, "sigs": sigs, "doms": doms, "comb": comb, "regs": regs, "steps": steps}


def _grammar_sim(rng, spec, t):
    """one Print of one field through the real simulator (ties the simulator, not only CPython, to every spec)"""
    w, sg = _shape_for(rng, t)
    vals = [v for v in _fmt_values(rng, t, w, 3)]
    lo, hi = (-(1 << (w - 1)), (1 << (w - 1)) - 1) if sg else (0, (1 << w) - 1)
    steps = []
    for v in vals:
        steps += [["set", 0, min(max(v, lo), hi) if w else 0], ["clk", 0, 1], ["clk", 0, 0]]
    return {"k": "sim", "cls": "grammar", "sigs": [[w, sg]], "comb": [], "regs": [], "steps": steps,
            "doms": [{"pos": True, "rst": False, "async": False, "prog": [["print", [["fld", ["sig", 0], spec]]]]}]}


def _upgrade(c):
    """cases recorded before designs had several domains"""
    if "doms" in c:
        return c
    steps = [[st[0], st[1], st[2]] if st[0] == "set" else [st[0], 0, st[1]] for st in c["steps"]]
    return {"k": "sim", "cls": c.get("cls", "?"), "sigs": c["sigs"], "comb": [], "regs": [], "steps": steps,
            "doms": [{"pos": c["pos"], "rst": c["rst"], "async": False, "prog": c["prog"]}]}


# ------------------------------------------------------------------ implementation side
def _exc_code(e):
    return [-1, sum(map(ord, type(e).__name__))]


def _mk_format(Format, chunks, values):
    """Format object from model chunks through the public constructor"""
    s = ""
    args = []
    for ch in chunks:
        if ch[0] == "lit":
            s += ch[1].replace("{", "{{").replace("}", "}}")
        else:
            spec = ch[2]
            args.append(values(ch[1]))
            if "{" in spec or "}" in spec:
                s += "{:{}}"
                args.append(spec)
            else:
                s += "{:" + spec + "}"
    return Format(s, *args)


def run_impl(c):
    from amaranth.hdl import Shape, Signal, Format
    k = c["k"]
    if k in ("fmt", "spec"):
        from amaranth.sim._pyeval import value_to_string
        spec = c["spec"]
        shape = Shape(c["w"], c["sg"])
        try:
            _mk_format(Format, [["fld", None, spec]], lambda e: Signal(shape))
        except Exception as e:
            if type(e).__name__ == "ValueError":
                return [0]
            return _exc_code(e)
        if k == "spec":
            d = Format._parse_format_spec(spec, shape)
            o = lambda x: -1 if x is None else ord(x)
            return [1, o(d["fill"]), o(d["align"]), o(d["sign"]), int(d["show_base"]), d["width"], o(d["grouping"]), o(d["type"])]
        out = [1]
        for v in c["vs"]:
            try:
                if spec.endswith("s"):
                    if v < 0:
                        raise OverflowError   # value_to_string does not terminate on negative ints (unreachable: unsigned only)
                    txt = format(value_to_string(v), spec[:-1])
                else:
                    txt = format(v, spec)
                out += _pack(txt)
            except (OverflowError, UnicodeDecodeError):
                out.append(-1)
        return out
    if k == "rtl":
        return _run_rtl(c)
    return _run_sim(c)


_UNESC = {"n": "\n", "t": "\t", "r": "\r", "\"": "\"", "\\": "\\"}


def _run_rtl(c):
    """FORMAT parameter of the $print cell of  Print(Format("x{" "{:<spec>}", sig))  as written by back.rtlil"""
    from amaranth.hdl import Shape, Signal, Format, Module, ClockDomain, Print
    from amaranth.back import rtlil
    sig = Signal(Shape(c["w"], c["sg"]), name="a")
    m = Module()
    m.domains.sync = ClockDomain("sync")
    try:
        m.d.sync += Print(_mk_format(Format, [["lit", "x{"], ["fld", None, c["spec"]]], lambda e: sig))
    except Exception as e:
        if type(e).__name__ == "ValueError":
            return [-2]
        return _exc_code(e)
    try:
        text = rtlil.convert(m, ports=[sig])
    except NotImplementedError:
        return [0]
    lines = [l for l in text.split("\n") if l.strip().startswith("parameter \\FORMAT ")]
    if len(lines) != 1:
        raise AssertionError(f"{len(lines)} FORMAT parameters")
    raw = lines[0].strip()[len("parameter \\FORMAT "):]
    assert raw[0] == '"' and raw[-1] == '"', raw
    raw, out, i = raw[1:-1], [], 0
    while i < len(raw):
        if raw[i] == "\\":
            out.append(_UNESC[raw[i + 1]])
            i += 2
        else:
            out.append(raw[i])
            i += 1
    return [1] + _codes("".join(out))


def _run_sim(c):
    from amaranth.hdl import Shape, Signal, Format, Module, ClockDomain, Print, Assert, Assume, Cover, Cat
    from amaranth.sim import Simulator
    c = _upgrade(c)
    regs = {r["i"]: r for r in c["regs"]}
    sigs = []
    for i, (w, sg) in enumerate(c["sigs"]):
        if i in regs:
            sigs.append(Signal(Shape(w, sg), name=f"r{i}", init=regs[i]["init"], reset_less=regs[i]["rless"]))
        else:
            sigs.append(Signal(Shape(w, sg), name=f"s{i}"))
    m = Module()
    cds = []
    for k, dm in enumerate(c["doms"]):
        cd = ClockDomain(f"d{k}", clk_edge="pos" if dm["pos"] else "neg", reset_less=not dm["rst"],
                         async_reset=bool(dm["async"]))
        m.domains += cd
        cds.append(cd)
    prefixes = []

    def val(e):
        s = sigs[e[1]]
        return {"sig": lambda: s, "as_s": s.as_signed, "as_u": s.as_unsigned, "inv": lambda: ~s, "neg": lambda: -s}[e[0]]()

    def build(dn, stmts):
        for st in stmts:
            if st[0] == "print":
                m.d[dn] += Print(_mk_format(Format, st[1], val))
            elif st[0] == "prop":
                msg = st[3]
                if msg is not None:
                    if all(ch[0] == "lit" for ch in msg) and len(msg) == 1 and "{" not in msg[0][1]:
                        msg = msg[0][1]               # plain str message
                    else:
                        msg = _mk_format(Format, msg, val)
                fn = {"assert": Assert, "assume": Assume, "cover": Cover}[st[1]]
                stmt = fn(val(st[2]), msg)
                if st[1] == "cover":
                    prefixes.append("Coverage hit at {}:{}:".format(*stmt.src_loc))
                m.d[dn] += stmt
            elif st[0] == "if":
                for j, (i, b) in enumerate(st[1]):
                    with (m.If(sigs[i]) if j == 0 else m.Elif(sigs[i])):
                        build(dn, b)
                if st[2] is not None:
                    with m.Else():
                        build(dn, st[2])
            elif st[0] == "switch":
                with m.Switch(sigs[st[1]]):
                    for p, b in st[2]:
                        with (m.Default() if p == "default" else m.Case(*p)):
                            build(dn, b)
            else:
                raise AssertionError(st)

    try:
        for k, dm in enumerate(c["doms"]):
            build(f"d{k}", dm["prog"])
        build("comb", c["comb"])
        for r in c["regs"]:
            reg = sigs[r["i"]]
            if r["en"] is None:
                m.d[f"d{r['d']}"] += reg.eq(reg + r["step"])
            else:
                with m.If(sigs[r["en"]]):
                    m.d[f"d{r['d']}"] += reg.eq(reg + r["step"])
    except Exception as e:
        if type(e).__name__ == "ValueError":
            return [-2]
        return _exc_code(e)           # an unexpected class at construction is a disagreement, never dropped
    cur = [0]

    async def tb(ctx):
        for n, st in enumerate(c["steps"]):
            cur[0] = n
            if st[0] == "set":
                ctx.set(sigs[st[1]], st[2])
            elif st[0] == "clk":
                ctx.set(cds[st[1]].clk, st[2])
            elif st[0] == "rst":
                ctx.set(cds[st[1]].rst, st[2])
            else:                       # clock and reset of one domain in one command
                ctx.set(Cat(cds[st[1]].clk, cds[st[1]].rst), st[2] | (st[3] << 1))
        cur[0] = len(c["steps"])

    buf = io.StringIO()
    code, msg = 0, ""
    with contextlib.redirect_stdout(buf):
        try:
            sim = Simulator(m)
            sim.add_testbench(tb)
            sim.run()
        except Exception as e:
            name = type(e).__name__
            code = {"AssertionError": 1, "OverflowError": 2, "UnicodeDecodeError": 3, "ValueError": 4}.get(name)
            if code is None:
                return _exc_code(e)
            msg = str(e) if code == 1 else ""
    text = buf.getvalue()
    for p in prefixes:
        text = text.replace(p, "\x1f")
    return [code, cur[0]] + _pack(text) + (_pack(msg) if code else [])


# ------------------------------------------------------------------ model side
def _s(s):
    return zlist(_codes(s))


def _vexpr(e):
    return {"sig": "VSig", "as_s": "VAsS", "as_u": "VAsU", "inv": "VInv", "neg": "VNeg"}[e[0]] + f" {e[1]}"


def _fmt_term(chunks):
    out = []
    for ch in chunks:
        if ch[0] == "lit":
            out.append(f"CLit {_s(ch[1])}")
        else:
            out.append(f"CField ({_vexpr(ch[1])}) {_s(ch[2])}")
    return "[" + "; ".join(out) + "]"


def _dprog(stmts):
    t = "DNil"
    for st in reversed(stmts):
        t = f"DCons ({_dstmt(st)}) ({t})"
    return t


def _dstmt(st):
    if st[0] == "print":
        return f"DPrint {_fmt_term(st[1])}"
    if st[0] == "prop":
        k = {"assert": "KAssert", "assume": "KAssume", "cover": "KCover"}[st[1]]
        m = "None" if st[3] is None else f"(Some {_fmt_term(st[3])})"
        return f"DProp {k} ({_vexpr(st[2])}) {m}"
    if st[0] == "if":
        arms = "ANil"
        for i, b in reversed(st[1]):
            arms = f"ACons {i} ({_dprog(b)}) ({arms})"
        return f"DIf ({arms}) ({_dprog(st[2] or [])})"
    if st[0] == "switch":
        cs = "KNil"
        for p, b in reversed(st[2]):
            ps = "None" if p == "default" else "(Some [" + "; ".join(_s(x) for x in p) + "])"
            cs = f"KCons {ps} ({_dprog(b)}) ({cs})"
        return f"DSwitch {st[1]} ({cs})"
    raise ValueError(st)


F7_FAITHFUL = False     # True = semantics of the code before the repair of F7 (/repo 574e1db): an async reset rise
                        # ran the sync process (theorem C20_async_reset_F7_refuted shows the observable difference)


def _design_term(c, f7, bf):
    c = _upgrade(c)
    sigs = "[" + "; ".join(f"Sh {w} {blit(sg)}" for w, sg in c["sigs"]) + "]"
    doms = "[" + "; ".join(f"Dom {blit(d['pos'])} {blit(d['rst'])} {blit(d['async'])} (lower_prog ({_dprog(d['prog'])}))"
                           for d in c["doms"]) + "]"
    regs = "[" + "; ".join(f"Reg {r['i']} {r['d']} {'None' if r['en'] is None else '(Some %d%%nat)' % r['en']} {z(r['step'])} "
                           f"{z(r['init'])} {blit(r['rless'])}" for r in c["regs"]) + "]"
    steps = []
    for st in c["steps"]:
        if st[0] == "set":
            steps.append(f"TSet {st[1]} {z(st[2])}")
        elif st[0] == "clk":
            steps.append(f"TClk {st[1]} {blit(st[2])}")
        elif st[0] == "rst":
            steps.append(f"TRst {st[1]} {blit(st[2])}")
        else:
            steps.append(f"TBoth {st[1]} {blit(st[2])} {blit(st[3])}")
    return (f"k_design {blit(f7)} {blit(bf)} (Design {sigs} {doms} (lower_prog ({_dprog(c['comb'])})) {regs}) ["
            + "; ".join(steps) + "]")


_BRACE_CANDIDATES = []     # sim cases with a brace fill seen by coq_term in this process (for the exact filter)


def coq_term(c):
    k = c["k"]
    if k == "spec":
        return f"k_spec {_s(c['spec'])} {z(c['w'])} {blit(c['sg'])}"
    if k == "rtl":
        return f"k_rtl {_s(c['spec'])} {z(c['w'])} {blit(c['sg'])}"
    if k == "fmt":
        return f"k_fmt {_s(c['spec'])} {z(c['w'])} {blit(c['sg'])} {zlist(c['vs'])}"
    if _has_brace(c):
        _BRACE_CANDIDATES.append(c)
    return _design_term(c, F7_FAITHFUL, False)


def explain(c):
    return ("texts are n :: n code points; "
            "fmt: [0] rejected | 1 :: per value (text | -1 when Python raises); spec: [0] | 1 :: dict; "
            "sim: [code; step] ++ stdout text ++ exception text (code 0 finished, 1 AssertionError, "
            "2 OverflowError, 3 UnicodeDecodeError, 4 ValueError), [-2] ValueError at construction; \\x1f = 'Coverage hit at f:l:'")


# ------------------------------------------------------------------ findings
BRACE_ID = "C20-brace-fill"
EMPTY_ID = "C20-cover-empty-block"


def _bodies(stmts):
    """every statement list of the program that becomes one indented block of the generated process"""
    for st in stmts:
        if st[0] == "if":
            for _, b in st[1]:
                yield b
                yield from _bodies(b)
            if st[2] is not None:
                yield st[2]
                yield from _bodies(st[2])
        elif st[0] == "switch":
            for _, b in st[2]:
                yield b
                yield from _bodies(b)


def _formats(stmts):
    for st in stmts:
        if st[0] == "print":
            yield st[1]
        elif st[0] == "prop" and st[3]:
            yield st[3]
    for b in _bodies(stmts):
        for st in b:
            if st[0] == "print":
                yield st[1]
            elif st[0] == "prop" and st[3]:
                yield st[3]


def _silent(b):
    return all(st[0] == "prop" and st[1] == "cover" and st[3] is None for st in b)


def _progs(c):
    c = _upgrade(c)
    return [dm["prog"] for dm in c["doms"]] + [c["comb"]]


def _has_brace(c):
    return any(ch[0] == "fld" and ch[2][:1] in ("{", "}") and ch[2][1:2] in ("<", ">", "=")
               for prog in _progs(c) for f in _formats(prog) for ch in f)


def _empty_block(c):
    c = _upgrade(c)
    if any(_silent(b) for prog in _progs(c) for b in _bodies(prog)):
        return True
    for k, dm in enumerate(c["doms"]):      # a process whose whole body is message-less Covers
        if dm["prog"] and _silent(dm["prog"]) and not dm["rst"] and not any(r["d"] == k for r in c["regs"]):
            return True
    return bool(c["comb"]) and _silent(c["comb"])


_BRACE_ANSWERS = {}


def _brace_answer(case):
    """the model's answer under the semantics of finding C20-brace-fill (ValueError when a brace-filled field is
    rendered), computed by Coq — in one batch for every brace case of the run"""
    import common as C
    key = C.case_hash(case)
    if key not in _BRACE_ANSWERS:
        batch = {C.case_hash(c): c for c in _BRACE_CANDIDATES + [case]}
        keys = [k for k in batch if k not in _BRACE_ANSWERS]
        terms = [_design_term(batch[k], F7_FAITHFUL, True) for k in keys]
        mism, errors = C.run_model(ID + "_brace", RUN_MODULE, terms, [[] for _ in terms], shard_size=SHARD)
        for i, k in enumerate(keys):
            _BRACE_ANSWERS[k] = mism.get(i)
    return _BRACE_ANSWERS[key]


def _finding_like(case, obs):
    """cheap necessary condition (used while shrinking)"""
    if case["k"] != "sim" or not isinstance(obs, list):
        return None
    if obs == [-1, sum(map(ord, "IndentationError"))] and _empty_block(case):
        return EMPTY_ID
    if obs[:1] == [4] and _has_brace(case):
        return BRACE_ID
    return None


def known_finding(case, obs, model):
    fid = _finding_like(case, obs)
    # a '{' or '}' fill is accepted by Format and formatted by Python (model = spec), but the simulator's
    # re-assembled format string is malformed.  Exact filter: the observation must equal the model's answer under the
    # finding's semantics (ValueError at the moment the brace-filled field is rendered), nothing else is excused.
    if fid == BRACE_ID and _brace_answer(case) != obs:
        return None
    return fid


# ------------------------------------------------------------------ shrinking (simulator build failures only)
def _stmt_variants(stmts):
    """all statement lists obtained by one deletion / simplification somewhere in the tree"""
    for i, st in enumerate(stmts):
        pre, post = stmts[:i], stmts[i + 1:]
        yield pre + post
        if st[0] == "if":
            arms, els = st[1], st[2]
            if els is not None:
                yield pre + [["if", arms, None]] + post
                for nb in _stmt_variants(els):
                    if nb:
                        yield pre + [["if", arms, nb]] + post
            for j, (sig, b) in enumerate(arms):
                if len(arms) > 1:
                    yield pre + [["if", arms[:j] + arms[j + 1:], els]] + post
                for nb in _stmt_variants(b):
                    if nb:
                        yield pre + [["if", arms[:j] + [[sig, nb]] + arms[j + 1:], els]] + post
        elif st[0] == "switch":
            arms = st[2]
            for j, (p, b) in enumerate(arms):
                if len(arms) > 1:
                    yield pre + [["switch", st[1], arms[:j] + arms[j + 1:]]] + post
                for nb in _stmt_variants(b):
                    if nb:
                        yield pre + [["switch", st[1], arms[:j] + [[p, nb]] + arms[j + 1:]]] + post
        elif st[0] == "print" and st[1] != [["lit", "x"]]:
            yield pre + [["print", [["lit", "x"]]]] + post
        elif st[0] == "prop" and st[3] not in (None, [["lit", "x"]]):
            yield pre + [["prop", st[1], st[2], [["lit", "x"]]]] + post


def shrink(case, obs, model):
    """greedy structural shrinking of a simulation that shows a known finding (drop/simplify statements, registers,
    steps, as long as the same finding is still observed); other mismatches are replayed as generated"""
    fid = known_finding(case, obs, model) if case["k"] == "sim" else None
    if fid is None:
        return case, obs, model

    def still(c):
        o = run_impl(c)
        return o if _finding_like(c, o) == fid else None

    def with_prog(c, k, prog):
        c = dict(c)
        if k < len(c["doms"]):
            c["doms"] = [dict(dm, prog=prog) if j == k else dm for j, dm in enumerate(c["doms"])]
        else:
            c["comb"] = prog
        return c

    cur, cur_obs = _upgrade(case), obs
    progress = True
    while progress:
        progress = False
        cands = []
        if cur["steps"]:
            cands.append(dict(cur, steps=[]))
        if cur["regs"]:
            cands.append(dict(cur, regs=[]))
        for k, prog in enumerate(_progs(cur)):
            cands += [with_prog(cur, k, p) for p in _stmt_variants(prog)]
        cands += [dict(cur, steps=cur["steps"][:i] + cur["steps"][i + 1:]) for i in range(len(cur["steps"]))]
        for cand in cands:
            used = {r["i"] for r in cand["regs"]}
            if any(st[0] == "set" and st[1] in used for st in cand["steps"]):
                continue
            o = still(cand)
            if o is not None:
                cur, cur_obs, progress = cand, o, True
                break
    if known_finding(cur, cur_obs, None) != fid:
        return case, obs, model
    import common as C
    mism, errors = C.run_model(ID + "_shrink", RUN_MODULE, [coq_term(cur)], [cur_obs], shard_size=SHARD)
    if errors or 0 not in mism:
        return case, obs, model
    return cur, cur_obs, mism[0]

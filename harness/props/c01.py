"""C01 — operators compute exact integer results in shapes that never overflow
(also carries the read half of C05: ctx.get(e) is observed for every expression)."""
import itertools, random
from common import z, zlist, blit
import exprgen as G

ID = "C01"
LEVEL = "proof"
PROPS_FILE = "C01.v"
RUN_MODULE = "RunC01"
TRANSLATOR_UNITS = ["opshape", "derived", "pyrtl_rhs", "pyrtl_switch"]
SHARD = 250
RULE = ("[after the audit: + operands that are Python ints / enum members / Const(v) on either side of every binary operator "
        "(reflected operators), in Cat / Mux / Array / bit_select offsets (stream exi); shift amounts of 4..6 bits and int amounts up to 64 on "
        "1..40-bit operands (wsh); matches() with Const and enum-member patterns over every value (exm); Array indexing exhaustively "
        "for index shapes u0..u2,s1..s3 x 0..6 elements (more than addressable, none, int elements) with ArrayProxy.shape()/len() "
        "observed, Arrays of Arrays indexed twice (arr, exi); documented rejections compared on the exception CLASS: negative "
        "replicate count, out-of-range index, zero slice step, signed / negative constant offsets and negative widths of "
        "bit_select/word_select, nested-array int index (rej); random trees over all of these (ext); 5 % 16/33/40-bit operands in "
        "the quick random stream] exhaustive: every unary/binary operator x operand shapes {u0..u3,s1..s3} x all operand values; "
        "every slice / part-select(all offsets, widths 0..3, strides 1..2) / cat of two / 2-case switch over shapes u0..u3,s1..s3; "
        "derived operators (abs, shifts by any integer, rotates, replicate, matches, int/slice/stepped indexing with every slice object over small bounds, "
        "bit_select/word_select around the fold boundary, Mux, Array) built through "
        "the public API and nested in random trees; random: seeded expression trees depth<=4 (thorough 6), <=4 signals, widths<=8 (thorough<=40), 6 boundary-biased stimuli; "
        "malformed stream (signed shift amounts/offsets, bad slices, bad patterns, zero-width as_signed) compared on accept/reject. "
        "non-trivial = well-formed, contains an operator node and a signal, and the observed results differ between two stimuli; "
        "distinct by hash of (term, signal shapes)")
MODELLED = ("value nodes of hdl/_ast.py (Const, Signal, Operator, Slice, Part, Concat, SwitchValue) and their shape() in "
            "coq/Model/Ast.v; _RHSValueCompiler in coq/Model/PyRTL.v (raw-integer semantics of the generated Python); "
            "_pyeval.eval_value in coq/Model/PyEval.v; the rewriting definitions of abs/shift_*/rotate_*/replicate/matches/__getitem__/"
            "Mux/bit_select/word_select/ArrayProxy.as_value in coq/Model/Derived.v; the Value methods are also REGENERATED from hdl/_ast.py "
            "(translator unit `derived`, Gen/DerivedGen.v) and proved equal to the model; slice.indices/range of CPython are read by "
            "py_key_indices/py_range and compared with the interpreter (stream pyb); Value.cast of ints / enum members (mk_const_auto, "
            "mk_enum_const), ArrayProxy.as_value/shape on any index shape (mk_array_raw, array_proxy_shape), nested Arrays and the exception "
            "class of a rejected construction (build_err) are hand-modelled in coq/Model/Derived.v and validated by the run."
            " exec() of generated code, ValueVisitor dispatch, the delta-cycle "
            "engine and Signal commit are exercised by the differential run only")
ASSUMPTIONS = ["signals hold normalised values (env_ok), as _PySignalState guarantees"]

SMALL_SHAPES = [[0, False], [1, False], [2, False], [3, False], [1, True], [2, True], [3, True]]


def all_values(w, sg):
    return list(range(-(1 << (w - 1)), 1 << (w - 1))) if sg else list(range(0, 1 << w))


def _has(t, kinds):
    if isinstance(t, list):
        if t and isinstance(t[0], str) and t[0] in kinds:
            return True
        return any(_has(x, kinds) for x in t)
    return False


def classify(c):
    if c.get("k") == "pyb":
        return "pyb:slice.indices"
    if c.get("k") == "arr":
        return "arr:n%d:idx%s%d" % (len(c["elems"]), "s" if G.pyshape(c["idx"], c["sigs"])[1] else "u",
                                    G.pyshape(c["idx"], c["sigs"])[0])
    tag = ""
    if c.get("stream") in ("ext", "exi", "rej", "wsh", "exm"):
        # which of the audit's input classes the term contains
        tag = "".join(x for x, ks in (("+int", ("pi",)), ("+enum", ("en", "pe")), ("+Const(v)", ("ca",)), ("+constpat", ("pc",)),
                                      ("+array2", ("d_array2",))) if _has(c["e"], ks))
    if c.get("stream") == "rnd" and max(w for w, _ in c["sigs"]) > 8:
        tag = "+wide"
    return c.get("stream", "?") + ":" + c["e"][0] + (":" + c["e"][1] if c["e"][0] in ("o1", "o2") else "") + tag


RUN_IMPORTS = "Derived"


def nontrivial(c, obs):
    if c.get("k") == "pyb":
        return len(obs) > 4
    if not obs or obs[0] != 1:
        return False
    body = obs[6:] if c.get("k") == "arr" else obs[3:]
    if c.get("k") == "arr":
        return len(set(tuple(body[i:i + 5]) for i in range(0, len(body), 5))) > 1
    rows = [tuple(body[i:i + 5]) for i in range(0, len(body), 5)]
    return c["e"][0] not in ("c", "s") and len(set(rows)) > 1


def gen_cases(tier, seed):
    rng = random.Random(seed)
    thorough = tier == "thorough"
    cases = []
    # exhaustive small scope
    for op in G.OP1:
        for sh in SMALL_SHAPES:
            cases.append({"stream": "ex", "sigs": [sh], "e": ["o1", op, ["s", 0]],
                          "stims": [[v] for v in all_values(*sh)]})
    for op in G.OP2:
        for sa in SMALL_SHAPES:
            for sb in SMALL_SHAPES:
                cases.append({"stream": "ex", "sigs": [sa, sb], "e": ["o2", op, ["s", 0], ["s", 1]],
                              "stims": [[x, y] for x in all_values(*sa) for y in all_values(*sb)]})
    for sa in SMALL_SHAPES:
        w = sa[0]
        vals = [[v] for v in all_values(*sa)]
        for lo in range(0, w + 1):
            for hi in range(lo, w + 1):
                cases.append({"stream": "ex", "sigs": [sa], "e": ["sl", ["s", 0], lo, hi], "stims": vals})
        for ow in (0, 1, 2, 3):
            for pw in (0, 1, 2, 3):
                for stride in (1, 2):
                    cases.append({"stream": "ex", "sigs": [sa, [ow, False]],
                                  "e": ["pt", ["s", 0], ["s", 1], pw, stride],
                                  "stims": [[x, y] for x in all_values(*sa) for y in all_values(ow, False)]})
        for sb in SMALL_SHAPES:
            st = [[x, y] for x in all_values(*sa) for y in all_values(*sb)]
            cases.append({"stream": "ex", "sigs": [sa, sb], "e": ["cat", [["s", 0], ["s", 1]]], "stims": st})
            # Mux-like and pattern switches on a 2-bit selector
            for pats in ([["00"], None], [["1-", "01"], ["00"]], [[], ["-1"]], [["11"], ["11", "10"]]):
                st3 = [[x, y, s] for x in (all_values(*sa)[:3] + all_values(*sa)[-1:]) for y in all_values(*sb)[:3]
                       for s in range(4)]
                cases.append({"stream": "ex", "sigs": [sa, sb, [2, False]],
                              "e": ["sw", ["s", 2], [[pats[0], ["s", 0]], [pats[1], ["s", 1]]]], "stims": st3})
    # structured random
    N = 2500 if not thorough else 60000
    for i in range(N):
        maxw = 8 if (i % 3 if thorough else i % 20 != 7) else rng.choice((16, 33, 40))      # quick: 5 % wide operands
        sigs = [G.rand_shape(rng, maxw) for _ in range(rng.randrange(1, 5))]
        g = G.Gen(rng, sigs, maxw=maxw, maxtotal=48 if maxw <= 8 else 120)
        e = g.expr(rng.randrange(1, 5 if not thorough else 7))
        cases.append({"stream": "rnd", "sigs": sigs, "e": e, "stims": G.stimuli(rng, sigs, 6)})
    # exhaustive small-scope families for the derived operators
    import itertools as _it
    for sh in SMALL_SHAPES:
        w, sg = sh
        vals = [[v] for v in all_values(*sh)]
        one = lambda e: cases.append({"stream": "exd", "sigs": [sh], "e": e, "stims": vals})
        one(["d_abs", ["s", 0]])
        for n in range(0, w + 3):
            one(["d_shl", ["s", 0], n])
            one(["d_shr", ["s", 0], n])
        for n in range(-2 * w - 1, 2 * w + 2):
            one(["d_rol", ["s", 0], n])
            one(["d_ror", ["s", 0], n])
        for k in range(0, 4):
            one(["d_rep", ["s", 0], k])
        for i in range(-w, w):
            one(["d_idx", ["s", 0], i])
        for a in range(-w - 1, w + 2):
            for b in range(-w - 1, w + 2):
                one(["d_slice", ["s", 0], a, b])
        for pat in _it.product("01-", repeat=w):
            p = "".join(pat)
            one(["d_match", ["s", 0], [p], [p]])
        lo, hi = (-(1 << (w - 1)), 1 << (w - 1)) if sg else (0, 1 << w)
        if w == 0:
            lo, hi = 0, 1
        for v in range(lo - 1, hi + 1):
            one(["d_match", ["s", 0], [G._binpat(w, v)] if lo <= v < hi else [], [v]])
        if w >= 1:
            one(["d_match", ["s", 0], [G._binpat(w, lo), "1" * w], [lo, "1" * w]])
        # rejected pattern strings at top level: wrong width, illegal characters, also next to a legal pattern
        okp = "1" * w
        for bad in (okp + "0", okp[1:] if w else "0", "x" * max(1, w), okp + "_", okp + " 1", "2" + okp[1:] if w else "2"):
            one(["d_match", ["s", 0], [], [bad]])
            one(["d_match", ["s", 0], [], [okp, bad]])
        for ws in (" ", "\t", "  "):
            one(["d_match", ["s", 0], [okp], [ws + okp + ws if w else ws]])
        # every Python slice object over small bounds (None, negative, beyond the ends) and steps
        bounds = [None] + list(range(-w - 1, w + 2))
        for a in bounds:
            for b in bounds:
                for st in (None, 1, -1, 2, -2, 3, -3):
                    if sg and not thorough and (w != 2 or (a is not None and b is not None and (a + b) % 2)):
                        continue                      # quick tier: signed operands only at width 2, thinned
                    one(["d_key", ["s", 0], [a, b, st]])
        for n in range(-w - 2, 0):
            one(["d_shl", ["s", 0], n])
            one(["d_shr", ["s", 0], n])
        # bit_select / word_select: constant offsets on both sides of the fold boundary, and a variable offset
        for pw in range(0, 4):
            for v in range(0, 5):
                one(["d_bsel", ["s", 0], ["c", v, 3, False], pw])
                if pw >= 1:
                    one(["d_wsel", ["s", 0], ["c", v, 3, False], pw])
            cases.append({"stream": "exd", "sigs": [sh, [2, False]], "e": ["d_bsel", ["s", 0], ["s", 1], pw],
                          "stims": [[x, y] for x in all_values(*sh) for y in range(4)]})
            if pw >= 1:
                cases.append({"stream": "exd", "sigs": [sh, [2, False]], "e": ["d_wsel", ["s", 0], ["s", 1], pw],
                              "stims": [[x, y] for x in all_values(*sh) for y in range(4)]})
    # the reading of the Python builtins slice.indices / range used by Value.__getitem__ (model vs CPython itself)
    for n in range(0, 5 if not thorough else 8):
        bounds = [None] + list(range(-n - 2, n + 3))
        for a in bounds:
            for b in bounds:
                for st in ((None, 0, 1, -1, 2, -2, 3, -3) if not thorough else (None, 0, 1, -1, 2, -2, 3, -3, 4, 7, -7)):
                    cases.append({"stream": "pyb", "k": "pyb", "len": n, "key": [a, b, st]})
    for _ in range(300 if not thorough else 5000):
        n = rng.randrange(0, 70)
        f = lambda: rng.choice((None, rng.randrange(-2 * n - 3, 2 * n + 4), rng.randrange(-3, 4)))
        cases.append({"stream": "pyb", "k": "pyb", "len": n, "key": [f(), f(), rng.choice((None, 1, -1, rng.randrange(-9, 10)))]})
    # derived operators (abs, shifts/rotates by constants, replicate, matches, indexing/slicing, Mux, Array)
    D = 1500 if not thorough else 30000
    for i in range(D):
        sigs = [G.rand_shape(rng, 6) for _ in range(rng.randrange(1, 4))]
        g = G.Gen(rng, sigs, maxw=6, maxtotal=40, derived=True)
        e = g.derived_node(rng.randrange(1, 3)) if i % 2 else g.expr(rng.randrange(1, 4))
        if G.pyshape(e, sigs)[0] > 64:
            continue
        cases.append({"stream": "der", "sigs": sigs, "e": e, "stims": G.stimuli(rng, sigs, 6)})
    # ---- families added after the coverage audit -------------------------------------------------------------
    # (1) operands that are not Values: `a + 1`, `1 - a` (reflected), `a << 3`, `3 << a`, enum members, Const(v)
    ints = (-3, -1, 0, 1, 2, 5) if not thorough else (-9, -4, -3, -2, -1, 0, 1, 2, 3, 5, 8, 255)
    for op in G.OP2:
        for sh in SMALL_SHAPES:
            vals = [[v] for v in all_values(*sh)]
            for v in (ints if op not in ("<<", ">>") else (-1, 0, 1, 3, 17)):
                if not thorough and sh[0] == 3 and v in (2, 5):
                    continue
                cases.append({"stream": "exi", "sigs": [sh], "e": ["o2", op, ["s", 0], ["pi", v]], "stims": vals})
                cases.append({"stream": "exi", "sigs": [sh], "e": ["o2", op, ["pi", v], ["s", 0]], "stims": vals})
            cases.append({"stream": "exi", "sigs": [sh], "e": ["o2", op, ["s", 0], ["ca", rng.choice((0, 1, 2, 6) if op in ("<<", ">>") else ints)]], "stims": vals})
            ms = sorted({rng.randrange(-4, 8) for _ in range(3)})
            if op in ("<<", ">>"):
                ms = [abs(m) for m in ms]
            cases.append({"stream": "exi", "sigs": [sh], "e": ["o2", op, ["s", 0], ["en", rng.choice(ms), ms, rng.choice("EI")]], "stims": vals})
            cases.append({"stream": "exi", "sigs": [sh], "e": ["o2", op, ["en", rng.choice(ms), ms, rng.choice("EI")], ["s", 0]], "stims": vals})
    for sh in SMALL_SHAPES:
        vals = [[v] for v in all_values(*sh)]
        one = lambda e: cases.append({"stream": "exi", "sigs": [sh], "e": e, "stims": vals})
        one(["cat", [["pi", 1], ["s", 0], ["pi", 0], ["pi", 5], ["en", 2, [2, 9], "E"]]])
        one(["d_mux", ["s", 0], ["pi", -3], ["pi", 4]])
        one(["d_mux", ["pi", 1], ["s", 0], ["pi", 4]])
        one(["d_abs", ["o2", "-", ["pi", 1], ["s", 0]]])
        for v in range(0, 5):
            one(["d_bsel", ["s", 0], ["pi", v], 2])
            one(["d_wsel", ["s", 0], ["pi", v], 1])
    # Mux(sel, a, b) exhaustively: every selector shape (zero-width and signed included) x arm shape pairs
    for ssel in SMALL_SHAPES:
        for sa, sb in (([2, False], [3, True]), ([1, True], [0, False]), ([3, False], [3, False])):
            st = [[x, y, c_] for c_ in all_values(*ssel) for x in G.boundary_values(*sa) for y in G.boundary_values(*sb)]
            cases.append({"stream": "exi", "sigs": [sa, sb, ssel], "e": ["d_mux", ["s", 2], ["s", 0], ["s", 1]], "stims": st})
    # (2) shift amounts >= 16 and results far wider than 64 bits
    for sh in ([1, False], [4, False], [4, True], [16, False], [33, True], [40, False]):
        for aw in (4, 5, 6):
            w, sg = sh
            xs = G.boundary_values(w, sg) + [G.rand_value(rng, w, sg) for _ in range(2)]
            ams = sorted({a for a in (0, 1, 2, 15, 16, 17, 31, 32, 33, 47, 63) if a < (1 << aw)})
            st = [[x, a] for x in xs for a in ams]
            for op in ("<<", ">>"):
                cases.append({"stream": "wsh", "sigs": [sh, [aw, False]], "e": ["o2", op, ["s", 0], ["s", 1]], "stims": st})
            cases.append({"stream": "wsh", "sigs": [sh, [aw, False]], "stims": st,
                          "e": ["o2", ">>", ["o2", "<<", ["s", 0], ["s", 1]], ["o2", "+", ["s", 1], ["pi", 1]]]})
            cases.append({"stream": "wsh", "sigs": [sh, [aw, False]], "stims": st,
                          "e": ["o2", "<<", ["pi", rng.choice((1, -1, 5, -6))], ["s", 1]]})
        for n in (16, 17, 31, 40, 64):
            vals = [[x] for x in G.boundary_values(*sh)]
            cases.append({"stream": "wsh", "sigs": [sh], "e": ["o2", "<<", ["s", 0], ["pi", n]], "stims": vals})
            cases.append({"stream": "wsh", "sigs": [sh], "e": ["o2", ">>", ["s", 0], ["pi", n]], "stims": vals})
            cases.append({"stream": "wsh", "sigs": [sh], "e": ["d_shl", ["s", 0], n], "stims": vals})
            cases.append({"stream": "wsh", "sigs": [sh], "e": ["d_shr", ["s", 0], n], "stims": vals})
    # (3) matches() with constant-castable patterns that are not ints: Const of any shape, enum members
    for sh in SMALL_SHAPES:
        w, sg = sh
        vals = [[v] for v in all_values(*sh)]
        lo, hi = (-(1 << (w - 1)), 1 << (w - 1)) if sg else (0, 1 << w)
        if w == 0:
            lo, hi = 0, 1
        for psh in ([0, False], [1, False], [w + 1, False], [max(1, w), True], [w + 1, True]):
            for v in range(lo - 1, hi + 1):
                cases.append({"stream": "exm", "sigs": [sh], "stims": vals, "e": ["d_match", ["s", 0], [], [["pc", v, psh[0], psh[1]]]]})
        for ms in ([lo, hi - 1], [lo - 1, 0, hi], [0], [hi - 1, hi, hi + 1]):
            for v in ms:
                for kind in "EI":
                    cases.append({"stream": "exm", "sigs": [sh], "stims": vals, "e": ["d_match", ["s", 0], [], [["pe", v, ms, kind]]]})
        cases.append({"stream": "exm", "sigs": [sh], "stims": vals,
                      "e": ["d_match", ["s", 0], [], [["pc", lo, w + 2, True], "-" * w, ["pe", hi - 1, [lo, hi - 1], "E"], hi]]})
    # (4) Array indexing, exhaustively over small index shapes and element counts (more elements than the index can
    #     address, no element at all, signed indices, Python-int elements); the proxy's own shape() and len() are observed
    elem_pool = [["s", 1], ["s", 2], ["c", 5, 3, False], ["s", 3], ["pi", -2], ["s", 4], ["ca", 9]]
    elem_sigs = [[2, False], [3, True], [0, False], [4, True]]
    for ish in ([0, False], [1, False], [2, False], [1, True], [2, True], [3, True]):
        for n in range(0, 7):
            for rot in (0, 3):
                elems = [elem_pool[(j + rot) % len(elem_pool)] for j in range(n)]
                sigs = [ish] + elem_sigs
                st = [[i] + ev for i in all_values(*ish) for ev in ([1, -3, 0, 7], [2, 2, 0, -8])]
                cases.append({"stream": "arr", "k": "arr", "sigs": sigs, "elems": elems, "idx": ["s", 0], "stims": st, "e": ["d_array", elems, ["s", 0]]})
    for r_, c_ in itertools.product((1, 2, 3), (1, 2, 3)):
        for ish, jsh in (([1, False], [2, False]), ([2, False], [1, False]), ([2, True], [2, False]), ([2, False], [2, True])):
            rows = [[elem_pool[(a * 3 + b) % len(elem_pool)] for b in range(c_)] for a in range(r_)]
            sigs = [ish] + elem_sigs + [jsh]
            st = [[i, 1, -3, 0, 7, j] for i in all_values(*ish) for j in all_values(*jsh)]
            cases.append({"stream": "exi", "sigs": sigs, "e": ["d_array2", rows, ["s", 0], ["s", 5]], "stims": st})
            for k in range(-c_ - 1, c_ + 1):
                cases.append({"stream": "rej" if not -c_ <= k < c_ else "exi", "sigs": sigs, "e": ["d_array2", rows, ["s", 0], ["pi", k]], "stims": st[:6]})
    # (5) documented rejections, compared on the exception class: negative replicate count, indices outside the value,
    #     zero slice step, signed / negative constant offsets and negative widths of bit_select / word_select
    for sh in SMALL_SHAPES:
        w, sg = sh
        vals = [[v] for v in all_values(*sh)][:2]
        rej = lambda e, sigs=None: cases.append({"stream": "rej", "sigs": sigs or [sh], "e": e, "stims": vals if sigs is None else [[0, 0]]})
        for n in (-1, -2):
            rej(["d_rep", ["s", 0], n])
        for i in (w, w + 1, -w - 1, -w - 2):
            rej(["d_idx", ["s", 0], i])
        for a in (None, 0, w):
            rej(["d_key", ["s", 0], [a, None, 0]])
        rej(["o2", "<<", ["s", 0], ["pi", -1]])
        rej(["o2", ">>", ["s", 0], ["pi", -2]])
        rej(["o2", "<<", ["pi", 3], ["o1", "-", ["s", 0]]])
        rej(["o2", ">>", ["s", 0], ["en", -1, [-1, 2], "I"]])
        rej(["d_match", ["d_idx", ["s", 0], w], [], ["0" * (w + 1)]])          # the operand's IndexError comes first
        for pw in (-1, 0, 1, 2):
            for v in range(-w - 2, 0):
                for osh in ([3, True], [max(2, w + 2), True]):
                    if -(1 << (osh[0] - 1)) <= v:
                        rej(["d_bsel", ["s", 0], ["c", v, osh[0], True], pw])
                        if pw:
                            rej(["d_wsel", ["s", 0], ["c", v, osh[0], True], pw])
                rej(["d_bsel", ["s", 0], ["pi", v], pw])
            rej(["d_bsel", ["s", 0], ["s", 1], pw], sigs=[sh, [2, True]])
            rej(["d_wsel", ["s", 0], ["s", 1], pw], sigs=[sh, [2, True]])
            if pw < 0:
                rej(["d_bsel", ["s", 0], ["s", 1], pw], sigs=[sh, [2, False]])
                rej(["d_bsel", ["s", 0], ["c", 0, 1, False], pw])
    # (6) random trees over all of the above (Python ints / enum members / Const(v) operands, wide shift amounts, constant
    #     patterns, big / signed-index / nested Arrays) nested in one another
    X = 1200 if not thorough else 25000
    for i in range(X):
        maxw = 6 if i % 10 else rng.choice((16, 33))
        sigs = [G.rand_shape(rng, maxw) for _ in range(rng.randrange(1, 4))]
        g = G.Gen(rng, sigs, maxw=maxw, maxtotal=80, derived=True, ext=True)
        e = g.derived_node(rng.randrange(1, 3)) if i % 3 == 0 else g.expr(rng.randrange(1, 4))
        if e[0] in ("pi", "en"):
            continue
        try:
            if G.pyshape(e, sigs)[0] > 160:
                continue
        except Exception:
            pass
        cases.append({"stream": "ext", "sigs": sigs, "e": e, "stims": G.stimuli(rng, sigs, 6)})
    # malformed
    M = 400 if not thorough else 5000
    for i in range(M):
        sigs = [G.rand_shape(rng, 5) for _ in range(2)]
        g = G.Gen(rng, sigs, maxw=5, malformed=True, ext=(i % 4 == 3))
        cases.append({"stream": "mal", "sigs": sigs, "e": g.expr(rng.randrange(1, 4)), "stims": G.stimuli(rng, sigs, 1)})
    return cases


def run_impl(c):
    if c.get("k") == "pyb":
        try:
            a, b, st = slice(*c["key"]).indices(c["len"])
        except ValueError:
            return [0]
        return [1, a, b, st] + list(range(a, b, st))
    from amaranth.hdl import Signal, Shape, Module, Value, Array
    from amaranth.sim import Simulator
    sigs = [Signal(Shape(w, bool(s)), name=f"i{k}") for k, (w, s) in enumerate(c["sigs"])]
    head = []
    try:
        if c.get("k") == "arr":
            proxy = Array([G.build(x, sigs) for x in c["elems"]])[G.build(c["idx"], sigs)]
            psh = proxy.shape()                       # ArrayProxy.shape(): over ALL elements
            e = Value.cast(proxy)
            head = [psh.width, int(psh.signed), len(proxy)]
            probe = proxy                             # ctx.get(proxy): the value-castable itself
        else:
            e = probe = G.build(c["e"], sigs)
    except Exception as ex:
        code = ERR_CLASS.get(type(ex).__name__)
        return [0, code] if code else [-1, sum(map(ord, type(ex).__name__))]
    try:
        sh = e.shape()
        o = Signal(sh, name="o")
        o2 = Signal(Shape(sh.width + 3, True), name="o2")
        o3 = Signal(Shape(2, False), name="o3")
        m = Module()
        m.d.comb += [o.eq(probe), o2.eq(e), o3.eq(e)]
        out = [1] + head + [sh.width, int(sh.signed)]
        sim = Simulator(m)

        async def tb(ctx):
            for st in c["stims"]:
                for s, v in zip(sigs, st):
                    ctx.set(s, v)
                out.extend([ctx.get(o), ctx.get(o2), ctx.get(o3), ctx.get(probe), ctx.get(o)])
        sim.add_testbench(tb)
        sim.run()
        return out
    except Exception as ex:
        return [-1, sum(map(ord, type(ex).__name__))]


# exception classes of a rejected construction (compared by NAME: amaranth defines its own SyntaxError), as Derived.build_err
ERR_CLASS = {"TypeError": 1, "ValueError": 2, "IndexError": 3, "SyntaxError": 4}


def coq_term(c):
    if c.get("k") == "pyb":
        o = lambda x: "None" if x is None else f"(Some {z(x)})"
        k = c["key"]
        return f"k_key_indices {z(c['len'])} (Key {o(k[0])} {o(k[1])} {o(k[2])})"
    stims = "[" + "; ".join(zlist(s) for s in c["stims"]) + "]"
    if c.get("k") == "arr":
        return "k_array [" + "; ".join(G.coq_expr(x, c["sigs"]) for x in c["elems"]) + f"] {G.coq_expr(c['idx'], c['sigs'])} {stims}"
    return f"k_expr {G.coq_expr(c['e'], c['sigs'])} {stims}"


def extra(tier, seed, findings):
    """Observation, not a verdict: C01 speaks about the values and shapes of the expressions that WERE built, not about which
    malformed arguments are rejected.  bit_select / word_select document `TypeError if offset is signed`, but a constant signed
    offset is folded through Python's negative indexing (the model follows the code: C01_bit_select_signed_offset_refuted;
    the cases are in stream `rej`).  Probed live so that the note disappears when the behaviour does."""
    from amaranth.hdl import Signal, Const, signed
    obs = []
    try:
        r = Signal(4).bit_select(Const(-2, signed(3)), 1)
        text = f"Signal(4).bit_select(Const(-2, signed(3)), 1) is accepted and builds {r!r} (documented: TypeError for a signed offset)"
        obs.append(text)
        print(f"NOTE: property={ID} observation (not a verdict): {text}")
    except TypeError:
        pass
    return [], {"observations": obs}


def explain(c):
    return ("answers: [1, width, signed] then per stimulus [circuit o, circuit o2 (signed w+3), circuit o3 (unsigned 2), "
            "testbench ctx.get(e), spec value]; [0, c] = rejected at construction with exception class c (1 TypeError, 2 ValueError, "
            "3 IndexError, 4 SyntaxError); k=arr: [1, ArrayProxy.shape() width, signed, len(proxy), width, signed] then the same rows")

"""C02 — assignments and control flow: last active assignment wins, per bit.
Designs are written in the Module DSL (If/Elif/Else, Switch/Case/Default with raw patterns, FSM/State/m.next/ongoing(),
nested, several clock domains, several modules) from a generated program tree.  The program goes to the Gallina model AS
WRITTEN (coq/Model/DslRaw.v: rstmt / rfsm / ritem): the model normalises the patterns, allocates the FSM encoding,
derives the state register's shape and init, lowers everything and runs the simulator's delta-cycle loop.  The real
simulator's trace is compared with (a) that model and (b) for comb logic the per-bit "last active assignment wins over
init" specification."""
import random
from common import z, zlist, blit
import exprgen as G
from props.c05 import TGen, is_linear

ID = "C02"
LEVEL = "proof"
PROPS_FILE = "C02.v"
RUN_MODULE = "RunC02"
TRANSLATOR_UNITS = ["dsl", "pyrtl_lhs"]
SHARD = 60
RULE = ("seeded random DSL designs: 1-3 modules (submodules of the top module or of each other) driving disjoint signals; comb + 1-3 "
        "clock domains (posedge / negedge, synchronous / asynchronous / no reset), every sync signal in one domain; nesting depth<=3 of "
        "If/Elif/Else (multi-bit and signed conditions, conditions may read comb signals), Switch/Case with RAW patterns (ints incl. negative "
        "and unrepresentable, Enum members, several patterns, '-' strings with spaces and tabs, empty Case, Default in the middle; test up to 5 bits), "
        "0-3 FSMs per design (several in one module or spread over the modules) with 0-4 states in any clock domain (init=, ongoing() before definition, ongoing() read inside and after the FSM, m.next under If and "
        "Switch, encoding by first reference; register width, signedness and init compared), assignments to nested linear targets "
        "(Slice/Part/Cat/array/u/s; signals up to 9 bits) ; 12-24 events (input changes, clock edges one signal at a time so both "
        "edges are observed, two clocks at once, reset pulses); all signals read after every event; malformed designs (bad pattern "
        "width / character, m.next outside an FSM, undefined / duplicate / unknown-init FSM states) compared on the exception class; "
        "an exhaustive family: all 2-assignment programs over two 2-bit signals under one 1-bit condition x all inputs; aliased targets "
        "(spec and simulator semantics both modelled). non-trivial = accepted design whose observed trace is not constant; distinct by case hash")
MODELLED = ("Module._pop_ctrl lowering of If/Switch/FSM, FSM state encoding, m.next, ongoing(), Case pattern normalisation "
            "(coq/Model/Dsl.v, DslRaw.v, Derived.v normalize_patterns), _StatementCompiler/_LHSValueCompiler (Stmt.v), "
            "_FragmentCompiler comb / clock-domain processes, LHSMaskCollector, slot update/commit (Process.v), the delta-cycle loop and "
            "edge wakers of the simulator (DslRaw.v run_design). The context-manager bookkeeping of Module (which with-block is open) is "
            "the harness builder's")
ASSUMPTIONS = ["targets are linear (known finding F9 for aliased targets)", "designs have no combinational loops",
               "clock and reset signals are driven by the testbench only"]

ECODE = {"TypeError": 0, "ValueError": 0, "IndexError": 0, "SyntaxError": 1, "NameError": 2, "KeyError": 3}


def classify(c):
    return c["k"] + ":" + c.get("shape", "")


def nrows(c, obs):
    return None


def nontrivial(c, obs):
    if not obs or obs[0] != 1:
        return c["k"] == "bad" and obs[:1] == [0]
    if c["k"] == "alias":
        obs = obs[:obs.index(-99)]
    n = c["nsig"] if c["k"] in ("dsl", "stmts") else len(c["driven"])
    body = obs[1 + 3 * c.get("nfsm", 0):] if c["k"] == "dsl" else obs[1:]
    rows = [tuple(body[i:i + n]) for i in range(0, len(body), n)]
    return len(set(rows)) > 1


# ------------------------------------------------------------------ design generation
class PGen:
    """signal layout: inputs | comb-driven | sync-driven | (clk, rst?) per domain | per FSM: register, ongoing signals"""
    def __init__(self, rng, nin, ncomb, nsync, ndom=1, nmod=1, plain=False):
        self.rng = rng
        self.shapes, self.inits, self.rl = [], [], []
        for k in range(nin + ncomb + nsync):
            maxw = 9 if (not plain and rng.random() < 0.12) else 4
            w, s = G.rand_shape(rng, maxw, allow_zero=(k >= nin))
            self.shapes.append([w, s])
            self.inits.append(G.rand_value(rng, w, s) if k >= nin else 0)
            self.rl.append(k >= nin + ncomb and rng.random() < 0.3)
        self.inputs = list(range(nin))
        self.combs = list(range(nin, nin + ncomb))
        self.syncs = list(range(nin + ncomb, nin + ncomb + nsync))
        self.nmod = nmod
        self.parent = [None] + [rng.randrange(0, k) for k in range(1, nmod)]
        self.named = [rng.random() < 0.5 for _ in range(nmod)]
        self.mod_of = {i: rng.randrange(nmod) for i in self.combs + self.syncs}
        # clock domains (index 1..ndom; 0 is comb)
        self.doms = []
        for k in range(ndom if nsync else 0):
            clk = len(self.shapes)
            self.shapes.append([1, False]); self.inits.append(0); self.rl.append(False)
            if plain or k == 0 and rng.random() < 0.5:
                pos, kind = True, "sync"
            else:
                pos = rng.random() < 0.5
                kind = rng.choice(["sync", "async", "none"])
            rst = None
            if kind != "none":
                rst = len(self.shapes)
                self.shapes.append([1, False]); self.inits.append(0); self.rl.append(False)
            self.doms.append({"clk": clk, "pos": pos, "rst": rst, "async": kind == "async",
                              "name": "sync" if k == 0 else f"d{k + 1}"})
        self.dom_of = {i: rng.randrange(1, len(self.doms) + 1) for i in self.syncs} if self.doms else {}
        self.nbase = len(self.shapes)
        self.extra_read = []
        self.comb_floor = -1
        self.fsms = []
        self.cur_fsm = None

    # ---- expressions
    def rexpr(self, readable, depth=2):
        readable = list(readable) + self.extra_read
        g = G.Gen(self.rng, self.shapes, maxw=4, maxtotal=12)
        for _ in range(30):
            e = g.expr(self.rng.randrange(0, depth + 1))
            if set(G.sig_ids(e)) <= set(readable):
                return e
        if not readable:
            return ["c", 1, 1, False]
        return ["s", self.rng.choice(readable)]

    def target(self, pool):
        """a linear target over the signals in pool"""
        r = self.rng
        sub = r.sample(pool, r.randrange(1, min(2, len(pool)) + 1))
        tsh = [self.shapes[i] for i in sub]
        ish = [self.shapes[i] for i in self.inputs] or [[1, False]]
        tg = TGen(r, tsh, ish)
        for _ in range(10):
            tg.free = list(range(len(sub)))
            t = tg.target(r.randrange(0, 3))
            if t is not None and is_linear(t):
                return self.remap(t, sub, len(sub))
        return ["s", sub[0]]

    def remap(self, t, sub, nt):
        k = t[0]
        if k == "s":
            return ["s", sub[t[1]] if t[1] < nt else (self.inputs[t[1] - nt] if self.inputs else 0)]
        if k == "c":
            return t
        if k == "o1":
            return ["o1", t[1], self.remap(t[2], sub, nt)]
        if k == "o2":
            return ["o2", t[1], self.remap(t[2], sub, nt), self.remap(t[3], sub, nt)]
        if k == "sl":
            return ["sl", self.remap(t[1], sub, nt), t[2], t[3]]
        if k == "pt":
            return ["pt", self.remap(t[1], sub, nt), self.remap(t[2], sub, nt), t[3], t[4]]
        if k == "cat":
            return ["cat", [self.remap(p, sub, nt) for p in t[1]]]
        if k == "sw":
            return ["sw", self.remap(t[1], sub, nt), [[ps, self.remap(e, sub, nt)] for ps, e in t[2]]]
        raise ValueError(k)

    # ---- statements of module `mod`
    def assign(self, mod):
        r = self.rng
        syncs = [i for i in self.syncs if self.mod_of[i] == mod]
        combs = [i for i in self.combs if self.mod_of[i] == mod and i > self.comb_floor]
        if syncs and (not combs or r.random() < 0.45):
            d = self.dom_of[r.choice(syncs)]
            t = self.target([i for i in syncs if self.dom_of[i] == d])
            return ["as", d, t, self.rexpr(self.inputs + self.combs + self.syncs)]
        if not combs:
            return None
        t = self.target(combs)
        lowest = min([i for i in G.sig_ids(t) if i in self.combs] or [min(combs)])
        readable = self.inputs + self.syncs + [c for c in self.combs if c < lowest]
        return ["as", 0, t, self.rexpr(readable)]

    def cond(self):
        """a condition / switch test; may read comb signals, which then may not be assigned (comb) underneath"""
        r = self.rng
        readable = self.inputs + self.syncs
        if self.combs and r.random() < 0.3:
            readable = readable + [c for c in self.combs if c <= r.choice(self.combs)]
        e = self.rexpr(readable or [0], depth=1)
        cr = [i for i in G.sig_ids(e) if i in self.combs]
        return e, (max(cr) if cr else -1)

    def raw_patterns(self, w, sg):
        r = self.rng
        pats = []
        for _ in range(r.randrange(0, 3)):
            q = r.random()
            if q < 0.4:
                pats.append(r.randrange(-(1 << w) - 1, (1 << w) + 2))
            elif q < 0.55:
                pats.append(["enum", r.randrange(-(1 << w) - 1, (1 << w) + 2)])
            else:
                p = "".join(r.choice("01-") for _ in range(w))
                for _ in range(r.randrange(0, 3) if r.random() < 0.35 else 0):
                    k = r.randrange(0, len(p) + 1)
                    p = p[:k] + r.choice(" \t") + p[k:]
                pats.append(p)
        return pats

    def stmts(self, d, mod, n=None):
        r = self.rng
        out = []
        for _ in range(n if n is not None else r.randrange(0, 4)):
            c = r.random()
            if self.cur_fsm is not None and c < 0.18:
                out.append(["next", r.choice(self.cur_fsm)])
            elif d <= 0 or c < 0.5:
                a = self.assign(mod)
                if a:
                    out.append(a)
            elif c < 0.78:
                brs = []
                floor0 = self.comb_floor
                for _ in range(r.randrange(1, 4)):
                    cnd, cr = self.cond()
                    self.comb_floor = max(self.comb_floor, cr)      # later conditions are evaluated too: keep the floor
                    brs.append([cnd, None])
                for br in brs:
                    br[1] = self.stmts(d - 1, mod)
                has_else = r.random() < 0.5
                els = self.stmts(d - 1, mod) if has_else else []
                self.comb_floor = floor0
                out.append(["if", brs, has_else, els])
            else:
                test, cr = self.cond()
                w, sg = G.pyshape(test, self.shapes)
                lim = 5 if r.random() < 0.15 else 3
                if w > lim:
                    test = ["sl", test, 0, lim]
                    w, sg = lim, False
                floor0 = self.comb_floor
                self.comb_floor = max(self.comb_floor, cr)
                cases = []
                for _ in range(r.randrange(1, 5)):
                    pats = None if r.random() < 0.15 else self.raw_patterns(w, sg)
                    cases.append([pats, self.stmts(d - 1, mod)])
                self.comb_floor = floor0
                out.append(["switch", test, cases])
        return out

    def add_fsm(self, mod):
        """one FSM in a clock domain; the state register and the ongoing() signals are new signals"""
        r = self.rng
        n = r.choice([0, 1, 1, 2, 2, 3, 3, 4])
        names = list(range(n))
        order = names[:]
        r.shuffle(order)
        pre = [x for x in names if r.random() < 0.3]
        r.shuffle(pre)
        init = r.choice(names) if names and r.random() < 0.4 else None
        dom = r.randrange(1, len(self.doms) + 1)
        reg = len(self.shapes)
        self.shapes.append([1, False]); self.inits.append(0); self.rl.append(False)     # shape / init are the model's to say
        og = {}
        for nm in order:
            og[nm] = len(self.shapes)
            self.shapes.append([1, False]); self.inits.append(0); self.rl.append(False)
        states = []
        saved = list(self.extra_read)
        self.extra_read = saved + [og[nm] for nm in pre]
        self.cur_fsm = names
        for nm in order:
            states.append([nm, self.stmts(2, mod, n=r.randrange(0, 4))])
        self.cur_fsm = None
        self.extra_read = saved + [og[nm] for nm in order]            # after the FSM every ongoing() signal can be read
        f = {"reg": reg, "dom": dom, "init": init, "pre": pre, "states": states, "og": [[nm, og[nm]] for nm in order]}
        self.fsms.append(f)
        return ["fsm", f]

    def module(self, mod, nfsm):
        """statements, then `nfsm` times: an FSM and more statements (which may read its ongoing() signals)"""
        r = self.rng
        prog = self.stmts(r.randrange(1, 4), mod, n=r.randrange(1, 5))
        for _ in range(int(nfsm)):
            prog.append(self.add_fsm(mod))
            prog += self.stmts(r.randrange(1, 3), mod, n=r.randrange(0, 3))
        return prog

    def events(self, n):
        r = self.rng
        evs = []
        for _ in range(n):
            c = r.random()
            if c < 0.4 and self.inputs:
                i = r.choice(self.inputs)
                evs.append([[i, G.rand_value(r, *self.shapes[i])]])
            elif c < 0.8 and self.doms:
                d = r.choice(self.doms)
                evs.append([[d["clk"], 1]]); evs.append([[d["clk"], 0]])
            elif c < 0.86 and len(self.doms) >= 2:
                a, b = r.sample(self.doms, 2)
                v = r.randrange(2)
                evs.append([[a["clk"], v], [b["clk"], r.randrange(2)]])
                evs.append([[a["clk"], 1 - v], [b["clk"], r.randrange(2)]])
            elif self.doms:
                rs = [d["rst"] for d in self.doms if d["rst"] is not None]
                if rs:
                    evs.append([[r.choice(rs), r.randrange(2)]])
            elif self.inputs:
                i = r.choice(self.inputs)
                evs.append([[i, G.rand_value(r, *self.shapes[i])]])
        return evs

    def case(self, mods, evs, **kw):
        return dict({"shapes": self.shapes, "inits": self.inits, "rl": self.rl, "nbase": self.nbase, "doms": self.doms,
                     "mods": mods, "parent": self.parent, "named": self.named, "evs": evs, "nsig": len(self.shapes),
                     "nfsm": len(self.fsms)}, **kw)


def gen_cases(tier, seed):
    rng = random.Random(seed + 2)
    thorough = tier == "thorough"
    cases = []
    N = 520 if not thorough else 6000
    for i in range(N):
        ndom = rng.choice([1, 1, 1, 2, 2, 3])
        nmod = rng.choice([1, 1, 1, 2, 2, 3])
        pg = PGen(rng, rng.randrange(1, 4), rng.randrange(0, 3), rng.randrange(0, 3), ndom, nmod)
        if not pg.combs and not pg.syncs:
            continue
        nf = rng.choice([1, 1, 1, 2, 2, 3]) if pg.doms and rng.random() < 0.45 else 0
        has_fsm = nf > 0
        per_mod = [0] * nmod
        for _ in range(nf):
            per_mod[rng.randrange(nmod)] += 1
        mods = [pg.module(k, per_mod[k]) for k in range(nmod)]
        evs = pg.events(rng.randrange(10, 20))
        shape = ("fsm" + (f"x{nf}" if nf > 1 else "") if has_fsm else "rnd") + (f"{nmod}m" if nmod > 1 else "") + (f"{len(pg.doms)}d" if len(pg.doms) > 1 else "")
        cases.append(pg.case(mods, evs, k="dsl", shape=shape))
        if i % 3 == 0:
            cases.append(pg.case(mods, evs, k="stmts", shape="fsm" if has_fsm else "rnd"))
        if pg.combs and i % 2 == 0 and not has_fsm and nmod == 1:
            cases.append(pg.case(mods, [e for e in evs if all(x[0] in pg.inputs for x in e)], k="combspec", shape="rnd",
                                 driven=pg.combs))
    # malformed designs: one defect each, compared on the exception class
    kinds = ["badpat_len", "badpat_char", "next_outside", "undef_next", "undef_pre", "dup_state", "bad_init", "undef_init"]
    for i in range(64 if not thorough else 400):
        kind = kinds[i % len(kinds)]
        pg = PGen(rng, rng.randrange(1, 3), rng.randrange(1, 3), rng.randrange(1, 3), 1, 1, plain=True)
        prog = pg.module(0, True)
        f = pg.fsms[0]
        if kind in ("undef_next", "dup_state", "bad_init", "undef_init", "undef_pre") and not f["states"]:
            f["states"].append([0, []]); f["og"].append([0, len(pg.shapes)])
            pg.shapes.append([1, False]); pg.inits.append(0); pg.rl.append(False)
        if kind == "badpat_len":
            t = ["s", pg.inputs[0]]
            w = pg.shapes[pg.inputs[0]][0]
            prog.insert(rng.randrange(len(prog) + 1), ["switch", t, [[["0" * (w + 1) if rng.random() < 0.5 else "1" * max(0, w - 1) + " "], []]]])
        elif kind == "badpat_char":
            t = ["s", pg.inputs[0]]
            w = pg.shapes[pg.inputs[0]][0]
            prog.insert(rng.randrange(len(prog) + 1), ["switch", t, [[[0], []], [[("x" * w) or "x"], []]]])
        elif kind == "next_outside":
            where = rng.randrange(len(prog) + 1)
            st = ["next", 0]
            if rng.random() < 0.5:
                st = ["if", [[["s", pg.inputs[0]], [st]]], False, []]
            prog.insert(where, st)
        elif kind == "undef_next":
            rng.choice(f["states"])[1].append(["next", 7])
        elif kind == "undef_pre":
            f["pre"].append(7)
        elif kind == "dup_state":
            f["states"].append([f["states"][0][0], []])
        elif kind == "bad_init":
            f["init"] = 8                       # never referenced: KeyError when the FSM is closed
        elif kind == "undef_init":
            f["init"] = 7
            rng.choice(f["states"])[1].append(["next", 7])     # referenced but not defined: NameError comes first
        cases.append(pg.case([prog], [], k="bad", shape=kind))
    # exhaustive small family: two assignments to two 2-bit comb signals under one 1-bit condition
    shapes = [[1, False], [2, False], [2, False], [2, False]]     # c, x | a, b
    tg = [["s", 2], ["s", 3], ["sl", ["s", 2], 0, 1], ["sl", ["s", 3], 1, 2], ["cat", [["s", 2], ["s", 3]]],
          ["pt", ["s", 2], ["s", 0], 1, 1]]
    rhs = [["s", 1], ["c", 2, 2, False], ["o1", "~", ["s", 1]]]
    evs = [[[0, c]] for c in (0, 1)] + [[[1, v]] for v in range(4)] + [[[0, 0]]] + [[[1, 1]]]
    base = {"shapes": shapes, "inits": [0, 0, 1, 2], "rl": [False] * 4, "nbase": 4, "doms": [], "parent": [None],
            "named": [False], "evs": evs, "nsig": 4, "nfsm": 0}
    for t1 in tg:
        for t2 in tg:
            for r1 in rhs:
                for wrap in ("plain", "if", "ifelse"):
                    a1, a2 = ["as", 0, t1, r1], ["as", 0, t2, ["s", 1]]
                    if wrap == "plain":
                        prog = [a1, a2]
                    elif wrap == "if":
                        prog = [a1, ["if", [[["s", 0], [a2]]], False, []]]
                    else:
                        prog = [["if", [[["s", 0], [a1]]], True, [a2]]]
                    cases.append(dict(base, mods=[prog], k="dsl", shape="ex"))
                    cases.append(dict(base, mods=[prog], k="combspec", shape="ex", driven=[2, 3]))
    # aliased targets (a signal named twice inside one target): specification = addressed bits (what the netlist and
    # testbench writes do); the simulator's read-modify-write code writes the stale alias back (known finding F9).
    # Both semantics are modelled; the observation must equal one of them exactly.
    sh = [[1, False], [2, False], [2, False]]        # x | a, b
    ev2 = [[[0, 1]], [[0, 0]], [[0, 1]]]
    alias_targets = [["sl", ["cat", [["s", 1], ["sl", ["s", 1], 0, 1]]], 0, 1],
                     ["sl", ["cat", [["sl", ["s", 1], 0, 1], ["s", 1]]], 0, 1],
                     ["pt", ["cat", [["s", 1], ["s", 2], ["s", 1]]], ["c", 0, 1, False], 1, 1],
                     ["sl", ["cat", [["s", 1], ["s", 1]]], 1, 3],
                     ["sl", ["cat", [["s", 1], ["s", 2], ["s", 1]]], 1, 5],
                     ["pt", ["cat", [["s", 2], ["s", 2]]], ["s", 0], 2, 2],
                     ["sl", ["o1", "u", ["cat", [["s", 1], ["s", 1]]]], 0, 3]]
    for t in alias_targets:
        for rh in (["s", 0], ["o1", "~", ["cat", [["s", 0], ["s", 0], ["s", 0]]]]):
            cases.append(dict(base, shapes=sh, inits=[0, 0, 0], rl=[False] * 3, nbase=3, nsig=3, evs=ev2,
                              mods=[[["as", 0, t, rh]]], k="alias", shape="alias", driven=[1, 2]))
    return cases


def known_finding(c, obs, model):
    """F9 only when the observation is EXACTLY what the model of the simulator's read-modify-write code predicts (and
    differs from the per-bit specification); anything else in an alias case is a violation"""
    if c["k"] != "alias" or -99 not in obs or -99 not in model:
        return None
    o = obs[:obs.index(-99)]
    spec, rmw = model[:model.index(-99)], model[model.index(-99) + 1:]
    if o == rmw and o != spec:
        return "F9-rtl-lhs-alias-rmw"
    return None


# ------------------------------------------------------------------ the real design
def build_design(c):
    import enum
    from amaranth.hdl import Signal, Shape, Module, ClockDomain
    shapes = c["shapes"]
    sigs = [None] * len(shapes)
    cds = []
    special = {}
    for d in c["doms"]:
        cd = ClockDomain(d["name"], clk_edge="pos" if d["pos"] else "neg", reset_less=d["rst"] is None,
                         async_reset=bool(d["async"]))
        cds.append(cd)
        special[d["clk"]] = cd.clk
        if d["rst"] is not None:
            special[d["rst"]] = cd.rst
    for k in range(c["nbase"]):
        if k in special:
            sigs[k] = special[k]
        else:
            w, s = shapes[k]
            sigs[k] = Signal(Shape(w, bool(s)), name=f"x{k}", init=c["inits"][k], reset_less=bool(c["rl"][k]))
    mods = [Module() for _ in c["mods"]]
    for cd in cds:
        setattr(mods[0].domains, cd.name, cd)
    for k in range(1, len(mods)):
        if c["named"][k]:
            setattr(mods[c["parent"][k]].submodules, f"sub{k}", mods[k])
        else:
            mods[c["parent"][k]].submodules += mods[k]
    fsms = []
    enums = {}

    def pattern(p):
        if isinstance(p, list):              # Enum member with that value
            v = p[1]
            if v not in enums:
                enums[v] = enum.Enum(f"E{len(enums)}", {"M": v})
            return enums[v].M
        return p

    def dname(d):
        return "comb" if d == 0 else c["doms"][d - 1]["name"]

    def emit(m, stmts):
        for s in stmts:
            if s[0] == "fsm":
                f = s[1]
                kw = {} if f["init"] is None else {"init": f"S{f['init']}"}
                og = dict(map(tuple, f["og"]))
                with m.FSM(domain=dname(f["dom"]), **kw) as fsm:
                    for nm in f["pre"]:
                        h = fsm.ongoing(f"S{nm}")
                        if nm in og:
                            sigs[og[nm]] = h
                    for nm, body in f["states"]:
                        with m.State(f"S{nm}"):
                            emit(m, body)
                sigs[f["reg"]] = fsm.state
                for nm, k in og.items():
                    # ongoing() requested before the state is defined must be the signal the FSM drives: observe the
                    # early handle, and require the late one to be the same object
                    h = fsm.ongoing(f"S{nm}")
                    if sigs[k] is None:
                        sigs[k] = h
                    elif sigs[k] is not h:
                        raise AssertionError("ongoing() returned two different signals for one state")
                fsms.append(fsm)
            elif s[0] == "next":
                m.next = f"S{s[1]}"
            elif s[0] == "as":
                m.d[dname(s[1])] += G.build(s[2], sigs).eq(G.build(s[3], sigs))
            elif s[0] == "if":
                for k, (cnd, body) in enumerate(s[1]):
                    ctx = m.If(G.build(cnd, sigs)) if k == 0 else m.Elif(G.build(cnd, sigs))
                    with ctx:
                        emit(m, body)
                if s[2]:
                    with m.Else():
                        emit(m, s[3])
            elif s[0] == "switch":
                with m.Switch(G.build(s[1], sigs)):
                    for pats, body in s[2]:
                        if pats is None:
                            with m.Default():
                                emit(m, body)
                        else:
                            with m.Case(*[pattern(p) for p in pats]):
                                emit(m, body)
    for m, prog in zip(mods, c["mods"]):
        emit(m, prog)
    return mods, sigs, cds, fsms


def run_impl(c):
    import warnings
    from amaranth.hdl import Cat
    from amaranth.sim import Simulator
    warnings.simplefilter("ignore")
    try:
        mods, sigs, cds, fsms = build_design(c)
        for m in mods:
            m._flush()                       # close pending If/Switch/FSM constructs: their exceptions are build-time ones
    except Exception as ex:
        name = type(ex).__name__
        if name in ECODE:
            return [0, ECODE[name]]
        return [-1, sum(map(ord, name))]
    try:
        out = [1]
        if c["k"] == "dsl":
            for fsm in fsms:
                sh = fsm.state.shape()
                out += [sh.width, int(sh.signed), int(fsm.state.init)]
        read = sigs if c["k"] in ("dsl", "stmts") else [sigs[i] for i in c["driven"]]
        if any(s is None for s in read):
            raise AssertionError("a signal of the design was never created")
        sim = Simulator(mods[0])

        async def tb(ctx):
            out.extend(ctx.get(s) for s in read)
            for ev in c["evs"]:
                if len(ev) == 1:
                    ctx.set(sigs[ev[0][0]], ev[0][1])
                else:
                    ctx.set(Cat(sigs[i] for i, _ in ev), sum((v & 1) << k for k, (_, v) in enumerate(ev)))
                out.extend(ctx.get(s) for s in read)
        sim.add_testbench(tb)
        sim.run()
        if c["k"] == "alias":
            return out + [-99] + out
        return out
    except Exception as ex:
        return [-1, sum(map(ord, type(ex).__name__))]


# ------------------------------------------------------------------ the model's term
PCH = {"0": "C0", "1": "C1", "-": "CDash", " ": "CSpace", "\t": "CTab"}


def coq_rawpat(p):
    if isinstance(p, str):
        return "RStr [" + "; ".join(PCH.get(ch, "COther") for ch in p) + "]"
    if isinstance(p, list):
        return f"RInt {z(p[1])}"
    return f"RInt {z(p)}"


def coq_rstmts(stmts, shapes):
    return "[" + "; ".join(coq_rstmt(s, shapes) for s in stmts) + "]"


def coq_rstmt(s, shapes):
    if s[0] == "as":
        return f"(RAssign {s[1]} {G.coq_expr(s[2], shapes)} {G.coq_expr(s[3], shapes)})"
    if s[0] == "if":
        brs = "[" + "; ".join(f"({G.coq_expr(c, shapes)}, {coq_rstmts(b, shapes)})" for c, b in s[1]) + "]"
        return f"(RIf {brs} {blit(s[2])} {coq_rstmts(s[3], shapes)})"
    if s[0] == "switch":
        cs = []
        for ps, b in s[2]:
            pp = "None" if ps is None else "(Some [" + "; ".join(coq_rawpat(p) for p in ps) + "])"
            cs.append(f"({pp}, {coq_rstmts(b, shapes)})")
        return f"(RSwitch {G.coq_expr(s[1], shapes)} [" + "; ".join(cs) + "])"
    if s[0] == "next":
        return f"(RNext {s[1]})"
    raise ValueError(s[0])


def coq_items(prog, shapes):
    out = []
    for s in prog:
        if s[0] == "fsm":
            f = s[1]
            init = "None" if f["init"] is None else f"(Some {f['init']}%nat)"
            pre = "[" + "; ".join(f"{x}%nat" for x in f["pre"]) + "]"
            states = "[" + "; ".join(f"({nm}%nat, {coq_rstmts(b, shapes)})" for nm, b in f["states"]) + "]"
            og = "[" + "; ".join(f"({nm}%nat, {k}%nat)" for nm, k in f["og"]) + "]"
            out.append(f"IFsm (RFsm {f['reg']} {f['dom']} {init} {pre} {states} {og})")
        else:
            out.append(f"IStmt {coq_rstmt(s, shapes)}")
    return "[" + "; ".join(out) + "]"


def coq_events(evs):
    return "[" + "; ".join("[" + "; ".join(f"({i}%nat, {z(v)})" for i, v in ev) + "]" for ev in evs) + "]"


def coq_sigs(shapes, inits, rl):
    return "[" + "; ".join(f"SD {z(w)} {blit(s)} {z(inits[k])} {blit(rl[k])}" for k, (w, s) in enumerate(shapes)) + "]"


def coq_doms(c):
    return "[" + "; ".join(f"DomDesc {d['clk']} {blit(d['pos'])} " + ("None" if d["rst"] is None else f"(Some {d['rst']}%nat)")
                           + f" {blit(d['async'])}" for d in c["doms"]) + "]"


def coq_term(c):
    shapes = c["shapes"]
    nb = c["nbase"]
    base = coq_sigs(shapes[:nb], c["inits"], c["rl"])
    if c["k"] in ("dsl", "bad"):
        mods = "[" + "; ".join(coq_items(p, shapes) for p in c["mods"]) + "]"
        return f"k_design {base} {coq_doms(c)} {mods} {coq_events(c['evs'])}"
    if c["k"] in ("combspec", "alias"):
        drv = "[" + "; ".join(f"{i}%nat" for i in c["driven"]) + "]"
        fn = "k_comb_spec" if c["k"] == "combspec" else "k_comb_alias"
        return f"{fn} {base} {coq_rstmts(c['mods'][0], shapes)} {drv} {coq_events(c['evs'])}"
    if c["k"] == "stmts":
        # statements as lowered by the REAL Modules, serialised from the elaborated fragments (one per module); the signals
        # the FSM creates are described from the real objects
        import astser, warnings
        from amaranth.hdl import Fragment
        warnings.simplefilter("ignore")
        mods, sigs, cds, fsms = build_design(c)
        sm = astser.SigMap(sigs)
        names = ["comb"] + [d["name"] for d in c["doms"]]
        out = []
        for m in mods:
            frag = Fragment.get(m, None)
            doms = {d: astser.ser_stmts(st, sm) for d, st in frag.statements.items()}
            if set(doms) - set(names):
                raise ValueError("unexpected domain in an elaborated fragment")
            out.append(doms)
        if len(sm.signals) != len(sigs):
            raise ValueError("unexpected extra signal in elaborated fragment")
        rshapes = sm.shapes()
        rinits = [int(s.init) for s in sm.signals]
        rrl = [bool(s.reset_less) for s in sm.signals]
        design = "[" + "; ".join("[" + "; ".join(astser.coq_stmts(doms.get(nm, []), rshapes) for nm in names) + "]"
                                 for doms in out) + "]"
        return f"k_stmts {coq_sigs(rshapes, rinits, rrl)} {coq_doms(c)} {design} {coq_events(c['evs'])}"
    raise ValueError(c["k"])


def explain(c):
    return ("answers: k=dsl: [1], per FSM (register width, signed, init), then initially and after every event (one or several "
            "signals set at once: inputs, clocks, resets) the values of all signals; [0, class] when building raises (0 Type/Value/"
            "IndexError, 1 SyntaxError, 2 NameError, 3 KeyError); [2] when the model's settle loop does not converge. k=stmts: the same "
            "trace from amaranth's own lowered statements. k=combspec: the comb-driven signals per the per-bit last-active-assignment-"
            "wins-over-init specification. k=alias: observed ++ [-99] ++ observed against spec ++ [-99] ++ simulator-RMW model")


def extra(tier, seed, findings):
    """evaluate the model's decidable no-combinational-loop check (coq/Model/DslAcyc.v: acyclic_auto, the hypothesis of
    C02_settle_terminates_auto) on the lowered comb statements of the generated designs and record how many satisfy it"""
    import collections
    import common as C
    cases = [c for c in gen_cases(tier, seed) if c["k"] == "dsl" and c.get("shape") != "ex"]
    if tier == "thorough":
        cases = cases[:2500]
    terms = []
    for c in cases:
        base = coq_sigs(c["shapes"][:c["nbase"]], c["inits"], c["rl"])
        mods = "[" + "; ".join(coq_items(p, c["shapes"]) for p in c["mods"]) + "]"
        terms.append(f"k_acyclic {base} {coq_doms(c)} {mods}")
    vals, errors = C.run_model(ID + "_acyc", RUN_MODULE, terms, [[-7]] * len(terms), shard_size=4 * SHARD)
    viol = []
    if errors or len(vals) != len(terms):
        viol.append({"property": ID, "kind": "extra", "what": "the acyclicity check could not be evaluated on every design",
                     "errors": [e[:500] for e in errors[:3]], "evaluated": len(vals), "designs": len(terms)})
    ok = [v for v in vals.values() if v[:1] == [1]]
    hist = collections.Counter(v[1] for v in ok)
    cov = {"acyclic_checked": len(terms), "acyclic_ok": len(ok),
           "acyclic_not_ok": sum(1 for v in vals.values() if v[:1] == [0]),
           "acyclic_max_rank": max(hist) if hist else 0,
           "acyclic_rank_hist": {str(k): hist[k] for k in sorted(hist)}}
    return viol, cov

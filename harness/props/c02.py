"""C02 — assignments and control flow: last active assignment wins, per bit.
Designs are written in the Module DSL (If/Elif/Else, Switch/Case/Default, nested, mixed comb/sync bodies) from a
generated program tree; the real simulator's trace is compared with (a) the model lowering + RTL process semantics
and (b) for comb logic the per-bit "last active assignment wins over init" specification."""
import random
from common import z, zlist, blit
import exprgen as G
from props.c05 import TGen, is_linear

ID = "C02"
LEVEL = "proof"
PROPS_FILE = "C02.v"
RUN_MODULE = "RunC02"
TRANSLATOR_UNITS = ["dsl"]
SHARD = 120
RULE = ("seeded random DSL programs: nesting depth<=3 of If/Elif/Else (multi-bit and signed conditions), Switch/Case (ints incl. "
        "negative and unrepresentable, multiple patterns, '-' strings with whitespace, empty Case, Default in the middle), "
        "FSM with 1-4 states (init=, ongoing() before definition, m.next under conditions, encoding by first reference), assignments to nested linear targets (Slice/Part/Cat/array/u/s) in comb and one sync domain (reset, reset-less signals), "
        "mixed-domain bodies; 12-24 events (input changes, clock ticks, reset toggles); all signals read after every event; plus "
        "an exhaustive family: all 2-assignment programs over two 2-bit signals under one 1-bit condition x all inputs. "
        "non-trivial = accepted program whose observed trace is not constant; distinct by case hash")
MODELLED = ("Module._pop_ctrl lowering of If/Switch (coq/Model/Dsl.v), _StatementCompiler/_LHSValueCompiler (Stmt.v), "
            "_FragmentCompiler comb/sync processes, LHSMaskCollector and slot update/commit (Process.v). The context-manager "
            "bookkeeping of Module and which domains get a Switch are exercised by the differential run only; the three "
            "_pop_ctrl branches (If/Switch/FSM) and the FSM encoding allocation in State/next/ongoing are also regenerated "
            "from hdl/_dsl.py (translator unit dsl, Gen/DslGen.v) and proved equal to Dsl.v (lower, lower_fsm, fsm_ref); "
            "pattern normalisation of Case() is the _normalize_patterns model of C01 (unit derived)")
ASSUMPTIONS = ["targets are linear (known finding F9 for aliased targets)", "designs have no combinational loops"]


def classify(c):
    return c["k"] + ":" + c.get("shape", "")


def nontrivial(c, obs):
    if not obs or obs[0] != 1:
        return False
    n = c["nsig"] if c["k"] not in ("combspec", "aliasspec") else len(c["driven"])
    rows = [tuple(obs[1 + i:1 + i + n]) for i in range(0, len(obs) - 1, n)]
    return len(set(rows)) > 1


# ------------------------------------------------------------------ pattern normalisation (harness-side)
def norm_patterns(pats, w, signed):
    """mirror of what a Switch ends up matching: list of strings over 01- (possibly empty = never)"""
    out = []
    for p in pats:
        if isinstance(p, str):
            out.append("".join(p.split()))
        else:
            lo, hi = (-(1 << (w - 1)), 1 << (w - 1)) if signed else (0, 1 << w)
            if w == 0:
                lo, hi = 0, 1
            if lo <= p < hi:
                out.append(format(p & ((1 << w) - 1), "b").rjust(w, "0") if w else "")
    return out


# ------------------------------------------------------------------ program generation
class PGen:
    def __init__(self, rng, nin, ncomb, nsync):
        self.rng = rng
        self.shapes = []
        self.inits = []
        self.rl = []
        for k in range(nin + ncomb + nsync):
            w, s = G.rand_shape(rng, 4, allow_zero=(k >= nin))
            self.shapes.append([w, s])
            self.inits.append(G.rand_value(rng, w, s) if k >= nin else 0)
            self.rl.append(k >= nin + ncomb and rng.random() < 0.3)
        self.inputs = list(range(nin))
        self.combs = list(range(nin, nin + ncomb))
        self.syncs = list(range(nin + ncomb, nin + ncomb + nsync))
        self.rst = nin + ncomb + nsync
        self.shapes.append([1, False]); self.inits.append(0); self.rl.append(False)

    def rexpr(self, readable, depth=2):
        g = G.Gen(self.rng, self.shapes, maxw=4, maxtotal=12)
        for _ in range(30):
            e = g.expr(self.rng.randrange(0, depth + 1))
            if set(G.sig_ids(e)) <= set(readable):
                return e
        i = self.rng.choice(readable)
        return ["s", i]

    def target(self, pool):
        """a linear target over the signals in pool"""
        r = self.rng
        sub = r.sample(pool, r.randrange(1, min(2, len(pool)) + 1))
        tsh = [self.shapes[i] for i in sub]
        ish = [self.shapes[i] for i in self.inputs] or [[1, False]]
        tg = TGen(r, tsh, ish)
        for _ in range(10):
            tg.free = list(range(len(sub)))
            t = tg.target(r.randrange(0, 3))
            if t is not None and is_linear(t):
                # remap local indices: target signals -> sub[k], selector inputs -> inputs[k]
                return self.remap(t, sub, len(sub))
        return ["s", sub[0]]

    def remap(self, t, sub, nt):
        k = t[0]
        if k == "s":
            return ["s", sub[t[1]] if t[1] < nt else (self.inputs[t[1] - nt] if self.inputs else 0)]
        if k == "c":
            return t
        if k == "o1":
            return ["o1", t[1], self.remap(t[2], sub, nt)]
        if k == "o2":
            return ["o2", t[1], self.remap(t[2], sub, nt), self.remap(t[3], sub, nt)]
        if k == "sl":
            return ["sl", self.remap(t[1], sub, nt), t[2], t[3]]
        if k == "pt":
            return ["pt", self.remap(t[1], sub, nt), self.remap(t[2], sub, nt), t[3], t[4]]
        if k == "cat":
            return ["cat", [self.remap(p, sub, nt) for p in t[1]]]
        if k == "sw":
            return ["sw", self.remap(t[1], sub, nt), [[ps, self.remap(e, sub, nt)] for ps, e in t[2]]]
        raise ValueError(k)

    def assign(self):
        r = self.rng
        if self.syncs and (not self.combs or r.random() < 0.45):
            t = self.target(self.syncs)
            return ["as", "sync", t, self.rexpr(self.inputs + self.combs + self.syncs)]
        if not self.combs:
            return None
        t = self.target(self.combs)
        lowest = min([i for i in G.sig_ids(t) if i in self.combs] or [min(self.combs)])
        readable = self.inputs + self.syncs + [c for c in self.combs if c < lowest]
        return ["as", "comb", t, self.rexpr(readable or [0])]

    def cond(self):
        return self.rexpr(self.inputs + self.syncs or [0], depth=1)

    def add_fsm(self):
        """one FSM in the sync domain: state register and ongoing() signals become extra signals after rst"""
        r = self.rng
        n = r.randrange(1, 5)
        names = [f"S{k}" for k in range(n)]
        order = names[:]
        r.shuffle(order)
        pre = [x for x in names if r.random() < 0.3]
        r.shuffle(pre)
        init = r.choice(names) if r.random() < 0.4 else None
        self.fsm_names = names
        states = []
        for nm in order:
            body = self.stmts(2, n=r.randrange(0, 3))
            # sprinkle m.next assignments, some under conditions
            for _ in range(r.randrange(0, 3)):
                tgt = r.choice(names)
                if r.random() < 0.5:
                    body.append(["next", tgt])
                else:
                    body.append(["if", [[self.cond(), [["next", tgt]]]], False, []])
            r.shuffle(body)
            states.append([nm, body])
        # encoding: order of first reference (ongoing() calls before the states, then State / m.next in program order)
        enc = {}
        for nm in pre:
            enc.setdefault(nm, len(enc))

        def walk(stmts):
            for st in stmts:
                if st[0] == "next":
                    enc.setdefault(st[1], len(enc))
                elif st[0] == "if":
                    for _, b in st[1]:
                        walk(b)
                    walk(st[3])
                elif st[0] == "switch":
                    for _, b in st[2]:
                        walk(b)
        for nm, body in states:
            enc.setdefault(nm, len(enc))
            walk(body)
        # every referenced state must be defined: all names are defined here
        ne = len(enc)
        w = 1 if ne <= 1 else (ne - 1).bit_length()
        first = states[0][0]
        st_idx = len(self.shapes)
        self.shapes.append([w, False]); self.inits.append(enc[init if init is not None else first]); self.rl.append(False)
        og = {}
        for nm in order:
            og[nm] = len(self.shapes)
            self.shapes.append([1, False]); self.inits.append(0); self.rl.append(False)
        return ["fsm", {"init": init, "pre": pre, "states": states, "enc": enc, "w": w, "st": st_idx, "og": og}]

    def stmts(self, d, n=None):
        r = self.rng
        out = []
        for _ in range(n if n is not None else r.randrange(0, 4)):
            c = r.random()
            if d <= 0 or c < 0.5:
                a = self.assign()
                if a:
                    out.append(a)
            elif c < 0.78:
                brs = [[self.cond(), self.stmts(d - 1)] for _ in range(r.randrange(1, 4))]
                has_else = r.random() < 0.5
                out.append(["if", brs, has_else, self.stmts(d - 1) if has_else else []])
            else:
                test = self.cond()
                w, sg = G.pyshape(test, self.shapes)
                if w > 3:
                    test = ["sl", test, 0, 3]
                    w, sg = 3, False
                cases = []
                for _ in range(r.randrange(1, 5)):
                    q = r.random()
                    if q < 0.15:
                        pats = None       # Default
                    else:
                        pats = []
                        for _ in range(r.randrange(0, 3)):
                            if r.random() < 0.5:
                                lo = -(1 << w) if True else 0
                                pats.append(r.randrange(-(1 << w) - 1, (1 << w) + 2))
                            else:
                                p = "".join(r.choice("01-") for _ in range(w))
                                if w >= 2 and r.random() < 0.3:
                                    p = p[:1] + " " + p[1:]
                                pats.append(p)
                    cases.append([pats, self.stmts(d - 1)])
                out.append(["switch", test, cases])
        return out


def project(stmts, dom, shapes, fsm=None):
    """the per-domain program the model sees; patterns normalised; FSMs become a Switch on the state register,
    m.next an assignment of the encoding (in the FSM's domain: sync), ongoing() signals top-level comb compares"""
    out = []
    for s in stmts:
        if s[0] == "fsm":
            f = s[1]
            cases = [[[G._binpat(f["w"], f["enc"][nm])], project(body, dom, shapes, f)] for nm, body in f["states"]]
            out.append(["switch", ["s", f["st"]], cases])
            if dom == "comb":
                for nm, k in f["enc"].items():
                    out.append(["as", ["s", f["og"][nm]], ["o2", "==", ["s", f["st"]],
                                                           ["c", k, max(1, k.bit_length()), False]]])
            continue
        if s[0] == "next":
            if dom == "sync":
                k = fsm["enc"][s[1]]
                out.append(["as", ["s", fsm["st"]], ["c", k, max(1, k.bit_length()), False]])
            continue
        if s[0] == "as":
            if s[1] == dom:
                out.append(["as", s[2], s[3]])
        elif s[0] == "if":
            out.append(["if", [[c, project(b, dom, shapes, fsm)] for c, b in s[1]], s[2], project(s[3], dom, shapes, fsm)])
        elif s[0] == "switch":
            w, sg = G.pyshape(s[1], shapes)
            out.append(["switch", s[1], [[None if p is None else norm_patterns(p, w, sg), project(b, dom, shapes, fsm)]
                                         for p, b in s[2]]])
    return out


def coq_dstmts(stmts, shapes):
    return "[" + "; ".join(coq_dstmt(s, shapes) for s in stmts) + "]"


def coq_dstmt(s, shapes):
    if s[0] == "as":
        return f"(DAssign {G.coq_expr(s[1], shapes)} {G.coq_expr(s[2], shapes)})"
    if s[0] == "if":
        brs = "[" + "; ".join(f"({G.coq_expr(c, shapes)}, {coq_dstmts(b, shapes)})" for c, b in s[1]) + "]"
        return f"(DIf {brs} {blit(s[2])} {coq_dstmts(s[3], shapes)})"
    if s[0] == "switch":
        cs = []
        for ps, b in s[2]:
            pp = "None" if ps is None else "(Some [" + "; ".join(G.coq_pattern(p) for p in ps) + "])"
            cs.append(f"({pp}, {coq_dstmts(b, shapes)})")
        return f"(DSwitch {G.coq_expr(s[1], shapes)} [" + "; ".join(cs) + "])"
    raise ValueError(s[0])


def gen_events(rng, pg, n):
    evs = []
    for _ in range(n):
        c = rng.random()
        if c < 0.5 and pg.inputs:
            i = rng.choice(pg.inputs)
            evs.append(["set", i, G.rand_value(rng, *pg.shapes[i])])
        elif c < 0.9 and pg.syncs:
            evs.append(["tick"])
        elif pg.syncs:
            evs.append(["set", pg.rst, rng.randrange(2)])
        elif pg.inputs:
            i = rng.choice(pg.inputs)
            evs.append(["set", i, G.rand_value(rng, *pg.shapes[i])])
    return evs


def gen_cases(tier, seed):
    rng = random.Random(seed + 2)
    thorough = tier == "thorough"
    cases = []
    N = 700 if not thorough else 12000
    for i in range(N):
        pg = PGen(rng, rng.randrange(1, 4), rng.randrange(0, 3), rng.randrange(0, 3))
        if not pg.combs and not pg.syncs:
            continue
        prog = pg.stmts(rng.randrange(1, 4), n=rng.randrange(1, 5))
        has_fsm = bool(pg.syncs) and rng.random() < 0.4
        if has_fsm:
            prog.insert(rng.randrange(0, len(prog) + 1), pg.add_fsm())
        evs = gen_events(rng, pg, rng.randrange(12, 25))
        base = {"shapes": pg.shapes, "inits": pg.inits, "rl": pg.rl, "prog": prog, "evs": evs,
                "nsig": len(pg.shapes), "rst": pg.rst, "has_sync": bool(pg.syncs)}
        cases.append(dict(base, k="dsl", shape="fsm" if has_fsm else "rnd"))
        if i % 3 == 0 and not has_fsm:
            cases.append(dict(base, k="stmts", shape="rnd"))
        if pg.combs and i % 2 == 0 and not has_fsm:
            cases.append(dict(base, k="combspec", shape="rnd", driven=pg.combs,
                              evs=[e for e in evs if e[0] == "set" and e[1] != pg.rst]))
    # exhaustive small family: two assignments to two 2-bit comb signals under one 1-bit condition
    shapes = [[1, False], [2, False], [2, False], [2, False], [1, False]]     # c, x | a, b | rst
    tg = [["s", 2], ["s", 3], ["sl", ["s", 2], 0, 1], ["sl", ["s", 3], 1, 2], ["cat", [["s", 2], ["s", 3]]],
          ["pt", ["s", 2], ["s", 0], 1, 1]]
    rhs = [["s", 1], ["c", 2, 2, False], ["o1", "~", ["s", 1]]]
    evs = [["set", 0, c] for c in (0, 1)] + [["set", 1, v] for v in range(4)] + [["set", 0, 0]] + [["set", 1, 1]]
    for t1 in tg:
        for t2 in tg:
            for r1 in rhs:
                for wrap in ("plain", "if", "ifelse"):
                    a1, a2 = ["as", "comb", t1, r1], ["as", "comb", t2, ["s", 1]]
                    if wrap == "plain":
                        prog = [a1, a2]
                    elif wrap == "if":
                        prog = [a1, ["if", [[["s", 0], [a2]]], False, []]]
                    else:
                        prog = [["if", [[["s", 0], [a1]]], True, [a2]]]
                    base = {"shapes": shapes, "inits": [0, 0, 1, 2, 0], "rl": [False] * 5, "prog": prog, "evs": evs,
                            "nsig": 5, "rst": 4, "has_sync": False}
                    cases.append(dict(base, k="dsl", shape="ex"))
                    cases.append(dict(base, k="combspec", shape="ex", driven=[2, 3]))
    # aliased targets (a signal named twice inside one target): specification = addressed bits (what the netlist and
    # testbench writes do); the simulator's read-modify-write code writes the stale alias back (known finding F9)
    sh = [[1, False], [2, False], [2, False], [1, False]]        # x | a, b | rst
    ev2 = [["set", 0, 1], ["set", 0, 0], ["set", 0, 1]]
    alias_targets = [["sl", ["cat", [["s", 1], ["sl", ["s", 1], 0, 1]]], 0, 1],
                     ["sl", ["cat", [["sl", ["s", 1], 0, 1], ["s", 1]]], 0, 1],
                     ["pt", ["cat", [["s", 1], ["s", 2], ["s", 1]]], ["c", 0, 1, False], 1, 1]]
    for t in alias_targets:
        base = {"shapes": sh, "inits": [0, 0, 0, 0], "rl": [False] * 4, "prog": [["as", "comb", t, ["s", 0]]],
                "evs": ev2, "nsig": 4, "rst": 3, "has_sync": False}
        cases.append(dict(base, k="aliasspec", shape="alias", driven=[1, 2]))
    return cases


def known_finding(c, obs, model):
    if c["k"] == "aliasspec":
        return "F9-rtl-lhs-alias-rmw"
    return None


def build_module(c):
    from amaranth.hdl import Signal, Shape, Module, ClockDomain
    shapes = c["shapes"]
    sigs = [Signal(Shape(w, bool(s)), name=f"x{k}", init=c["inits"][k], reset_less=bool(c["rl"][k]))
            for k, (w, s) in enumerate(shapes[:c["rst"]])]
    m = Module()
    cd = ClockDomain("sync")
    m.domains.sync = cd
    nbase = c["rst"]
    sigs = sigs[:nbase] + [cd.rst] + [None] * (len(shapes) - nbase - 1)

    def emit(stmts):
        for s in stmts:
            if s[0] == "fsm":
                f = s[1]
                kw = {} if f["init"] is None else {"init": f["init"]}
                with m.FSM(domain="sync", **kw) as fsm:
                    early = {nm: fsm.ongoing(nm) for nm in f["pre"]}
                    for nm, body in f["states"]:
                        with m.State(nm):
                            emit(body)
                sigs[f["st"]] = fsm.state
                for nm, k in f["og"].items():
                    # ongoing() requested before the state is defined must be the signal the FSM drives: observe the
                    # early handle, and require the late one to be the same object
                    sigs[k] = early.get(nm, fsm.ongoing(nm))
                    if fsm.ongoing(nm) is not sigs[k]:
                        raise AssertionError("ongoing() returned two different signals for one state")
            elif s[0] == "next":
                m.next = s[1]
            elif s[0] == "as":
                m.d[s[1]] += G.build(s[2], sigs).eq(G.build(s[3], sigs))
            elif s[0] == "if":
                for k, (cnd, body) in enumerate(s[1]):
                    ctx = m.If(G.build(cnd, sigs)) if k == 0 else m.Elif(G.build(cnd, sigs))
                    with ctx:
                        emit(body)
                if s[2]:
                    with m.Else():
                        emit(s[3])
            elif s[0] == "switch":
                with m.Switch(G.build(s[1], sigs)):
                    for pats, body in s[2]:
                        if pats is None:
                            with m.Default():
                                emit(body)
                        else:
                            with m.Case(*pats):
                                emit(body)
    emit(c["prog"])
    return m, sigs, cd


def run_impl(c):
    from amaranth.hdl import Fragment
    from amaranth.sim import Simulator
    try:
        m, sigs, cd = build_module(c)
    except Exception as ex:
        if type(ex).__name__ in ("TypeError", "ValueError", "IndexError", "SyntaxError"):
            return [0]
        return [-1, sum(map(ord, type(ex).__name__))]
    try:
        out = [1]
        read = sigs if c["k"] not in ("combspec", "aliasspec") else [sigs[i] for i in c["driven"]]
        sim = Simulator(m)

        async def tb(ctx):
            out.extend(ctx.get(s) for s in read)
            for ev in c["evs"]:
                if ev[0] == "set":
                    ctx.set(sigs[ev[1]], ev[2])
                else:
                    ctx.set(cd.clk, 1)
                    ctx.set(cd.clk, 0)
                out.extend(ctx.get(s) for s in read)
        sim.add_testbench(tb)
        sim.run()
        return out
    except Exception as ex:
        return [-1, sum(map(ord, type(ex).__name__))]


def coq_events(evs):
    return "[" + "; ".join(f"EvSet {e[1]} {z(e[2])}" if e[0] == "set" else "EvTick" for e in evs) + "]"


def coq_sigs(c):
    return "[" + "; ".join(f"SD {z(w)} {blit(s)} {z(c['inits'][k])} {blit(c['rl'][k])}"
                           for k, (w, s) in enumerate(c["shapes"])) + "]"


def coq_term(c):
    shapes = c["shapes"]
    rst = f"(Some {c['rst']}%nat)" if c["has_sync"] else "None"
    if c["k"] == "dsl":
        comb = coq_dstmts(project(c["prog"], "comb", shapes), shapes)
        sync = coq_dstmts(project(c["prog"], "sync", shapes), shapes)
        return f"k_dsl {coq_sigs(c)} {comb} {sync} {rst} {coq_events(c['evs'])}"
    if c["k"] in ("combspec", "aliasspec"):
        comb = coq_dstmts(project(c["prog"], "comb", shapes), shapes)
        drv = "[" + "; ".join(f"{i}%nat" for i in c["driven"]) + "]"
        fn = "k_comb_spec" if c["k"] == "combspec" else "k_comb_spec_alias"
        return f"{fn} {coq_sigs(c)} {comb} {drv} {coq_events(c['evs'])}"
    if c["k"] == "stmts":
        # statements as lowered by the REAL Module, serialised from the elaborated fragment
        import astser
        from amaranth.hdl import Fragment
        m, sigs, cd = build_module(c)
        frag = Fragment.get(m, None)
        sm = astser.SigMap(sigs)
        doms = {d: astser.ser_stmts(st, sm) for d, st in frag.statements.items()}
        if len(sm.signals) != len(sigs):
            raise ValueError("unexpected extra signal in elaborated fragment")
        comb = astser.coq_stmts(doms.get("comb", []), shapes)
        sync = astser.coq_stmts(doms.get("sync", []), shapes)
        return f"k_stmts {coq_sigs(c)} {comb} {sync} {rst} {coq_events(c['evs'])}"
    raise ValueError(c["k"])


def explain(c):
    return ("answers: [1] then, initially and after every event (set of an input / reset, or a clock tick), the values of all "
            "signals (k=dsl, k=stmts) or of the comb-driven signals (k=combspec: per-bit last-active-assignment-wins over init)")

"""C07 — every emitted RTLIL document is structurally well-formed.

Translation validation: every document `rtlil.convert` emits for a generated design is read by the strict reader
harness/rtlil_parse.py, turned into a `Rtlil.doc` term and judged inside Coq by `vm_compute (wf_doc ex d)`, where
`wf_doc` is proved sound and complete for the declarative `WellFormed` (coq/Props/C07.v).  `ex` describes the
foreign instances of the design as the design gave them (type, parameters, attributes, port names/directions/widths
and — where it can be predicted — the connected bits).  A negative corpus of corrupted documents shows that the
validator is not vacuous, and the name de-duplication step `_ir._add_name` is compared with its model.
"""
import copy, json, os, random, sys, traceback

sys.path.insert(0, os.path.dirname(os.path.dirname(os.path.abspath(__file__))))
from common import z, zlist, blit
import rtlil_parse

ID = "C07"
LEVEL = "translation_validation"
PROPS_FILE = "C07.v"
RUN_MODULE = "RunC07"
TRANSLATOR_UNITS = ["rtlil"]
SHARD = 20
RULE = ("designs from a seeded generator: module trees of depth <= 3 (some modules empty), 3-10 signals whose names are drawn "
        "from a small pool so that they clash with each other, with port names and with submodule names (private '' names and, "
        "at a low rate, '$'-suffixed names that collide with generated ones (the retry loop of _add_name) included), widths 0-8, every signal owned by one "
        "(module, domain) and used in other modules (routed through intermediate modules), partial (sliced) targets, all operators, "
        "If/Switch, Print/Assert, several clock domains (negedge, async reset, reset-less, local), foreign instances with "
        "i/o/io ports, parameters and attributes (plain ints of any size and sign incl. every +-2^k(+-1) boundary around 31/32/33/40/64 "
        "bits, bool, int-valued Python/amaranth enum members, Const of any shape, str with escapes, float), each compared with the "
        "text both as the constant _const must write (Rtlil.emit_xval) and numerically (decoded, in Coq and in Python), I/O buffers on IOPorts, "
        "lib.memory.Memory with sync/comb read ports and write ports (width 0 and depth 0 included); names at every naming site "
        "(signals, ports, submodules, instance types / ports / parameters / attributes, memories, IOPorts, domains) drawn also from "
        "x.y a[0] a#b a\"b a\\b and non-ASCII, and at 3 % of the designs from names containing whitespace; struct / array / enum shaped "
        "signals (one wire per field) with field names that clash with signal names; AnyConst / AnySeq / Initial, ClockSignal / "
        "ResetSignal leaves; zero-width IOPorts (5 %); half of the designs with emit_src left at its default; only designs "
        "rejected with DriverConflict / CombinationalCycle / DomainError are skipped (counted), any other exception is a case; "
        "plus a fixed list of hand-written designs (every naming site x odd / whitespace names, field-wire clashes, x.y vs x/y). Every emitted "
        "document is validated by wf_doc. Negative corpus: hand-corrupted texts and single-point corruptions of emitted documents "
        "(dangling wire, width mismatch incl. a process assignment widened in the emitted text, double driver, undriven wire, driven input, missing/extra port, duplicate name, sparse port "
        "index, unknown module, wrong instance parameter) that wf_doc must reject. _add_name sequences: exhaustive over a 4-name "
        "alphabet up to length 4 + random. non-trivial = the document has >= 1 cell or process and >= 2 wires (design), any corrupted "
        "document, any name sequence with a repeated name; distinct by case hash")
MODELLED = ("Coq proves the validator (wf_doc sound and complete for WellFormed), not the emitter: the universal quantifier over "
            "designs is explored by the generator, not proved. The RTLIL reader (harness/rtlil_parse.py), the translation of its AST "
            "to a Coq term, the prediction of instance connections (signal names taken from Design.fragments[..].signal_names and "
            "resolved through the module's `connect` aliases) are trusted glue. _const()/_signed() of back/rtlil.py for parameter and attribute values is modelled (Rtlil.emit_int/emit_xval; "
            "proved: decoding gives back the integer, for all integers) and compared through the instance clause; "
            "_add_name/_assign_names' loop is modelled "
            "(Rtlil.add_name/assign_names) and compared on name sequences")
ASSUMPTIONS = ["RTLIL text is read by harness/rtlil_parse.py (trusted); clause 'parses under the grammar' = this reader accepts",
               "cell port tables of the `$` cell types follow back/rtlil.py and the Yosys cell library (Rtlil.prim_iface)",
               "port indices dense from 0 as the emitter writes them (Yosys renumbers ports on reading)"]
TRUSTED_EXTRA = ["harness/rtlil_parse.py strict RTLIL reader and the AST -> Gallina term printer in harness/props/c07.py"]

EXC = {"AssertionError": 1, "DriverConflict": 2, "SyntaxError": 3, "TypeError": 4, "ValueError": 5, "NameError": 6,
       "CombinationalCycle": 7, "DomainError": 8, "DuplicateElaboratable": 9, "NotImplementedError": 10,
       "AttributeError": 11, "KeyError": 12, "IndexError": 13, "OverflowError": 14, "RtlilSyntaxError": 15}

STATS = {"programs": 0, "rejected": 0, "neg": 0, "convert_failed": 0, "samples": []}


# =================================================================== building real designs from a description
NAME_POOL = ["a", "a", "a", "b", "b", "o", "clk", "rst", "sub", "sub", "inst", "mem", "x", "", "", "top", "U",
             "x.y", "a[0]", "a#b", 'a"b', "a\\b", "\u00e9", "a.f"]
ODD_NAMES = ["x.y", "a[0]", "a#b", 'a"b', "a\\b", "\u00e9", "x", "y"]        # legal identifiers that need no escaping in RTLIL
WS_POOL = ["a b", "a\tb", "a\nb", " a", "b ", "a\rb"]                         # whitespace: the emitted text does not parse
FIELD_NAMES = ["f", "g", "a", "e", "x.y", "f[0]"]
DOLLAR_POOL = ["port$1$0", "port$2$0", "U$0", "a$1", "a$2", "a$3", "a$4", "a$5", "b$2", "b$3", "sub$2", "sub$3", "o$3", "o$4"]
UNARY = ["~", "-", "b", "r|", "r&", "r^", "abs"]
BINARY = ["+", "-", "*", "//", "%", "<<", ">>", "&", "|", "^", "==", "!=", "<", "<=", ">", ">=", "rol"]


class Built:
    pass


def lay_width(l):
    k = l[0]
    if k in ("u", "s", "enum"):
        return l[1]
    if k == "struct":
        return sum(lay_width(x) for _n, x in l[1])
    if k == "array":
        return lay_width(l[1]) * l[2]
    raise ValueError(l)


def field_wire_names(name, l):
    """names of the wires back/rtlil.py emit_signal_fields declares for a signal of this layout (without the root)"""
    out = []
    if l[0] == "struct":
        for fn, sub in l[1]:
            out.append(f"{name}.{fn}")
            out += field_wire_names(f"{name}.{fn}", sub)
    elif l[0] == "array":
        for i in range(l[2]):
            out.append(f"{name}[{i}]")
            out += field_wire_names(f"{name}[{i}]", l[1])
    return out


def mk_layout(l):
    from amaranth.hdl import signed, unsigned
    from amaranth.lib import data, enum as amenum
    k = l[0]
    if k == "u":
        return unsigned(l[1])
    if k == "s":
        return signed(l[1])
    if k == "struct":
        return data.StructLayout({fn: mk_layout(sub) for fn, sub in l[1]})
    if k == "array":
        return data.ArrayLayout(mk_layout(l[1]), l[2])
    if k == "enum":
        members = {f"M{j}": j for j in range(min(l[2], 1 << l[1]))} or {"M0": 0}
        return _mk_enum(l[1], members)
    raise ValueError(l)


def _mk_enum(w, members):
    from amaranth.hdl import unsigned
    from amaranth.lib import enum as amenum
    ns = amenum.EnumType.__prepare__("E", (amenum.Enum,), shape=unsigned(w))
    for kname, v in members.items():
        ns[kname] = v
    return amenum.EnumType("E", (amenum.Enum,), ns, shape=unsigned(w))


def build(D):
    """description -> (top Module, ports argument, Built info with the real objects)."""
    from amaranth.hdl import (Module, Signal, Const, Cat, Mux, IOPort, Instance, IOBufferInstance, ClockDomain, signed, unsigned,
                              Print, Assert, Format, ClockSignal, ResetSignal, Array)
    from amaranth.hdl._ast import AnyConst, AnySeq, Initial
    from amaranth.hdl._ir import PortDirection
    from amaranth.lib.memory import Memory
    B = Built()
    B.sigs = []
    for s in D["sigs"]:
        if s.get("lay") is not None:
            assert lay_width(s["lay"]) == s["w"], s
            v = Signal(mk_layout(s["lay"]), name=s["n"])
            B.sigs.append(v if isinstance(v, Signal) else v.as_value())
        else:
            B.sigs.append(Signal(signed(s["w"]) if s["s"] else unsigned(s["w"]), name=s["n"], init=s.get("i", 0)))
    B.ios = [IOPort(p["w"], name=p["n"]) for p in D["ios"]]
    B.mods = []
    B.insts = {}       # (module index, item index) -> Instance
    B.mems = {}        # memory key -> (Memory, [read ports], [write ports])

    def ex(e):
        k = e[0]
        if k == "s":
            return B.sigs[e[1]]
        if k == "c":
            return Const(e[1], signed(e[2]) if e[3] else unsigned(e[2]))
        if k == "sl":
            return ex(e[1])[e[2]:e[3]]
        if k == "cat":
            return Cat(*[ex(x) for x in e[1]])
        if k == "mux":
            return Mux(ex(e[1]), ex(e[2]), ex(e[3]))
        if k == "u":
            v = ex(e[2])
            op = e[1]
            return {"~": lambda: ~v, "-": lambda: -v, "b": lambda: v.bool(), "r|": lambda: v.any(), "r&": lambda: v.all(),
                    "r^": lambda: v.xor(), "abs": lambda: abs(v)}[op]()
        if k == "b":
            a, b = ex(e[2]), ex(e[3])
            op = e[1]
            if op in ("<<", ">>"):
                b = b.as_unsigned()[:3]
            if op == "rol":
                return a.rotate_left(1) if len(a) else a
            return {"+": lambda: a + b, "-": lambda: a - b, "*": lambda: a * b, "//": lambda: a // b, "%": lambda: a % b,
                    "<<": lambda: a << b, ">>": lambda: a >> b, "&": lambda: a & b, "|": lambda: a | b, "^": lambda: a ^ b,
                    "==": lambda: a == b, "!=": lambda: a != b, "<": lambda: a < b, "<=": lambda: a <= b, ">": lambda: a > b,
                    ">=": lambda: a >= b}[op]()
        if k == "part":
            v, off = ex(e[1]), ex(e[2]).as_unsigned()
            return v.bit_select(off, e[3]) if e[4] == "bit" else v.word_select(off, e[3])
        if k == "arr":
            return Array([ex(x) for x in e[1]])[ex(e[2])]
        if k == "as_s":
            return ex(e[1]).as_signed()
        if k == "as_u":
            return ex(e[1]).as_unsigned()
        if k == "mr":
            return B.mems[e[1]][1][e[2]].data
        if k == "any":
            return AnyConst(e[2]) if e[1] == "const" else AnySeq(e[2])
        if k == "init":
            return Initial()
        if k == "clk":
            return ClockSignal(e[1])
        if k == "rstsig":
            return ResetSignal(e[1])
        raise ValueError(e)

    def ioex(e):
        if e[0] == "io":
            return B.ios[e[1]]
        if e[0] == "iosl":
            return B.ios[e[1]][e[2]:e[3]]
        raise ValueError(e)

    def stmts(m, dom, sts):
        for st in sts:
            k = st[0]
            if k == "eq":
                m.d[dom] += ex(st[1]).eq(ex(st[2]))
            elif k == "if":
                with m.If(ex(st[1])):
                    stmts(m, dom, st[2])
                if st[3] is not None:
                    with m.Else():
                        stmts(m, dom, st[3])
            elif k == "sw":
                with m.Switch(ex(st[1])):
                    for pats, body in st[2]:
                        with m.Case(*pats):
                            stmts(m, dom, body)
                    if st[3] is not None:
                        with m.Default():
                            stmts(m, dom, st[3])
            elif k == "print":
                m.d[dom] += Print(Format("v={} {:x}", ex(st[1]), ex(st[1])))
            elif k == "assert":
                m.d[dom] += Assert(ex(st[1]).bool())
            else:
                raise ValueError(st)

    def pvalue(v):
        if v[0] == "const":
            return Const(v[1], signed(v[2]) if v[3] else unsigned(v[2]))
        if v[0] == "float":
            return float(v[1])
        if v[0] == "bool":
            return bool(v[1])
        if v[0] == "enum":
            return _enum_member(v[1], v[2])
        return v[1]          # int / str

    for mi, md in enumerate(D["mods"]):
        m = Module()
        B.mods.append(m)
        for dn, edge, arst, rless, local in md.get("doms", []):
            m.domains += ClockDomain(dn, clk_edge=edge, async_reset=arst, reset_less=rless, local=local)
    # memories must exist before statements mention their ports
    for mi, md in enumerate(D["mods"]):
        for ii, it in enumerate(md["items"]):
            if it[0] == "mem":
                q = it[1]
                mem = Memory(shape=q["w"], depth=q["d"], init=q["init"])
                rps = []
                wps = [mem.write_port(domain=dom) for dom in q["wr"]]
                for dom, transp in q["rd"]:
                    rps.append(mem.read_port(domain=dom, transparent_for=[wps[t] for t in transp]))
                B.mems[q["key"]] = (mem, rps, wps)
    for mi, md in enumerate(D["mods"]):
        m = B.mods[mi]
        for dom, sts in md["st"]:
            stmts(m, dom, sts)
        for ii, it in enumerate(md["items"]):
            k = it[0]
            if k == "mod":
                child = B.mods[it[1]]
                obj = child
            elif k == "inst":
                q = it[1]
                args = []
                for kind, name, v in q["args"]:
                    if kind in ("p", "a"):
                        args.append((kind, name, pvalue(v)))
                    elif kind == "io":
                        args.append((kind, name, ioex(v)))
                    else:
                        args.append((kind, name, ex(v)))
                obj = Instance(q["type"], *args)
                B.insts[(mi, ii)] = obj
            elif k == "buf":
                q = it[1]
                kw = {}
                if q["i"] is not None:
                    kw["i"] = ex(q["i"])
                if q["o"] is not None:
                    kw["o"] = ex(q["o"])
                    if q["oe"] is not None:
                        kw["oe"] = ex(q["oe"])
                obj = IOBufferInstance(ioex(q["port"]), **kw)
            elif k == "mem":
                q = it[1]
                mem, rps, wps = B.mems[q["key"]]
                for j, (a, en) in enumerate(q["rdc"]):
                    m.d.comb += rps[j].addr.eq(ex(a))
                    if q["rd"][j][0] != "comb":
                        m.d.comb += rps[j].en.eq(ex(en))
                for j, (a, dat, en) in enumerate(q["wrc"]):
                    m.d.comb += [wps[j].addr.eq(ex(a)), wps[j].data.eq(ex(dat)), wps[j].en.eq(ex(en))]
                obj = mem
            else:
                raise ValueError(it)
            name = it[2]
            if name is None:
                m.submodules += obj
            else:
                m.submodules[name] = obj
    dirs = {"i": PortDirection.Input, "o": PortDirection.Output, "io": PortDirection.Inout, None: None}
    ports = []
    plain = True
    for kind, idx, pname, d in D["ports"]:
        obj = B.sigs[idx] if kind == "s" else B.ios[idx]
        if pname is None and d is None:
            ports.append(obj)
        else:
            ports.append((pname, obj, dirs[d]))
    return B.mods[0], ports, B


def _enum_member(kind, n):
    """an int-valued enumeration member with value n: Python IntEnum / IntFlag, amaranth.lib.enum.IntEnum / IntFlag"""
    import enum as pyenum
    from amaranth.lib import enum as amenum
    from amaranth.hdl import signed, unsigned
    if kind == "py":
        return pyenum.IntEnum("E", {"A": n, "B": n + 1}).A
    if kind == "pyflag":
        return pyenum.IntFlag("F", {"A": n}).A
    w = max(1, n.bit_length() if n >= 0 else (~n).bit_length() + 1)
    if kind == "am":
        class E(amenum.IntEnum, shape=(signed(w + 1))):
            A = n
        return E.A
    class G(amenum.IntFlag, shape=unsigned(w)):
        A = n
    return G.A


def convert(D):
    """-> (text, Built) using the public entry point."""
    from amaranth.back import rtlil
    top, ports, B = build(D)
    if D.get("src"):
        text = rtlil.convert(top, ports=ports)          # default: emit_src=True
    else:
        text = rtlil.convert(top, ports=ports, emit_src=False)
    return text, B


def exc_code(e):
    return EXC.get(type(e).__name__, 99)


# =================================================================== expectations for foreign instances
def _walk_items(D, design, frag, mi, out):
    """Walk the elaborated fragment tree in step with the description: named children first, then anonymous."""
    md = D["mods"][mi]
    order = [i for i, it in enumerate(md["items"]) if it[2] is not None] + \
            [i for i, it in enumerate(md["items"]) if it[2] is None]
    # a name used twice in m.submodules[...] is rejected at build time, so positions line up
    subs = frag.subfragments
    assert len(subs) == len(order), (len(subs), len(order))
    for (sub, _n, _s), ii in zip(subs, order):
        it = md["items"][ii]
        if it[0] == "mod":
            _walk_items(D, design, sub, it[1], out)
        elif it[0] == "inst":
            out.append((mi, ii, frag, sub))


class DocView:
    """bit-level helpers over one parsed module (python side, used only to predict instance connections)"""

    def __init__(self, mod, io_wires=()):
        self.mod = mod
        self.width = {w["name"]: w["width"] for w in mod["wires"]}
        self.alias = {}
        io_wires = set(io_wires)
        for lhs, rhs in mod["connects"]:
            lb, rb = self.bits(lhs), self.bits(rhs)
            if len(lb) == len(rb):
                for l, r in zip(lb, rb):
                    # `connect \\sig <canonical bits>` written for a signal that is not the canonical wire of its
                    # nets; connections from/to I/O port wires (I/O buffers) are not aliases
                    if l[0] == "w" and (l[1] in io_wires or l[1].startswith("\\ioport$")):
                        continue
                    if r[0] == "w" and (r[1] in io_wires or r[1].startswith("\\ioport$")):
                        continue
                    self.alias.setdefault(l, r)

    def bits(self, sig):
        out = []
        for ch in rtlil_parse.flatten(sig):
            if ch[0] == "const":
                c = ch[1]
                s = c[1] if c[0] == "bits" else format(c[1], "032b")
                out += [("c", d) for d in reversed(s)]
            elif ch[0] == "wire":
                out += [("w", ch[1], i) for i in range(self.width.get(ch[1], 0))]
            else:
                out += [("w", ch[1], i) for i in range(ch[3], ch[2] + 1)]
        return out

    def resolve(self, b):
        return self.alias.get(b, b)


def expectations(D, B, doc):
    """list of fspec dicts for the foreign instances of the design"""
    from amaranth.hdl import _ir, _ast
    from amaranth.hdl._ir import Fragment
    if not B.insts:
        return []
    top, ports, B2 = build(D)          # a second, fresh elaboration: only names are read from it
    design = Fragment.get(top, None).prepare(ports=ports, hierarchy=("top",))
    found = []
    _walk_items(D, design, design.fragment, 0, found)
    mods = {m["name"]: m for m in doc["modules"]}
    out = []
    for mi, ii, pfrag, ifrag in found:
        q = D["mods"][mi]["items"][ii][1]
        info = design.fragments[ifrag]
        pinfo = design.fragments[pfrag]
        modname = "\\" + ".".join(info.name[:-1])
        view = DocView(mods[modname], ["\\" + n for n in pinfo.io_port_names.values()]) if modname in mods else None
        # signal objects of the second build correspond by index
        sigidx = {id(s): k for k, s in enumerate(B2.sigs)}
        names = {}
        for s, n in pinfo.signal_names.items():
            if id(s) in sigidx:
                names[sigidx[id(s)]] = n
        ionames = {}
        for p, n in pinfo.io_port_names.items():
            for k, p2 in enumerate(B2.ios):
                if p is p2:
                    ionames[k] = n

        def bits(e):
            """predicted bits of a port expression, or None"""
            if view is None:
                return None
            k = e[0]
            if k == "s":
                w = D["sigs"][e[1]]["w"]
                if e[1] not in names:
                    return None
                wn = "\\" + names[e[1]]
                if view.width.get(wn) != w:
                    return None
                return [view.resolve(("w", wn, i)) for i in range(w)]
            if k == "c":
                v = e[1] & ((1 << e[2]) - 1)
                return [("c", str((v >> i) & 1)) for i in range(e[2])]
            if k == "sl":
                b = bits(e[1])
                return None if b is None else b[e[2]:e[3]]
            if k == "cat":
                acc = []
                for x in e[1]:
                    b = bits(x)
                    if b is None:
                        return None
                    acc += b
                return acc
            if k == "io":
                w = D["ios"][e[1]]["w"]
                if e[1] not in ionames:
                    return None
                wn = "\\" + ionames[e[1]]
                if view.width.get(wn) != w:
                    return None
                return [("w", wn, i) for i in range(w)]
            if k == "iosl":
                b = bits(["io", e[1]])
                return None if b is None else b[e[2]:e[3]]
            return None

        params, attrs, fports = [], [], []
        for kind, name, v in q["args"]:
            if kind == "p":
                params.append(_param_json(name, v))
            elif kind == "a":
                attrs.append(_attr_json(name, v))
            else:
                real = B.insts[(mi, ii)].ports[name][0]
                fports.append({"name": "\\" + name, "dir": {"i": "input", "o": "output", "io": "inout"}[kind],
                               "width": len(real), "bits": bits(v)})
        if D.get("src") and not any(a[0] == "\\src" for a in attrs):
            # emit_src (the default): the cell carries the place where the Instance object was created
            loc = B.insts[(mi, ii)].src_loc
            if loc is not None:
                attrs.insert(0, ["\\src", ["str", f"{loc[0]}:{loc[1]}"]])
        out.append({"module": modname, "cell": "\\" + info.name[-1], "type": "\\" + q["type"],
                    "params": params, "attrs": attrs, "ports": fports})
    return out


def _xval(v):
    """the Python value of a parameter / attribute as the design gave it (independent of the emitter):
    ["int", n] | ["const", v, w, signed] | ["str", s] | ["float", repr]"""
    if v[0] in ("int", "enum"):
        return ["int", int(v[-1])]
    if v[0] == "bool":
        return ["int", int(bool(v[1]))]
    if v[0] == "const":
        return ["const", v[1], v[2], bool(v[3])]
    if v[0] == "float":
        return ["float", repr(float(v[1]))]
    return ["str", v[1]]


def _param_json(name, v):
    return ["\\" + name, _xval(v)]


def _attr_json(name, v):
    return ["\\" + name, _xval(v)]


def xval_number(x):
    """the integer a given value means (Const: its normalised value), None for str / float"""
    if x[0] == "int":
        return x[1]
    if x[0] == "const":
        v, w, sg = x[1], x[2], x[3]
        u = v & ((1 << w) - 1)
        return u - (1 << w) if sg and w and (u >> (w - 1)) else u
    return None


def numeric_disagreements(doc, ex):
    """python-side numeric comparison (second path next to the one inside Coq): every instance parameter / attribute
    constant of the text is decoded (two's complement of the written width when marked signed; attributes have no
    marker and are read with the sign of the given value) and compared with the value given in Python"""
    bad = []
    mods = {m["name"]: m for m in doc["modules"]}
    for f in ex:
        m = mods.get(f["module"])
        cell = next((c for c in (m["cells"] if m else []) if c["name"] == f["cell"]), None)
        if cell is None:
            bad.append((f["cell"], "missing"))
            continue
        got_p = {n: (fl, c) for n, fl, c in cell["parameters"]}
        got_a = {n: c for n, c in cell["attributes"]}
        for n, x in f["params"]:
            want = xval_number(x)
            if want is None:
                want_c = ["str", x[1]]
                if x[0] == "float":
                    # the written literal, read back as a float, is the given float (x[1] = repr of the given value)
                    ok = n in got_p and got_p[n][0] == "real" and got_p[n][1][0] == "str"
                    try:
                        ok = ok and float(got_p[n][1][1]) == float(x[1])
                    except ValueError:
                        ok = False
                    if not ok:
                        bad.append((n, x, got_p.get(n)))
                elif n not in got_p or got_p[n][1] != want_c or got_p[n][0] == "real":
                    bad.append((n, x, got_p.get(n)))
                continue
            if n not in got_p or rtlil_parse.const_value(got_p[n][1], got_p[n][0] == "signed") != want:
                bad.append((n, x, got_p.get(n)))
        for n, x in f["attrs"]:
            want = xval_number(x)
            if want is None:
                if got_a.get(n) != ["str", x[1]]:
                    bad.append((n, x, got_a.get(n)))
                continue
            if n not in got_a or rtlil_parse.const_value(got_a[n], want < 0) != want:
                bad.append((n, x, got_a.get(n)))
    return bad


# =================================================================== AST -> Gallina
_INTERN = None      # dict str -> variable name while a case term is being printed


def qs(s):
    if _INTERN is not None:
        v = _INTERN.get(s)
        if v is None:
            v = _INTERN[s] = f"s{len(_INTERN)}"
        return v
    return '"' + s.replace('"', '""') + '"%string'


def with_strings(make):
    """print a term with every distinct string literal bound once by a `let` (string literals are slow to read)"""
    global _INTERN
    _INTERN = {}
    try:
        body = make()
        table = _INTERN
    finally:
        _INTERN = None
    lets = "".join(f'let {v} := "' + k.replace('"', '""') + '"%string in\n ' for k, v in table.items())
    return "(" + lets + body + ")"


BITV = {"0": 0, "1": 1, "x": 2, "z": 3, "-": 4, "m": 5}


def t_bits(s):
    return "[" + ";".join(str(BITV[c]) for c in reversed(s)) + "]"


def t_pval(c):
    if c[0] == "int":
        return f"PInt {z(c[1])}"
    if c[0] == "bits":
        return f"PBits {t_bits(c[1])}"
    return f"PStr {qs(c[1])}"


def t_attrs(a):
    return "[" + ";".join(f"({qs(n)},{t_pval(c)})" for n, c in a) + "]"


FLAG = {"": 0, "signed": 1, "real": 2}


def t_params(ps):
    return "[" + ";".join(f"Par {qs(n)} {FLAG[f]} ({t_pval(c)})" for n, f, c in ps) + "]"


def t_sig(sig):
    out = []
    for ch in rtlil_parse.flatten(sig):
        if ch[0] == "const":
            c = ch[1]
            s = c[1] if c[0] == "bits" else format(c[1], "032b")
            out.append(f"CConst {t_bits(s)}")
        elif ch[0] == "wire":
            out.append(f"CWire {qs(ch[1])}")
        else:
            out.append(f"CSlice {qs(ch[1])} {z(ch[2])} {z(ch[3])}")
    return "[" + ";".join(out) + "]"


DIRS = {"input": "DIn", "output": "DOut", "inout": "DInout"}


def t_wire(w):
    port = "None" if w["port"] is None else f"(Some ({DIRS[w['port'][0]]},{z(w['port'][1])}))"
    return f"Wire {qs(w['name'])} {z(w['width'])} {port} {blit(w['signed'])} {t_attrs(w['attributes'])}"


def t_stmt(st):
    if st[0] == "assign":
        return f"PAssign {t_sig(st[1])} {t_sig(st[2])}"
    cases = []
    for c in st[3]:
        pats = "[" + ";".join(t_bits(p[1]) if p[0] == "bits" else t_bits(format(p[1], "032b")) for p in c["patterns"]) + "]"
        cases.append(f"({pats},{t_body(c['body'])})")
    return f"PSwitch {t_sig(st[1])} [" + ";".join(cases) + "]"


def t_body(b):
    return "[" + ";".join(t_stmt(s) for s in b) + "]"


def t_module(m):
    wires = ";\n   ".join(t_wire(w) for w in m["wires"])
    mems = ";".join(f"Mem {qs(x['name'])} {z(x['width'])} {z(x['size'])} {t_attrs(x['attributes'])}" for x in m["memories"])
    cells = ";\n   ".join(
        f"Cell {qs(c['name'])} {qs(c['type'])} {t_attrs(c['attributes'])} {t_params(c['parameters'])} ["
        + ";".join(f"({qs(n)},{t_sig(s)})" for n, s in c["connections"]) + "]" for c in m["cells"])
    procs = ";\n   ".join(f"Proc {qs(p['name'])} {t_attrs(p['attributes'])} {t_body(p['body'])}" for p in m["processes"])
    conns = ";".join(f"({t_sig(l)},{t_sig(r)})" for l, r in m["connects"])
    return (f"Mod {qs(m['name'])} {t_attrs(m['attributes'])}\n  [{wires}]\n  [{mems}]\n  [{cells}]\n  [{procs}]\n  [{conns}]")


def t_doc(doc):
    return "(Doc [" + ";\n ".join(t_module(m) for m in doc["modules"]) + "])"


def t_pybits(bits):
    """predicted python bits -> sigspec term (one chunk per bit)"""
    out = []
    for b in bits:
        if b[0] == "c":
            out.append(f"CConst [{BITV[b[1]]}]")
        else:
            out.append(f"CSlice {qs(b[1])} {b[2]} {b[2]}")
    return "[" + ";".join(out) + "]"


def t_xval(x):
    if x[0] == "int":
        return f"XInt {z(x[1])}"
    if x[0] == "const":
        return f"XConst {z(x[1])} {z(x[2])} {blit(x[3])}"
    if x[0] == "float":
        return f"XReal {qs(x[1])}"
    return f"XStr {qs(x[1])}"


def t_xvals(xs):
    return "[" + ";".join(f"({qs(n)},{t_xval(x)})" for n, x in xs) + "]"


def t_ex(ex):
    out = []
    for f in ex:
        ports = ";".join(
            f"FP {qs(p['name'])} {DIRS[p['dir']]} {z(p['width'])} "
            + ("None" if p["bits"] is None else f"(Some {t_pybits(p['bits'])})") for p in f["ports"])
        out.append(f"FS {qs(f['module'])} {qs(f['cell'])} {qs(f['type'])} {t_xvals(f['params'])} {t_xvals(f['attrs'])} [{ports}]")
    return "[" + ";\n ".join(out) + "]"


def t_strs(xs):
    return "[" + ";".join(qs(x) for x in xs) + "]"


# =================================================================== the check interface
def run_impl(case):
    k = case["kind"]
    if k == "design":
        try:
            text, B = convert(case["d"])
        except Exception as e:
            return [-1, exc_code(e)]
        try:
            doc = rtlil_parse.parse(text)
        except rtlil_parse.RtlilSyntaxError:
            return [-2]
        if B.insts and numeric_disagreements(doc, expectations(case["d"], B, doc)):
            return [-3]      # a parameter / attribute constant of the text does not denote the given value
        return [1]
    if k == "neg":
        return [0]
    if k == "design_text":
        return [1]
    if k == "names":
        from amaranth.hdl import _ir
        res = []
        for reserved, wanted in case["items"]:
            s = set(reserved)
            out = []
            try:
                for n in wanted:
                    out.append(_ir._add_name(s, n))
            except AssertionError:
                res += [0, -2]
                continue
            res.append(1)
            for n in out:
                res += [ord(c) for c in n] + [-1]
            res.append(-2)
        return res
    raise ValueError(k)


_CACHE = {}


def analyse(D):
    """convert + parse + expectations, once per design per process: (status, text, doc, ex, exception)"""
    key = json.dumps(D, sort_keys=True)
    r = _CACHE.get(key)
    if r is None:
        try:
            text, B = convert(D)
        except Exception as e:
            tb = traceback.extract_tb(sys.exc_info()[2])
            t = sys.exc_info()[2]
            while t.tb_next is not None:
                t = t.tb_next
            detail = t.tb_frame.f_locals.get("name")
            r = ("raise", None, None, None, (type(e).__name__, tb[-1].name if tb else "",
                                             tb[-2].name if len(tb) > 1 else "", detail if isinstance(detail, str) else None))
        else:
            try:
                doc = rtlil_parse.parse(text)
            except rtlil_parse.RtlilSyntaxError as e:
                r = ("noparse", text, None, None, ("RtlilSyntaxError", str(e)))
            else:
                ex = expectations(D, B, doc)
                bad = numeric_disagreements(doc, ex)
                r = ("ok", text, doc, ex, (("numeric", repr(bad[:3])) if bad else None))
        _CACHE[key] = r
    return r


def coq_term(case):
    k = case["kind"]
    if k == "design":
        st, text, doc, ex, err = analyse(case["d"])
        if st != "ok":
            STATS["convert_failed"] += 1
            return "[1]"       # the property: a legal design converts to a document that parses
        STATS["programs"] += 1
        for f in ex:
            for fp in f["ports"]:
                STATS["ports_predicted" if fp["bits"] is not None else "ports_width_only"] = \
                    STATS.get("ports_predicted" if fp["bits"] is not None else "ports_width_only", 0) + 1
        if len(STATS["samples"]) < 2 and len(text) < 2500 and len(doc["modules"]) > 1:
            STATS["samples"].append({"design": case["d"], "rtlil": text, "instances_expected": ex})
        return with_strings(lambda: f"k_wf {t_ex(ex)}\n {t_doc(doc)}")
    if k == "neg":
        STATS["neg"] += 1
        doc = case["doc"] if "doc" in case else rtlil_parse.parse(case["text"])
        return with_strings(lambda: f"k_verdict {t_ex(case.get('ex', []))}\n {t_doc(doc)}")
    if k == "design_text":
        STATS["programs"] += 1
        return with_strings(lambda: f"k_wf []\n {t_doc(rtlil_parse.parse(case['text']))}")
    if k == "names":
        return with_strings(lambda: "k_names_batch [" + ";\n ".join(
            f"({t_strs(r)},{t_strs(w)})" for r, w in case["items"]) + "]")
    raise ValueError(k)


def classify(case):
    k = case["kind"]
    if k == "design":
        d = case["d"]
        tags = [f"mods{min(len(d['mods']), 4)}"]
        kinds = {it[0] for m in d["mods"] for it in m["items"]}
        for t in ("inst", "mem", "buf"):
            if t in kinds:
                tags.append(t)
        names = [s["n"] for s in d["sigs"]]
        if len(set(names)) < len(names):
            tags.append("clash")
        if any("$" in n for n in names):
            tags.append("dollar")
        if any(x.get("lay") is not None for x in d["sigs"]):
            tags.append("struct")
        if any(_has_ws(n) for n in all_names(d)):
            tags.append("ws")
        if d.get("src"):
            tags.append("src")
        return "design:" + "+".join(tags)
    if k == "neg":
        return "neg:" + case["why"]
    if k == "design_text":
        return "text:" + case["why"]
    return "names:batch"


def nontrivial(case, obs):
    k = case["kind"]
    if k == "design":
        if obs != [1]:
            return False
        d = case["d"]
        return len(d["sigs"]) >= 2 and any(m["st"] or m["items"] for m in d["mods"])
    if k in ("neg", "design_text"):
        return True
    return any(len(set(w)) < len(w) or (set(w) & set(r)) for r, w in case["items"])


PARTIAL_OUTPUT_IOPORTS = True     # set True to also draw IOPorts that are only driven and partly unused (see known_finding)


def _partial_output_ioport(D):
    """an IOPort all of whose uses are output-only buffers and that has at least one unused bit"""
    for pi, p in enumerate(D["ios"]):
        used, only_out, any_use = set(), True, False
        for m in D["mods"]:
            for it in m["items"]:
                es = []
                if it[0] == "buf":
                    es = [(it[1]["port"], it[1]["i"] is None and it[1]["o"] is not None)]
                elif it[0] == "inst":
                    es = [(a[2], False) for a in it[1]["args"] if a[0] == "io"]
                for e, out in es:
                    if e[1] != pi:
                        continue
                    any_use = True
                    only_out = only_out and out
                    used |= set(range(p["w"])) if e[0] == "io" else set(range(e[2], e[3]))
        if any_use and only_out and len(used) < p["w"]:
            return True
    return False


def all_names(D):
    """every name the design gives at a naming site"""
    out = [x["n"] for x in D["sigs"]] + [x["n"] for x in D["ios"]] + [p[2] for p in D["ports"] if p[2] is not None]
    for m in D["mods"]:
        out += [d[0] for d in m.get("doms", [])]
        for it in m["items"]:
            if it[2] is not None:
                out.append(it[2])
            if it[0] == "inst":
                out.append(it[1]["type"])
                out += [a[1] for a in it[1]["args"]]
    return out


def _has_ws(n):
    return any(c.isspace() or ord(c) < 32 for c in n)


def _sanitize(D):
    """the same design with every whitespace / control character inside a string replaced by `_<hex code>_`"""
    def walk(x):
        if isinstance(x, str):
            return "".join(f"_{ord(c):02x}_" if (c.isspace() or ord(c) < 32) else c for c in x)
        if isinstance(x, list):
            return [walk(y) for y in x]
        if isinstance(x, dict):
            return {k: walk(v) for k, v in x.items()}
        return x
    return walk(D)


def _module_paths(D):
    """hierarchical names of all fragments as Design._assign_names gives them"""
    from amaranth.hdl._ir import Fragment
    top, ports, _B = build(D)
    design = Fragment.get(top, None).prepare(ports=ports, hierarchy=("top",))
    return [info.name for info in design.fragments.values()]


def known_finding(case, obs, model):
    """A mismatch is one of the listed findings only if its exact mechanism is re-established on the design:
    the failing frame / name is inspected, or the design is re-converted under the finding's repair."""
    if case["kind"] != "design":
        return None
    D = case["d"]
    st, _t, _d, _e, err = analyse(D)
    if obs == [1] and st == "ok" and list(model) == [0, 0, 10] and _partial_output_ioport(D):
        # the only failing clause is "one driver per bit" in the top module, and the design has a top-level IOPort that is
        # only driven, with unused bits: the port is declared `output` at full width and the unused bits have no driver
        return "C07-partial-ioport-undriven"
    if obs == [-2] and st == "noparse":
        # whitespace inside a name: exactly when the design has such a name and the same design with those characters
        # replaced converts to text that parses
        if any(_has_ws(n) for n in all_names(D)):
            st2 = analyse(_sanitize(D))[0]
            if st2 == "ok":
                return "C07-whitespace-in-names"
        return None
    if st != "raise" or obs != [-1, EXC.get(err[0], 99)]:
        return None
    kind, fn, caller, name = err
    user = {x["n"] for x in D["sigs"]}
    if kind == "AssertionError" and fn == "emit_signal_wires":
        # `assert value == port_value` for a wire whose name is a synthesized port name that a user signal also has
        import re
        if name is not None and re.fullmatch(r"port\$\d+\$\d+", name) and name in user:
            return "C07-port-name-collision"
    if kind == "AssertionError" and fn == "_name" and caller in ("wire", "cell", "memory") and name is not None \
            and name.startswith("\\"):
        # `assert name not in self.contents` for the wire of a struct/array field: the same wire name is produced twice
        # (by two fields, possibly of two signals) or is also the name of a user signal.  The signal's own name may have
        # been de-duplicated to <given>$<n>.
        n = name[1:]
        hits = 0
        for x in D["sigs"]:
            if x.get("lay") is None:
                continue
            for f in field_wire_names("", x["lay"]):
                if n.endswith(f):
                    prefix = n[:len(n) - len(f)]
                    if prefix == x["n"] or prefix.startswith(x["n"] + "$"):
                        hits += 1
        import re
        items = {it[2] for m in D["mods"] for it in m["items"] if it[2] is not None}
        base = re.sub(r"\$\d+$", "", n)
        # names the module may already hold under this spelling: signals, explicit port names, IOPorts (and their
        # de-duplicated forms <given>$<k>)
        given = user | {p[2] for p in D["ports"] if p[2] is not None} | {x["n"] for x in D["ios"]}
        if caller == "wire" and (hits >= 2 or (hits == 1 and (n in given or base in given))):
            return "C07-field-wire-name-collision"
        if caller in ("cell", "memory") and hits >= 1 and (n in items or base in items):
            # same mechanism, seen from the other side: a submodule / instance / memory whose (reserved) name equals a
            # field wire declared earlier by emit_signal_fields
            return "C07-field-wire-name-collision"
    if kind == "AssertionError" and fn == "module" and name is not None:
        # rtlil.Design.module: two different hierarchy paths have the same dotted name
        try:
            paths = _module_paths(D)
        except Exception:
            return None
        same = [p for p in paths if ".".join(p) == name]
        if len(set(same)) >= 2:
            return "C07-dotted-module-name-collision"
    return None


def explain(case):
    if case["kind"] == "design":
        return ("build the design with harness/props/c07.py:build(case['d']) and call rtlil.convert(top, ports=ports); the emitted "
                "document must parse and satisfy Rtlil.WellFormed; expected_by_model [1] = accepted, otherwise 0 followed by "
                "(module index, failing clause number) pairs, clause numbers in the order of Rtlil.module_checks")
    if case["kind"] == "neg":
        return "corrupted document that the validator must reject ([0])"
    return "_ir._add_name applied in sequence to a set; per sequence 1, then the character codes of each returned name (-1 ends a name), -2 ends the sequence"


def shrink(case, obs, model):
    if case["kind"] != "design":
        return case, obs, model
    # greedy: drop items / statements / ports while the same verdict class is observed on the implementation side only
    # (the model side would need Coq; the replay records the original model answer)
    return case, obs, model


def extra(tier, seed, findings):
    cov = {
        "programs": STATS["programs"],
        "disagreements_checked": STATS["neg"],
        "explanation": ("programs = emitted documents parsed and judged by vm_compute (wf_doc); disagreements_checked = corrupted "
                        "documents (expected verdict: reject) on which the validator's verdict was compared; conversions that "
                        f"raised instead of emitting a document: {STATS['convert_failed']} (each reported as a mismatch)"),
        "samples": STATS["samples"] + [{"negative_corpus_case": HAND_NEG[6][0], "rtlil": HAND_NEG[6][1], "expected_verdict": "reject"},
                                        {"add_name_sequence": {"reserved": ["o"], "wanted": ["a", "a$3", "a"]},
                                         "implementation": ["a", "a$3", "a$4"], "model": ["a", "a$3", "a$4"]}],
        "generator_skipped_illegal_designs": GEN_STATS.get("skipped_illegal", 0),
        "generator_skipped_by_exception": GEN_STATS.get("skipped_by", {}),
        "instance_ports_connection_predicted": STATS.get("ports_predicted", 0),
        "instance_ports_width_and_direction_only": STATS.get("ports_width_only", 0),
    }
    return [], cov


# =================================================================== generators
def _expr(rng, D, avail, depth, want_w=None):
    """random expression over the signals `avail` (ids)"""
    if depth <= 0 or rng.random() < 0.3 or not avail:
        if avail and rng.random() < 0.8:
            i = rng.choice(avail)
            w = D["sigs"][i]["w"]
            if w >= 2 and rng.random() < 0.3:
                lo = rng.randrange(0, w)
                hi = rng.randrange(lo, w + 1)
                return ["sl", ["s", i], lo, hi]
            return ["s", i]
        r0 = rng.random()
        if r0 < 0.04:
            return ["any", rng.choice(["const", "seq"]), rng.choice([0, 1, 3, 4])]
        if r0 < 0.06:
            return ["init"]
        if r0 < 0.12 and D.get("clkdoms"):
            dn, has_rst = rng.choice(D["clkdoms"])
            return ["rstsig", dn] if has_rst and rng.random() < 0.4 else ["clk", dn]
        w = rng.choice([0, 1, 2, 3, 4, 8])
        return ["c", rng.randrange(0, 1 << w) if w else 0, w, False] if rng.random() < 0.7 or w == 0 else \
               ["c", rng.randrange(-(1 << (w - 1)), 1 << (w - 1)), w, True]
    r = rng.random()
    sub = lambda: _expr(rng, D, avail, depth - 1)
    if r < 0.2:
        return ["u", rng.choice(UNARY), sub()]
    if r < 0.65:
        return ["b", rng.choice(BINARY), sub(), sub()]
    if r < 0.75:
        return ["mux", sub(), sub(), sub()]
    if r < 0.85:
        return ["cat", [sub() for _ in range(rng.randrange(0, 4))]]
    if r < 0.93:
        kind = rng.choice(["bit", "word"])
        return ["part", sub(), sub(), rng.choice([0, 1, 2, 3] if kind == "bit" else [1, 2, 3]), kind]
    return ["sl", ["cat", [sub(), sub(), ["c", 5, 4, False]]], 1, 3]


def _lhs(rng, D, i):
    w = D["sigs"][i]["w"]
    if w >= 2 and rng.random() < 0.35:
        lo = rng.randrange(0, w)
        hi = rng.randrange(lo + 1, w + 1)
        return ["sl", ["s", i], lo, hi]
    return ["s", i]


def _rich_lhs(rng, D, pool, avail, depth):
    """assignment target over the signals `pool` (each used at most once per target): nested slices, part-selects whose
    window can overhang the MSB end, concatenations with zero-width pieces, arrays of elements of different widths,
    as_signed/as_unsigned"""
    if not pool:
        return None
    if depth <= 0 or rng.random() < 0.15:
        return ["s", rng.choice(pool)]
    r = rng.random()
    if r < 0.08:
        a = _rich_lhs(rng, D, pool, avail, depth - 1)
        return [rng.choice(["as_s", "as_u"]) if _width(D, a) > 0 else "as_u", a]
    if r < 0.25:
        a = _arr_lhs(rng, D, pool, avail, depth - 1) if rng.random() < 0.5 else _rich_lhs(rng, D, pool, avail, depth - 1)
        w = _width(D, a)
        lo = rng.randrange(0, w + 1)
        hi = rng.randrange(lo, w + 1)
        if rng.random() < 0.4:
            hi = w                      # window at the MSB end
        return ["sl", a, lo, hi]
    if r < 0.55:
        a = _arr_lhs(rng, D, pool, avail, depth - 1) if rng.random() < 0.5 else _rich_lhs(rng, D, pool, avail, depth - 1)
        kind = rng.choice(["bit", "word"])
        pw = rng.randrange(0, 5) if kind == "bit" else rng.randrange(1, 4)
        return ["part", a, _sel(rng, D, avail, 3), pw, kind]
    if r < 0.68:
        k = rng.randrange(1, 4)
        pool = list(pool)
        rng.shuffle(pool)
        parts = []
        for j in range(k):
            sub = pool[j::k]
            if sub:
                parts.append(_rich_lhs(rng, D, sub, avail, depth - 1))
            if rng.random() < 0.25:
                parts.append(["sl", ["s", rng.choice(pool)], 0, 0])          # zero-width piece
        parts = [p for p in parts if p is not None] or [["s", pool[0]]]
        return ["cat", parts]
    return _arr_lhs(rng, D, pool, avail, depth)


def _arr_lhs(rng, D, pool, avail, depth):
    """Array([...])[index] target whose elements have different widths (a window selected from it can overhang the
    narrower elements)"""
    elems = [_rich_lhs(rng, D, pool, avail, depth - 1) for _ in range(rng.randrange(1, 4))]
    if len(elems) >= 2 and len({_width(D, x) for x in elems}) == 1 and D["sigs"][pool[0]]["w"] > 0:
        elems[0] = ["sl", elems[0], 0, max(0, _width(D, elems[0]) - 1)]     # force elements of different widths
    return ["arr", elems, _sel(rng, D, avail, 2)]


def _sel(rng, D, avail, maxw):
    """a narrow unsigned selector / offset expression"""
    cands = [i for i in avail if not D["sigs"][i]["s"] and D["sigs"][i]["w"] >= 1]
    if cands and rng.random() < 0.85:
        i = rng.choice(cands)
        w = D["sigs"][i]["w"]
        return ["s", i] if w <= maxw else ["sl", ["s", i], 0, rng.randrange(1, maxw + 1)]
    w = rng.randrange(0, maxw + 1)
    return ["c", rng.randrange(0, 1 << w) if w else 0, w, False]


def _stmts(rng, D, targets, avail, depth, rich=False):
    """statement list assigning the signals `targets` (rich: through _rich_lhs targets over all of them)"""
    out = []
    for _ in range(rng.randrange(1, 3)):
        r = rng.random()
        if rich and (r < 0.7 or depth <= 0):
            out.append(["eq", _rich_lhs(rng, D, targets, avail, 3), _expr(rng, D, avail, 1)])
        elif r < 0.55 or depth <= 0:
            t = rng.choice(targets)
            if len(targets) >= 2 and rng.random() < 0.1:
                t2 = rng.choice([x for x in targets if x != t])
                out.append(["eq", ["cat", [["s", t], ["s", t2]]], _expr(rng, D, avail, 2)])
            else:
                out.append(["eq", _lhs(rng, D, t), _expr(rng, D, avail, 2)])
        elif r < 0.75:
            out.append(["if", _expr(rng, D, avail, 1), _stmts(rng, D, targets, avail, depth - 1, rich),
                        _stmts(rng, D, targets, avail, depth - 1, rich) if rng.random() < 0.5 else None])
        elif r < 0.9:
            e = _expr(rng, D, avail, 1)
            w = _width(D, e)
            cases = []
            for _ in range(rng.randrange(0, 3)):
                pats = ["".join(rng.choice("01-") for _ in range(w)) for _ in range(rng.randrange(0, 3))]
                cases.append([pats, _stmts(rng, D, targets, avail, depth - 1, rich)])
            out.append(["sw", e, cases, _stmts(rng, D, targets, avail, depth - 1, rich) if rng.random() < 0.5 else None])
        elif r < 0.95:
            out.append(["print", _expr(rng, D, avail, 1)])
        else:
            out.append(["assert", _expr(rng, D, avail, 1)])
    return out


def _width(D, e):
    """width of an expression, computed by the real library (only used to size switch patterns)"""
    from amaranth.hdl import Signal, Const, Cat, Mux, signed, unsigned
    sigs = [Signal(signed(s["w"]) if s["s"] else unsigned(s["w"])) for s in D["sigs"]]
    Bx = Built()
    Bx.sigs = sigs
    return len(_ex_width(D, e, sigs))


def _ex_width(D, e, sigs):
    from amaranth.hdl import Const, Cat, Mux, signed, unsigned, Array
    k = e[0]
    if k == "any":
        return Const(0, e[2])
    if k in ("init", "clk", "rstsig"):
        return Const(0, 1)
    if k == "arr":
        return Array([_ex_width(D, x, sigs) for x in e[1]])[_ex_width(D, e[2], sigs)]
    if k == "as_s":
        return _ex_width(D, e[1], sigs).as_signed()
    if k == "as_u":
        return _ex_width(D, e[1], sigs).as_unsigned()
    if k == "s":
        return sigs[e[1]]
    if k == "c":
        return Const(e[1], signed(e[2]) if e[3] else unsigned(e[2]))
    if k == "sl":
        return _ex_width(D, e[1], sigs)[e[2]:e[3]]
    if k == "cat":
        return Cat(*[_ex_width(D, x, sigs) for x in e[1]])
    if k == "mux":
        return Mux(_ex_width(D, e[1], sigs), _ex_width(D, e[2], sigs), _ex_width(D, e[3], sigs))
    if k == "u":
        v = _ex_width(D, e[2], sigs)
        return {"~": lambda: ~v, "-": lambda: -v, "b": lambda: v.bool(), "r|": lambda: v.any(), "r&": lambda: v.all(),
                "r^": lambda: v.xor(), "abs": lambda: abs(v)}[e[1]]()
    if k == "b":
        a, b = _ex_width(D, e[2], sigs), _ex_width(D, e[3], sigs)
        op = e[1]
        if op in ("<<", ">>"):
            b = b.as_unsigned()[:3]
        if op == "rol":
            return a.rotate_left(1) if len(a) else a
        return {"+": lambda: a + b, "-": lambda: a - b, "*": lambda: a * b, "//": lambda: a // b, "%": lambda: a % b,
                "<<": lambda: a << b, ">>": lambda: a >> b, "&": lambda: a & b, "|": lambda: a | b, "^": lambda: a ^ b,
                "==": lambda: a == b, "!=": lambda: a != b, "<": lambda: a < b, "<=": lambda: a <= b, ">": lambda: a > b,
                ">=": lambda: a >= b}[op]()
    if k == "part":
        v, off = _ex_width(D, e[1], sigs), _ex_width(D, e[2], sigs).as_unsigned()
        return v.bit_select(off, e[3]) if e[4] == "bit" else v.word_select(off, e[3])
    raise ValueError(e)


STRS = ["hello", 'q"uo\\te\n\ttab', "", "\\", "a\rb", "caf\u00e9", "{}", " lead", "\\mem"]


def boundary_ints():
    """plain ints around every place where _const changes form or width"""
    out = [0, 1, -1, 2, -2, 5, -3, 2 ** 31 - 3, 2 ** 31 - 2, 2 ** 31 - 1, 2 ** 31, 2 ** 31 + 1, 2 ** 32 - 1, 2 ** 32, 2 ** 32 + 1,
           -2 ** 31 + 1, -2 ** 31, -2 ** 31 - 1, -2147483649, -2 ** 32 + 1, -2 ** 32, -2 ** 32 - 1, -2 ** 40 + 5, 2 ** 40 + 1, -2 ** 35]
    for k in (30, 33, 34, 39, 40, 63, 64, 65, 100):
        out += [2 ** k - 1, 2 ** k, 2 ** k + 1, -2 ** k + 1, -2 ** k, -2 ** k - 1]
    return out


def _pint(rng):
    r = rng.random()
    if r < 0.35:
        return rng.choice(boundary_ints())
    if r < 0.5:
        return rng.randrange(-40, 41)
    k = rng.choice([31, 32, 33, 40, 48, 63, 64, 70])
    n = rng.randrange(2 ** (k - 1), 2 ** k + 2 ** (k - 2))
    if rng.random() < 0.3:
        n = 2 ** k + rng.choice([-2, -1, 0, 1, 2, 5])
    return -n if rng.random() < 0.6 else n


def _pval(rng, attr=False):
    """a parameter / attribute value: plain ints of any size and sign, bool, int-valued enum members, Const of any shape,
    strings with characters needing escapes, floats (parameters only: _const has no float form for attributes)"""
    r = rng.random()
    if r < 0.5:
        return ["int", _pint(rng)]
    if r < 0.62:
        return ["str", rng.choice(STRS)]
    if r < 0.8:
        w = rng.choice([0, 1, 2, 3, 4, 8, 16, 31, 32, 33, 40, 64])
        sg = w >= 1 and rng.random() < 0.5
        v = rng.randrange(-(1 << w), 1 << w) if w else 0
        if rng.random() < 0.3 and w:
            v = rng.choice([-(1 << (w - 1)), (1 << (w - 1)) - 1, (1 << w) - 1, -1, 0])
        return ["const", v, w, sg]
    if r < 0.9:
        # enum members are int SUBCLASS instances: `value in range(0, 2**31-1)` in _const then scans the range linearly
        # (about 50 s for a member that is negative or >= 2^31-1), so only small non-negative members are generated
        kind = rng.choice(["py", "py", "am", "pyflag", "amflag"])
        return ["enum", kind, rng.choice([0, 1, 2, 5, 255, 4095, rng.randrange(0, 4096)])]
    if r < 0.94:
        return ["bool", rng.random() < 0.5]
    if attr:
        return ["int", _pint(rng)]
    return ["float", rng.choice([1.5, -0.25, 0.0, 1e300, 3.141592653589793, -2.0 ** 70, 1e-7])]


def _layout(rng, w, depth=2):
    """a data layout of total width w (struct / array / enum / plain fields)"""
    r = rng.random()
    if w == 0:
        return ["struct", []] if r < 0.5 else ["u", 0]
    if depth <= 0 or w == 1 or r < 0.2:
        r2 = rng.random()
        if r2 < 0.35 and w <= 4:
            return ["enum", w, rng.randrange(1, 5)]
        return ["s", w] if r2 < 0.55 else ["u", w]
    if r < 0.4 and w >= 2:
        for n in (2, 3, 4):
            if w % n == 0 and rng.random() < 0.6:
                return ["array", _layout(rng, w // n, depth - 1), n]
    names = list(FIELD_NAMES)
    rng.shuffle(names)
    fields, left = [], w
    for k in range(rng.randrange(1, 4)):
        fw = left if k == 2 else rng.randrange(0, left + 1)
        fields.append([names[k], _layout(rng, fw, depth - 1)])
        left -= fw
    if left:
        fields.append([names[3], _layout(rng, left, depth - 1)])
    return ["struct", fields]


def gen_design(rng, dollar=False, ws=False, zio=False, clash=False):
    D = {"sigs": [], "ios": [], "mods": [], "ports": [], "src": rng.random() < 0.5}
    odd = (lambda base: base + ODD_NAMES[:6] + (WS_POOL if ws else []))
    # module tree
    nm = rng.choice([1, 1, 2, 2, 3, 3, 4, 5, 6])
    depth = {0: 0}
    D["mods"].append({"n": None, "doms": [], "st": [], "items": []})
    used_sub_names = {0: set()}
    for k in range(1, nm):
        cand = [p for p in range(k) if depth[p] < 3]
        p = rng.choice(cand)
        depth[k] = depth[p] + 1
        D["mods"].append({"n": None, "doms": [], "st": [], "items": []})
        used_sub_names[k] = set()
        nm_ = rng.choice(["sub", "sub", "a", "b", "o", "clk", "x", "x", "y", None, None, "inst", "mem"] + ODD_NAMES[:2] + (WS_POOL if ws else []))
        if nm_ in used_sub_names[p]:
            nm_ = None
        if nm_ is not None:
            used_sub_names[p].add(nm_)
        D["mods"][p]["items"].append(["mod", k, nm_])
    # clock domains
    doms = ["sync"]
    clkdoms = [["sync", True]]
    if rng.random() < 0.4:
        d2 = rng.choice(["d2", "d2", "d.x", "a", "\u00e9"])
        doms.append(d2)
        rless = False
        if rng.random() < 0.6:
            rless = rng.random() < 0.3
            D["mods"][0]["doms"].append([d2, rng.choice(["pos", "neg"]), rng.random() < 0.4, rless, False])
        clkdoms.append([d2, not rless])
    D["clkdoms"] = clkdoms
    if nm > 1 and rng.random() < 0.15:
        k = rng.randrange(1, nm)
        D["mods"][k]["doms"].append(["loc", "pos", False, False, True])
        local_dom = (k, "loc")
    else:
        local_dom = None
    # signals
    ns = rng.randrange(3, 11)
    pool = NAME_POOL + (DOLLAR_POOL if dollar else []) + (WS_POOL * 2 if ws else [])
    for i in range(ns):
        w = rng.choice([0, 1, 1, 2, 3, 4, 4, 8])
        sg = w >= 1 and rng.random() < 0.3
        D["sigs"].append({"n": rng.choice(pool), "w": w, "s": sg, "i": rng.randrange(0, 1 << w) if (w and not sg) else 0})
        if rng.random() < 0.15:
            # struct / array / enum shaped signal: emit_signal_fields declares a wire per field
            D["sigs"][-1].update({"s": False, "i": 0, "lay": _layout(rng, w)})
            D["sigs"][-1]["s"] = D["sigs"][-1]["lay"][0] == "s"
            if D["sigs"][-1]["n"] == "":
                D["sigs"][-1]["n"] = "s"
    # roles: owner[i] = ("in",) | ("comb", mod) | ("sync", mod, dom) | ("inst", mod) ; decided in index order
    owner = {}
    for i in range(ns):
        r = rng.random()
        mo = rng.randrange(nm)
        if r < 0.25:
            owner[i] = ("in",)
        elif r < 0.6:
            owner[i] = ("comb", mo)
        elif r < 0.9:
            dom = rng.choice(doms)
            if local_dom and local_dom[0] == mo and rng.random() < 0.7:
                dom = "loc"
            owner[i] = ("sync", mo, dom)
        else:
            owner[i] = ("instout", mo)
    sync_ids = [i for i in range(ns) if owner[i][0] == "sync"]
    in_ids = [i for i in range(ns) if owner[i][0] == "in"]

    def avail_for(i):
        return [j for j in range(ns) if j < i or j in sync_ids or j in in_ids]

    everything = list(range(ns))
    # statements grouped per (module, domain)
    groups = {}
    for i in range(ns):
        o = owner[i]
        if o[0] == "comb":
            groups.setdefault((o[1], "comb"), []).append(i)
        elif o[0] == "sync":
            groups.setdefault((o[1], o[2]), []).append(i)
    for (mo, dom), targets in groups.items():
        if dom == "comb":
            # one statement group per target keeps comb dependencies acyclic (rank = index)
            for t in targets:
                D["mods"][mo]["st"].append([dom, _stmts(rng, D, [t], avail_for(t), 2)])
        else:
            D["mods"][mo]["st"].append([dom, _stmts(rng, D, targets, everything, 2)])
    # extra readers: use signals in modules other than their owner (routing through the hierarchy)
    nio = rng.choice([0, 0, 1, 2])
    for k in range(nio):
        D["ios"].append({"n": rng.choice(odd(["pad", "a", "io", "pad", "clk", "pad", "a"])), "w": rng.choice([1, 2, 4] + ([0, 0] if zio else []))})
    io_free = list(range(nio))
    rng.shuffle(io_free)
    # instances
    inst_out = [i for i in range(ns) if owner[i][0] == "instout"]
    by_mod = {}
    for i in inst_out:
        by_mod.setdefault(owner[i][1], []).append(i)
    n_extra_inst = rng.choice([0, 0, 1])
    inst_mods = list(by_mod) + [rng.randrange(nm) for _ in range(n_extra_inst)]
    for mo in inst_mods:
        outs = by_mod.pop(mo, [])
        lowest = min(outs) if outs else ns
        av = [j for j in range(ns) if j < lowest or j in sync_ids or j in in_ids]
        args = []
        for k in range(rng.randrange(0, 6)):
            args.append(["p", rng.choice(odd(["X", "Y", "WIDTH", "INIT"] * 3)) + str(k), _pval(rng)])
        for k in range(rng.randrange(0, 3)):
            args.append(["a", rng.choice(odd(["keep", "LOC", "src"] * 4)) + str(k), _pval(rng, attr=True)])
        for k in range(rng.randrange(0, 4)):
            r = rng.random()
            if r < 0.6 and av:
                e = ["s", rng.choice(av)]
            elif r < 0.8:
                e = _expr(rng, D, av, 0)
            else:
                e = ["cat", [_expr(rng, D, av, 0) for _ in range(rng.randrange(0, 3))]]
            args.append(["i", rng.choice(odd(["i"] * 12)) + str(k), e])
        if outs:
            if len(outs) >= 2 and rng.random() < 0.3:
                args.append(["o", "oc", ["cat", [["s", outs[0]], ["s", outs[1]]]]])
                rest = outs[2:]
            else:
                rest = outs
            for k, t in enumerate(rest):
                w = D["sigs"][t]["w"]
                if w >= 2 and rng.random() < 0.2:
                    cut = rng.randrange(1, w)
                    args.append(["o", f"o{k}l", ["sl", ["s", t], 0, cut]])
                    args.append(["o", f"o{k}h", ["sl", ["s", t], cut, w]])
                else:
                    args.append(["o", rng.choice(odd(["o"] * 12)) + str(k), ["s", t]])
        if io_free and rng.random() < 0.7:
            p = io_free.pop()
            w = D["ios"][p]["w"]
            if w >= 2 and rng.random() < 0.3:
                args.append(["io", "pa", ["iosl", p, 0, 1]])
                args.append(["io", "pb", ["iosl", p, 1, w]])
            else:
                args.append(["io", "p", ["io", p]])
        seen_ports = set()
        for a_ in args:          # port names are keys of one dict in Instance: keep them distinct
            if a_[0] in ("i", "o", "io"):
                while a_[1] in seen_ports:
                    a_[1] += "_" + a_[0]
                seen_ports.add(a_[1])
        rng.shuffle(args)
        nm_ = rng.choice(odd(["inst", "a", "sub", None, "foo", "o"] * 2))
        if nm_ in used_sub_names[mo]:
            nm_ = None
        if nm_ is not None:
            used_sub_names[mo].add(nm_)
        D["mods"][mo]["items"].append(["inst", {"type": rng.choice(odd(["foo", "bar", "a", "SB_IO", "sub"] * 2)), "args": args}, nm_])
    # I/O buffers on the remaining IOPorts
    while io_free:
        p = io_free.pop()
        w = D["ios"][p]["w"]
        mo = rng.randrange(nm)
        kind = rng.choice(["i", "o", "oe", "io"])
        # an `i=` target must be a whole signal not driven otherwise: make a fresh one
        q = {"port": ["io", p], "i": None, "o": None, "oe": None}
        if kind in ("i", "io"):
            D["sigs"].append({"n": rng.choice(pool), "w": w, "s": False, "i": 0})
            q["i"] = ["s", len(D["sigs"]) - 1]
            in_like = len(D["sigs"]) - 1
        if kind in ("o", "oe", "io"):
            q["o"] = _fit(rng, D, sync_ids + in_ids, w)
            if kind != "o":
                q["oe"] = _fit(rng, D, sync_ids + in_ids, 1)
        D["mods"][mo]["items"].append(["buf", q, None])
    # a wider IOPort used slice by slice: contiguous slices (mostly with a non-zero start) handed to I/O buffers of every
    # direction and to Instance io ports, spread over submodules at depth 1-3 and the top, so that a submodule's own
    # I/O-port wire covers only part of the port (wire bit k of the module is port bit start+k)
    if rng.random() < 0.5:
        w = rng.randrange(2, 9)
        D["ios"].append({"n": rng.choice(odd(["pad", "io", "bus", "pad", "a"])), "w": w})
        p = len(D["ios"]) - 1
        cuts = sorted(set(rng.sample(range(1, w), min(w - 1, rng.randrange(1, 4)))))
        bounds = [0] + cuts + [w]
        deep = [k for k in range(nm) if depth[k] >= 1]
        kinds = [rng.choice(["i", "o", "oe", "io", "inst", "inst", None if rng.random() < 0.5 else "o"]) for _ in bounds[1:]]
        if not PARTIAL_OUTPUT_IOPORTS and all(k in ("o", "oe", None) for k in kinds):
            # an IOPort that is only driven and has unused bits becomes a full-width `output` wire whose unused bits have
            # no driver (reported separately, see known_finding): keep such ports fully used
            kinds = [k or "o" for k in kinds]
        for (lo, hi), kind in zip(zip(bounds, bounds[1:]), kinds):
            if kind is None:
                continue                                        # a gap: these port bits stay unused
            mo = rng.choice(deep) if deep and rng.random() < 0.8 else rng.randrange(nm)
            sw = hi - lo
            if kind == "inst":
                nm_ = rng.choice([None, None, "pad", "iob"])
                if nm_ in used_sub_names[mo]:
                    nm_ = None
                if nm_ is not None:
                    used_sub_names[mo].add(nm_)
                args = [["io", "PAD", ["iosl", p, lo, hi]], ["p", "W", ["int", sw]]]
                if rng.random() < 0.5:
                    args.append(["i", "T", _fit(rng, D, sync_ids + in_ids, 1)])
                D["mods"][mo]["items"].append(["inst", {"type": rng.choice(["IOB", "SB_IO", "pad"]), "args": args}, nm_])
                continue
            q = {"port": ["iosl", p, lo, hi], "i": None, "o": None, "oe": None}
            if kind in ("i", "io"):
                D["sigs"].append({"n": rng.choice(pool), "w": sw, "s": False, "i": 0})
                q["i"] = ["s", len(D["sigs"]) - 1]
            if kind in ("o", "oe", "io"):
                q["o"] = _fit(rng, D, sync_ids + in_ids, sw)
                if kind != "o":
                    q["oe"] = _fit(rng, D, sync_ids + in_ids, 1)
            D["mods"][mo]["items"].append(["buf", q, None])
    ns2 = len(D["sigs"])
    # memories
    if rng.random() < 0.3:
        mo = rng.randrange(nm)
        w = rng.choice([0, 1, 4, 8])
        d = rng.choice([0, 1, 2, 4, 5, 16])
        wr = [rng.choice(doms) for _ in range(rng.randrange(0, 3))]
        rd = []
        for _ in range(rng.randrange(0, 3)):
            dom = rng.choice(doms + ["comb"])
            transp = [t for t in range(len(wr)) if wr[t] == dom and rng.random() < 0.5] if dom != "comb" else []
            rd.append([dom, transp])
        ab = max(1, (d - 1).bit_length()) if d > 1 else 0
        src = sync_ids + in_ids
        q = {"key": "m0", "w": w, "d": d, "init": [rng.randrange(0, 1 << w) for _ in range(rng.randrange(0, d + 1))],
             "wr": wr, "rd": rd,
             "rdc": [[_fit(rng, D, src, ab), _fit(rng, D, src, 1)] for _ in rd],
             "wrc": [[_fit(rng, D, src, ab), _fit(rng, D, src, w), _fit(rng, D, src, 1)] for _ in wr]}
        nm_ = rng.choice(odd(["mem", "a", None] * 3))
        if nm_ in used_sub_names[mo]:
            nm_ = None
        if nm_ is not None:
            used_sub_names[mo].add(nm_)
        D["mods"][mo]["items"].append(["mem", q, nm_])
        # a reader of the read data, as a fresh comb signal in a random module
        for j in range(len(rd)):
            D["sigs"].append({"n": rng.choice(pool), "w": w, "s": False, "i": 0})
            t = len(D["sigs"]) - 1
            D["mods"][rng.randrange(nm)]["st"].append(["comb", [["eq", ["s", t], ["mr", "m0", j]]]])
    # rich assignment targets: each group has its own fresh target signals (of different widths, some zero-width),
    # one owner (module, domain); offsets / indices / right-hand sides read only registers and undriven signals
    for _ in range(rng.choice([1, 1, 2])):
        mo = rng.randrange(nm)
        dom = rng.choice(["comb", "comb"] + doms)
        tids = []
        for _k in range(rng.randrange(2, 5)):
            w = rng.choice([0, 1, 2, 3, 3, 4, 5])
            D["sigs"].append({"n": rng.choice(pool), "w": w, "s": w >= 1 and rng.random() < 0.25, "i": 0})
            tids.append(len(D["sigs"]) - 1)
        D["mods"][mo]["st"].append([dom, _stmts(rng, D, tids, sync_ids + in_ids, 2, rich=True)])
    # ports
    taken = set()
    for i in range(len(D["sigs"])):
        s = D["sigs"][i]
        if rng.random() < 0.55:
            pname, d = None, None
            if s["n"] == "" or rng.random() < 0.2:
                pname = rng.choice(odd(["p", "a", "b", "o", "clk", "sub", "q", "r"] * 2))
                if pname in taken:
                    pname = f"p{i}"
            if pname is not None:
                taken.add(pname)
            if rng.random() < 0.2:
                d = "i" if (i < ns and owner[i][0] == "in") else "o"
                if i >= ns:
                    d = None
            D["ports"].append(["s", i, pname, d])
    for p in range(nio):
        if rng.random() < 0.5:
            D["ports"].append(["io", p, None if rng.random() < 0.7 else f"pad{p}", None])
    rng.shuffle(D["ports"])
    if clash:
        # a signal driven in module p carries the very name that an ANONYMOUS submodule of p derives from its type and
        # position (`Module$<index>`, named children come first): the derived name must be de-duplicated like any other
        cands = []
        for p, mod in enumerate(D["mods"]):
            named = sum(1 for it in mod["items"] if it[2] is not None)
            anon = [it for it in mod["items"] if it[2] is None]
            own = [i for i in range(ns) if owner[i][0] in ("comb", "sync") and owner[i][1] == p and "lay" not in D["sigs"][i]
                   and D["sigs"][i]["w"] > 0]
            for r_, it in enumerate(anon):
                if it[0] == "mod" and own:
                    cands.append((f"Module${named + r_}", own))
                elif it[0] == "inst" and own and isinstance(it[1], dict) and isinstance(it[1].get("type"), str):
                    cands.append((f"{it[1]['type']}${named + r_}", own))
        if cands:
            nm2, own = rng.choice(cands)
            D["sigs"][rng.choice(own)]["n"] = nm2
            D["clash"] = nm2
    return D


def _fit(rng, D, ids, w):
    """an expression of exactly width w over the given signals"""
    if ids and rng.random() < 0.8:
        i = rng.choice(ids)
        sw = D["sigs"][i]["w"]
        if sw == w:
            return ["s", i]
        if sw > w:
            return ["sl", ["s", i], 0, w]
        return ["cat", [["s", i], ["c", 0, w - sw, False]]]
    return ["c", rng.randrange(0, 1 << w) if w else 0, w, False]


def legal(D):
    """does the real toolchain accept the design? (DriverConflict etc. = generator slip, the design is skipped)"""
    st, _text, _doc, _ex, err = analyse(D)
    if st == "raise" and err[0] in ("DriverConflict", "CombinationalCycle", "DomainError"):
        return False, err        # the only rejections the generator can provoke by its own slips; counted in the evidence
    return True, (None if st == "ok" else err)      # any other exception is kept as a case (a mismatch unless a listed finding)


# ---- hand-written designs (fixed list)
def fixed_designs():
    out = []
    S = lambda n, w, s=False: {"n": n, "w": w, "s": s, "i": 0}
    M = lambda items=None, st=None, doms=None: {"n": None, "doms": doms or [], "st": st or [], "items": items or []}
    # same name three times in one module
    out.append({"sigs": [S("a", 2), S("a", 3), S("a", 4), S("o", 4)], "ios": [],
                "mods": [M(st=[["comb", [["eq", ["s", 3], ["b", "+", ["s", 0], ["b", "^", ["s", 1], ["s", 2]]]]]]])],
                "ports": [["s", 0, None, None], ["s", 1, None, None], ["s", 2, None, None], ["s", 3, None, None]]})
    # (the former S3 inputs a, a$N, a are added by the sweep in gen_cases)
    # empty top
    out.append({"sigs": [S("a", 1)], "ios": [], "mods": [M()], "ports": [["s", 0, None, None]]})
    # empty submodules at several depths, one non-empty leaf
    out.append({"sigs": [S("a", 1), S("b", 1)], "ios": [],
                "mods": [M(items=[["mod", 1, "e1"], ["mod", 2, "e2"]]), M(items=[["mod", 3, None]]), M(),
                         M(st=[["comb", [["eq", ["s", 1], ["u", "~", ["s", 0]]]]]])],
                "ports": [["s", 0, None, None], ["s", 1, None, None]]})
    # signal driven in one leaf, used in a sibling leaf, routed through two intermediate modules
    out.append({"sigs": [S("a", 4), S("x", 4), S("o", 4)], "ios": [],
                "mods": [M(items=[["mod", 1, "l"], ["mod", 2, "r"]]), M(items=[["mod", 3, "ll"]]), M(items=[["mod", 4, "rr"]]),
                         M(st=[["sync", [["eq", ["s", 1], ["b", "+", ["s", 1], ["s", 0]]]]]]),
                         M(st=[["comb", [["eq", ["s", 2], ["u", "-", ["s", 1]]]]]])],
                "ports": [["s", 0, None, None], ["s", 2, None, None]]})
    # zero-width everything
    out.append({"sigs": [S("z", 0), S("y", 0), S("o", 1)], "ios": [],
                "mods": [M(st=[["comb", [["eq", ["s", 1], ["s", 0]], ["eq", ["s", 2], ["b", "==", ["s", 0], ["s", 1]]]]]])],
                "ports": [["s", 0, None, None], ["s", 1, None, None], ["s", 2, None, None]]})
    # port names that differ from / clash with signal names; private signal as a named port
    out.append({"sigs": [S("a", 2), S("b", 2), S("", 2), S("p", 2)], "ios": [],
                "mods": [M(st=[["comb", [["eq", ["s", 1], ["s", 0]], ["eq", ["s", 2], ["u", "~", ["s", 0]]],
                                         ["eq", ["s", 3], ["s", 2]]]]])],
                "ports": [["s", 0, "b", None], ["s", 1, "a", None], ["s", 2, "p", None], ["s", 3, "q", "o"]]})
    # instance with everything, in a submodule, output split over two signals, io port sliced
    out.append({"sigs": [S("a", 4), S("r", 2), S("t", 2, True), S("o", 4)], "ios": [{"n": "pad", "w": 3}],
                "mods": [M(items=[["mod", 1, "sub"]], st=[["comb", [["eq", ["s", 3], ["cat", [["s", 1], ["s", 2]]]]]]]),
                         M(items=[["inst", {"type": "foo", "args": [
                             ["p", "X", ["int", 5]], ["p", "S", ["str", 'a"b\\c\n']], ["p", "N", ["int", -3]],
                             ["p", "B", ["int", 2 ** 33]], ["p", "F", ["float", 1.5]], ["p", "C", ["const", 5, 4, False]],
                             ["p", "CS", ["const", -1, 3, True]], ["a", "keep", ["int", 1]], ["a", "LOC", ["str", "A1"]],
                             ["i", "a", ["s", 0]], ["i", "k", ["c", 5, 4, False]], ["i", "m", ["cat", [["sl", ["s", 0], 1, 3], ["c", 1, 1, False]]]],
                             ["o", "q", ["cat", [["s", 1], ["s", 2]]]], ["io", "p0", ["iosl", 0, 0, 1]], ["io", "p12", ["iosl", 0, 1, 3]]]}, "u"]])],
                "ports": [["s", 0, None, None], ["s", 3, None, None]]})
    # every boundary integer as a parameter and as an attribute; enum members, bools, Consts of boundary shapes
    bi = boundary_ints()
    args = [["p", f"P{k}", ["int", n]] for k, n in enumerate(bi)] + [["a", f"A{k}", ["int", n]] for k, n in enumerate(bi)]
    args += [["p", "EP", ["enum", "py", 0]], ["p", "EA", ["enum", "am", 4095]], ["p", "EF", ["enum", "pyflag", 1024]],
             ["p", "EG", ["enum", "amflag", 5]], ["a", "EQ", ["enum", "py", 77]], ["p", "T", ["bool", True]], ["a", "Fa", ["bool", False]]]
    for k, (v, w, sg) in enumerate([(0, 0, False), (1, 1, False), (-1, 1, True), (-2 ** 31, 32, True), (2 ** 32 - 1, 32, False),
                                    (-1, 33, True), (2 ** 39, 40, True), (2 ** 63 + 1, 64, False), (-5, 64, True), (5, 4, False)]):
        args += [["p", f"C{k}", ["const", v, w, sg]], ["a", f"D{k}", ["const", v, w, sg]]]
    args += [["p", f"S{k}", ["str", t]] for k, t in enumerate(STRS)] + [["a", f"R{k}", ["str", t]] for k, t in enumerate(STRS)]
    args += [["p", "F0", ["float", 1.5]], ["p", "F1", ["float", -2.0 ** 70]], ["p", "F2", ["float", 1e-7]], ["o", "q", ["s", 0]]]
    out.append({"sigs": [S("q", 1)], "ios": [], "mods": [M(items=[["inst", {"type": "foo", "args": args}, "u"]])],
                "ports": [["s", 0, None, None]]})
    # ---- audit additions
    P = lambda n: [["s", i, None, None] for i in range(n)]
    inv = lambda o, a: ["eq", ["s", o], ["u", "~", ["s", a]]]
    # names with whitespace at every naming site (the emitted text does not parse: finding C07-whitespace-in-names), and
    # odd but legal names at the same sites
    for nmx in ["a b", "a\nb", "x.y", 'a"b']:
        out.append({"sigs": [S(nmx, 2), S("o", 2)], "ios": [], "mods": [M(st=[["comb", [inv(1, 0)]]])], "ports": P(2)})
        out.append({"sigs": [S("a", 2), S("o", 2)], "ios": [], "mods": [M(st=[["comb", [inv(1, 0)]]])],
                    "ports": [["s", 0, nmx, None], ["s", 1, None, None]]})
        out.append({"sigs": [S("a", 2), S("o", 2)], "ios": [], "mods": [M(items=[["mod", 1, nmx]]), M(st=[["comb", [inv(1, 0)]]])], "ports": P(2)})
        out.append({"sigs": [S("a", 2), S("o", 2)], "ios": [{"n": nmx, "w": 1}],
                    "mods": [M(items=[["inst", {"type": nmx, "args": [["i", nmx, ["s", 0]], ["o", "o", ["s", 1]], ["p", nmx, ["int", 1]],
                                                                      ["a", nmx, ["int", 2]], ["io", "pad", ["io", 0]]]}, nmx]])], "ports": P(2)})
        out.append({"sigs": [S("a", 2), S("d", 8), S("o", 8)], "ios": [],
                    "mods": [M(items=[["mem", {"key": "m0", "w": 8, "d": 4, "init": [1], "wr": [], "rd": [["comb", []]],
                                                "rdc": [[["s", 0], ["c", 1, 1, False]]], "wrc": []}, nmx]],
                               st=[["comb", [["eq", ["s", 2], ["mr", "m0", 0]]]]])], "ports": [["s", 0, None, None], ["s", 2, None, None]]})
        out.append({"sigs": [S("a", 2)], "ios": [], "clkdoms": [[nmx, True]],
                    "mods": [M(doms=[[nmx, "pos", False, False, False]], st=[[nmx, [["eq", ["s", 0], ["b", "+", ["s", 0], ["c", 1, 1, False]]]]]])],
                    "ports": P(1)})
    # struct / array / enum shaped signals: one wire per field (emit_signal_fields), in the top and in a submodule
    LAY = ["struct", [["f", ["u", 2]], ["g", ["array", ["u", 1], 2]], ["e", ["enum", 2, 3]], ["x.y", ["struct", [["a", ["s", 2]]]]]]]
    SS = lambda n, lay, **kw: {"n": n, "w": lay_width(lay), "s": lay[0] == "s", "i": 0, "lay": lay}
    out.append({"sigs": [SS("s", LAY), S("o", 8), SS("t", LAY), SS("en", ["enum", 2, 3]), S("q", 2)], "ios": [],
                "mods": [M(items=[["mod", 1, "sub"]], st=[["comb", [inv(1, 0), ["eq", ["s", 4], ["s", 3]]]]]),
                         M(st=[["sync", [["eq", ["s", 2], ["b", "+", ["s", 2], ["s", 0]]]]]])],
                "ports": [["s", 0, None, None], ["s", 1, None, None], ["s", 2, None, None], ["s", 3, None, None], ["s", 4, None, None]]})
    # a user signal named like a field wire of a struct signal of the same module (finding C07-field-wire-name-collision)
    for clash in ["s.f", "s.g[0]", "s.x.y.a"]:
        out.append({"sigs": [SS("s", LAY), S(clash, 2), S("o", 8)], "ios": [],
                    "mods": [M(st=[["comb", [["eq", ["s", 2], ["b", "^", ["s", 0], ["s", 1]]]]]])], "ports": P(3)})
    # two struct signals whose field wires coincide (s with field "f.g" and s.f with field "g")
    out.append({"sigs": [SS("s", ["struct", [["f.g", ["u", 2]]]]), SS("s.f", ["struct", [["g", ["u", 2]]]]), S("o", 2)], "ios": [],
                "mods": [M(st=[["comb", [["eq", ["s", 2], ["b", "^", ["s", 0], ["s", 1]]]]]])], "ports": P(3)})
    # submodule "x.y" next to submodule x containing y: both are module top.x.y (finding C07-dotted-module-name-collision);
    # and the harmless variant where one of them is empty
    for empty in (False, True):
        out.append({"sigs": [S("a", 2), S("o", 2), S("p", 2)], "ios": [],
                    "mods": [M(items=[["mod", 1, "x.y"], ["mod", 2, "x"]]), M(st=[["comb", [inv(1, 0)]]]), M(items=[["mod", 3, "y"]]),
                             M(st=[] if empty else [["comb", [["eq", ["s", 2], ["b", "+", ["s", 0], ["c", 1, 1, False]]]]]])],
                    "ports": P(2 if empty else 3)})
    # $anyconst / $anyseq / $initstate, ClockSignal / ResetSignal as values and ClockSignal as a target
    out.append({"sigs": [S("o", 4), S("q", 4), S("r", 1), S("z", 0), S("c", 1), S("k", 1), S("t", 1), S("u", 1)], "ios": [],
                "clkdoms": [["sync", True], ["d", True]],
                "mods": [M(doms=[["d", "pos", False, False, False]],
                           st=[["comb", [["eq", ["s", 0], ["any", "const", 4]], ["eq", ["s", 1], ["any", "seq", 4]], ["eq", ["s", 2], ["init"]],
                                         ["eq", ["s", 3], ["any", "const", 0]], ["eq", ["clk", "d"], ["s", 4]], ["eq", ["s", 5], ["clk", "sync"]],
                                         ["eq", ["s", 6], ["rstsig", "sync"]]]],
                               ["d", [["eq", ["s", 7], ["u", "~", ["s", 7]]]]]])], "ports": P(8)})
    # zero-width IOPort: buffer, unused explicit port, instance (used to raise IndexError; repaired in 26cc887: the port
    # becomes an empty wire and the document must be well-formed)
    out.append({"sigs": [S("o", 1)], "ios": [{"n": "p", "w": 0}], "mods": [M(st=[["comb", [["eq", ["s", 0], ["c", 1, 1, False]]]]])],
                "ports": [["s", 0, None, None], ["io", 0, None, None]]})
    out.append({"sigs": [S("o", 0)], "ios": [{"n": "p", "w": 0}],
                "mods": [M(items=[["buf", {"port": ["io", 0], "i": ["s", 0], "o": None, "oe": None}, None]])], "ports": [["s", 0, None, None], ["io", 0, None, None]]})
    out.append({"sigs": [S("o", 1)], "ios": [{"n": "p", "w": 0}],
                "mods": [M(items=[["mod", 1, "s"]]), M(items=[["inst", {"type": "foo", "args": [["io", "p", ["io", 0]], ["o", "o", ["s", 0]]]}, "u"]])],
                "ports": P(1)})
    # slices of one IOPort with a non-zero start used in submodules at depth 1-3 (buffers of each direction, an Instance)
    out.append({"sigs": [S("tx", 2), S("rx", 2), S("oe", 1), S("t", 1), S("u", 2)], "ios": [{"n": "pad", "w": 8}],
                "mods": [M(items=[["mod", 1, "a"], ["buf", {"port": ["iosl", 0, 0, 1], "i": None, "o": ["s", 3], "oe": None}, None]]),
                         M(items=[["mod", 2, "b"], ["buf", {"port": ["iosl", 0, 2, 4], "i": None, "o": ["s", 0], "oe": None}, None]]),
                         M(items=[["mod", 3, "c"], ["buf", {"port": ["iosl", 0, 4, 6], "i": ["s", 1], "o": None, "oe": None}, None]]),
                         M(items=[["buf", {"port": ["iosl", 0, 6, 7], "i": None, "o": ["s", 3], "oe": ["s", 2]}, None],
                                  ["inst", {"type": "IOB", "args": [["io", "PAD", ["iosl", 0, 7, 8]], ["i", "T", ["s", 2]]]}, "iob"]])],
                "ports": [["s", 0, None, None], ["s", 1, None, None], ["s", 2, None, None], ["s", 3, None, None]]})
    out.append({"sigs": [S("tx", 2), S("rx", 2), S("oe", 1)], "ios": [{"n": "pad", "w": 6}],
                "mods": [M(items=[["mod", 1, "s"]]),
                         M(items=[["buf", {"port": ["iosl", 0, 1, 3], "i": ["s", 1], "o": ["s", 0], "oe": ["s", 2]}, None],
                                  ["inst", {"type": "IOB", "args": [["io", "PAD", ["iosl", 0, 3, 5]]]}, None]])],
                "ports": [["s", 0, None, None], ["s", 1, None, None], ["s", 2, None, None]]})
    # memory of width 0 and memory of depth 0
    for mw, md in [(0, 4), (4, 0), (0, 0)]:
        ab = 2 if md else 0
        out.append({"sigs": [S("a", 2), S("d", 4), S("e", 1), S("o", mw)], "ios": [],
                    "mods": [M(items=[["mem", {"key": "m0", "w": mw, "d": md, "init": [], "wr": ["sync"], "rd": [["comb", []], ["sync", [0]]],
                                                "rdc": [[["sl", ["s", 0], 0, ab], ["s", 2]], [["sl", ["s", 0], 0, ab], ["s", 2]]],
                                                "wrc": [[["sl", ["s", 0], 0, ab], ["sl", ["s", 1], 0, mw], ["s", 2]]]}, "mem"]],
                               st=[["comb", [["eq", ["s", 3], ["mr", "m0", 0]]]]])], "ports": P(4)})
    # I/O buffers of the three kinds in different modules
    out.append({"sigs": [S("i", 2), S("o", 1), S("oe", 1), S("x", 4), S("y", 4)], "ios": [{"n": "pi", "w": 2}, {"n": "po", "w": 1}, {"n": "pio", "w": 4}],
                "mods": [M(items=[["mod", 1, "m1"], ["buf", {"port": ["io", 0], "i": ["s", 0], "o": None, "oe": None}, None]]),
                         M(items=[["buf", {"port": ["io", 1], "i": None, "o": ["s", 1], "oe": None}, None],
                                  ["buf", {"port": ["io", 2], "i": ["s", 4], "o": ["s", 3], "oe": ["s", 2]}, "b"]])],
                "ports": [["s", 0, None, None], ["s", 1, None, None], ["s", 2, None, None], ["s", 3, None, None], ["s", 4, None, None]]})
    # Array of elements of different widths, dynamic part-select overhanging the narrower element (comb and sync)
    out.append({"sigs": [S("a", 3), S("b", 4), S("idx", 1), S("off", 2), S("v", 2), S("c", 3), S("d", 5, True)], "ios": [],
                "mods": [M(st=[["comb", [["eq", ["part", ["arr", [["s", 0], ["s", 1]], ["s", 2]], ["s", 3], 2, "bit"], ["s", 4]]]],
                               ["sync", [["eq", ["part", ["arr", [["s", 5], ["sl", ["as_u", ["s", 6]], 1, 5]], ["s", 2]], ["s", 3], 2, "word"], ["s", 4]],
                                         ["eq", ["sl", ["cat", [["s", 5], ["s", 6]]], 2, 8], ["s", 1]]]]])],
                "ports": [["s", i, None, None] for i in range(7)]})
    # memory with two write ports and transparent read port, comb read port
    out.append({"sigs": [S("a", 2), S("d", 8), S("e", 1), S("r1", 8), S("r2", 8)], "ios": [],
                "mods": [M(items=[["mem", {"key": "m0", "w": 8, "d": 4, "init": [1, 2, 3], "wr": ["sync", "sync"],
                                            "rd": [["sync", [0]], ["comb", []]],
                                            "rdc": [[["s", 0], ["s", 2]], [["s", 0], ["s", 2]]],
                                            "wrc": [[["s", 0], ["s", 1], ["s", 2]], [["u", "~", ["s", 0]], ["s", 1], ["c", 0, 1, False]]]}, "mem"]],
                           st=[["comb", [["eq", ["s", 3], ["mr", "m0", 0]], ["eq", ["s", 4], ["mr", "m0", 1]]]]])],
                "ports": [["s", 0, None, None], ["s", 1, None, None], ["s", 2, None, None], ["s", 3, None, None], ["s", 4, None, None]]})
    return out


# ---- negative corpus: hand-corrupted texts
GOOD = r"""
attribute \top 1
module \top
  wire width 4 input 0  \a
  wire width 4 output 1  \o
  wire width 4 $1
  cell $not $2
    parameter \A_SIGNED 0
    parameter \A_WIDTH 4
    parameter \Y_WIDTH 4
    connect \A \a [3:0]
    connect \Y $1
  end
  cell \top.sub \sub
    connect \x $1 [3:0]
    connect \y \o
  end
end
module \top.sub
  wire width 4 input 0  \x
  wire width 4 output 1  \y
  process $1
    assign \y [3:0] \x [3:0]
    switch \x [0]
      case 1'1
        assign \y [1:0] 2'00
      case
    end
  end
end
"""
HAND_NEG = [
    ("dangling-wire", GOOD.replace("connect \\A \\a [3:0]", "connect \\A \\nope [3:0]")),
    ("slice-out-of-bounds", GOOD.replace("connect \\A \\a [3:0]", "connect \\A \\a [4:1]")),
    ("width-mismatch-cell", GOOD.replace("connect \\A \\a [3:0]", "connect \\A \\a [2:0]")),
    ("width-mismatch-assign", GOOD.replace("assign \\y [1:0] 2'00", "assign \\y [1:0] 3'000")),
    ("width-mismatch-submodule-port", GOOD.replace("connect \\x $1 [3:0]", "connect \\x $1 [2:0]")),
    ("pattern-width", GOOD.replace("case 1'1", "case 2'11")),
    ("double-driver", GOOD.replace("  cell \\top.sub \\sub", "  cell $not $3\n    parameter \\A_SIGNED 0\n    parameter \\A_WIDTH 4\n"
                                   "    parameter \\Y_WIDTH 4\n    connect \\A \\a [3:0]\n    connect \\Y $1\n  end\n  cell \\top.sub \\sub")),
    ("undriven-wire", GOOD.replace("    connect \\y \\o\n", "    connect \\y $9\n").replace("  wire width 4 $1\n", "  wire width 4 $1\n  wire width 4 $9\n")),
    ("driven-input", GOOD.replace("connect \\y \\o", "connect \\y \\a")),
    ("missing-port", GOOD.replace("    connect \\x $1 [3:0]\n", "")),
    ("extra-port", GOOD.replace("    connect \\y \\o\n", "    connect \\y \\o\n    connect \\z \\a\n")),
    ("duplicate-name", GOOD.replace("  wire width 4 $1\n  cell", "  wire width 4 $1\n  wire width 4 $2\n  cell")),
    ("duplicate-port-conn", GOOD.replace("    connect \\Y $1\n", "    connect \\Y $1\n    connect \\Y $1\n")),
    ("sparse-port-index", GOOD.replace("wire width 4 output 1  \\o", "wire width 4 output 2  \\o")),
    ("duplicate-port-index", GOOD.replace("wire width 4 output 1  \\y", "wire width 4 output 0  \\y")),
    ("unknown-module", GOOD.replace("cell \\top.sub \\sub", "cell \\top.other \\sub")),
    ("unknown-cell-type", GOOD.replace("cell $not $2", "cell $frobnicate $2")),
    ("missing-width-parameter", GOOD.replace("    parameter \\Y_WIDTH 4\n", "")),
    ("duplicate-module", GOOD + "module \\top.sub\nend\n"),
    ("output-to-constant", GOOD.replace("connect \\Y $1", "connect \\Y 4'0000")),
    ("input-port-of-sub-undriven-bit", GOOD.replace("assign \\y [3:0] \\x [3:0]", "assign \\y [2:0] \\x [2:0]")),
]
MEM_GOOD = r"""
module \top
  memory width 8 size 4 \mem
  wire width 2 input 0  \a
  wire width 8 output 1  \d
  cell $memrd_v2 $1
    parameter \MEMID "\\mem"
    parameter \ABITS 2
    parameter \WIDTH 8
    connect \ADDR \a [1:0]
    connect \DATA \d
    connect \ARST 1'0
    connect \SRST 1'0
    connect \EN 1'1
    connect \CLK 1'0
  end
end
"""
HAND_NEG += [
    ("dangling-memory", MEM_GOOD.replace('"\\\\mem"', '"\\\\nomem"')),
    ("memory-width", MEM_GOOD.replace("memory width 8", "memory width 4")),
    ("memory-name-clash", MEM_GOOD.replace("wire width 2 input 0  \\a", "wire width 2 input 0  \\mem").replace("\\a [1:0]", "\\mem [1:0]")),
]
HAND_POS = [("good", GOOD), ("mem-good", MEM_GOOD)]


def mutate(rng, doc, ex):
    """single-point corruptions of an emitted document; returns [(why, doc', ex')] (each certainly ill-formed)"""
    out = []
    mods = doc["modules"]

    def clone():
        return copy.deepcopy(doc), copy.deepcopy(ex)

    widths = [{w["name"]: w["width"] for w in m["wires"]} for m in mods]
    for mi, m in enumerate(mods):
        # cells with a non-empty whole-wire output
        for ci, c in enumerate(m["cells"]):
            for pi, (pn, sig) in enumerate(c["connections"]):
                if pn in ("\\Y", "\\Q", "\\DATA") and sig[0] == "wire" and c["type"].startswith("$") and widths[mi].get(sig[1], 0) > 0 \
                        and not (c["type"] == "$memwr_v2" or c["type"] == "$meminit_v2"):
                    d, e = clone()
                    dup = copy.deepcopy(c)
                    dup["name"] = "$dup!"
                    d["modules"][mi]["cells"].append(dup)
                    out.append(("mut-double-driver", d, e))
                    d, e = clone()
                    del d["modules"][mi]["cells"][ci]
                    out.append(("mut-undriven", d, e))
                    d, e = clone()
                    d["modules"][mi]["cells"][ci]["connections"][pi][1] = ["wire", "\\no such wire"]
                    out.append(("mut-dangling", d, e))
                    d, e = clone()
                    del d["modules"][mi]["cells"][ci]["connections"][pi]
                    out.append(("mut-missing-port", d, e))
                    d, e = clone()
                    d["modules"][mi]["cells"][ci]["connections"][pi][1] = ["cat", [["const", ["bits", "0"]], sig]]
                    out.append(("mut-width", d, e))
                    break
        if m["wires"]:
            d, e = clone()
            d["modules"][mi]["wires"].append(copy.deepcopy(m["wires"][0]))
            if d["modules"][mi]["wires"][-1]["port"] is not None:
                d["modules"][mi]["wires"][-1]["port"] = None
            out.append(("mut-duplicate-name", d, e))
        ports = [w for w in m["wires"] if w["port"] is not None]
        if ports:
            d, e = clone()
            top = max(ports, key=lambda w: w["port"][1])
            for w in d["modules"][mi]["wires"]:
                if w["name"] == top["name"]:
                    w["port"][1] += 1
            out.append(("mut-sparse-port-index", d, e))
        ins = [w for w in m["wires"] if w["port"] is not None and w["port"][0] == "input" and w["width"] > 0]
        if ins:
            d, e = clone()
            w = ins[0]
            d["modules"][mi]["connects"].append([["wire", w["name"]], ["const", ["bits", "0" * w["width"]]]])
            out.append(("mut-driven-input", d, e))
        for ci, c in enumerate(m["cells"]):
            if not c["type"].startswith("$") and any(mm["name"] == c["type"] for mm in mods):
                d, e = clone()
                d["modules"][mi]["cells"][ci]["type"] = c["type"] + "!"
                out.append(("mut-unknown-module", d, e))
                break
    for fi, f in enumerate(ex):
        d, e = clone()
        e[fi]["params"].append(["\\not given", ["int", 1]])
        out.append(("mut-instance-param", d, e))
        for key in ("params", "attrs"):
            for pi, (pn, x) in enumerate(f[key]):
                if x[0] == "int":
                    d, e = clone()
                    n = x[1]
                    # attributes are written without a `signed` marker, so e.g. -10 and 4294967286 are the same text
                    # (32'1...0110): an attribute mutation must change the low bit to be distinguishable at all
                    e[fi][key][pi][1] = ["int", rng.choice([n + 1, n - 1, -n - 1, n ^ (1 << max(0, n.bit_length() - 1)), n + (1 << 32)]
                                                           if key == "params" else [n + 1, n - 1, n ^ 1])]
                    out.append((f"mut-instance-{key[:-1]}-value", d, e))
                    break
        for mi2, m2 in enumerate(mods):
            for ci, c in enumerate(m2["cells"]):
                if m2["name"] == f["module"] and c["name"] == f["cell"]:
                    for pi, (pn, fl, cst) in enumerate(c["parameters"]):
                        if cst[0] == "bits" and cst[1]:
                            d, e = clone()
                            k = rng.randrange(len(cst[1]))
                            digits = cst[1]
                            d["modules"][mi2]["cells"][ci]["parameters"][pi][2] = \
                                ["bits", digits[:k] + ("1" if digits[k] == "0" else "0") + digits[k + 1:]]
                            out.append(("mut-text-param-digit", d, e))
                            d, e = clone()
                            d["modules"][mi2]["cells"][ci]["parameters"][pi][2] = ["bits", digits[0] + digits]
                            if fl != "signed":
                                d["modules"][mi2]["cells"][ci]["parameters"][pi][2] = ["bits", "1" + digits]
                            out.append(("mut-text-param-width", d, e))
                            if fl == "signed":
                                d, e = clone()
                                d["modules"][mi2]["cells"][ci]["parameters"][pi][1] = ""
                                out.append(("mut-text-param-unsigned", d, e))
                            break
        d, e = clone()
        e[fi]["type"] = e[fi]["type"] + "x"
        out.append(("mut-instance-type", d, e))
        if f["ports"]:
            d, e = clone()
            e[fi]["ports"][0]["width"] += 1
            out.append(("mut-instance-port-width", d, e))
    rng.shuffle(out)
    return out


def gen_cases(tier, seed):
    import common
    common.setup_env()
    rng = random.Random(seed)
    thorough = tier == "thorough"
    cases = []
    for D in fixed_designs():
        cases.append({"kind": "design", "d": D})
    # former S3 (fixed in cb9d97a): signals a, a$k, a in one module (k = the size of the name set when the third is
    # added, k = 3 here, used to trip an assertion); kept so that a regression is seen
    for k in range(1, 6):
        S = lambda n, w: {"n": n, "w": w, "s": False, "i": 0}
        cases.append({"kind": "design", "d": {
            "sigs": [S("a", 1), S(f"a${k}", 1), S("a", 1), S("o", 1)], "ios": [],
            "mods": [{"n": None, "doms": [], "items": [],
                      "st": [["comb", [["eq", ["s", 3], ["b", "^", ["s", 0], ["b", "^", ["s", 1], ["s", 2]]]]]]]}],
            "ports": [["s", 3, None, None]]}})
    # second collision class: a private signal crossing a module boundary is given the port name port$<cell>$<bit>
    S = lambda n, w: {"n": n, "w": w, "s": False, "i": 0}
    for k in range(0, 3):
        cases.append({"kind": "design", "d": {
            "sigs": [S("i", 1), S("", 1), S(f"port${k}$0", 4), S("o", 4)], "ios": [],
            "mods": [{"n": None, "doms": [], "items": [["mod", 1, "sub"]], "st": [["comb", [["eq", ["s", 1], ["u", "~", ["s", 0]]]]]]},
                     {"n": None, "doms": [], "items": [], "st": [["comb", [["eq", ["s", 3], ["b", "+", ["s", 2], ["s", 1]]]]]]}],
            "ports": [["s", 0, None, None], ["s", 2, None, None], ["s", 3, None, None]]}})
    for why, text in HAND_POS:
        cases.append({"kind": "design_text", "why": why, "text": text})
    for why, text in HAND_NEG:
        cases.append({"kind": "neg", "why": why, "text": text})
    n_designs = 260 if not thorough else 1000
    n_mut_src = 12 if not thorough else 40
    made = 0
    skipped = 0
    skipped_by = {}
    mut_pool = []
    while made < n_designs:
        D = gen_design(rng, dollar=(rng.random() < 0.06), ws=(rng.random() < 0.03), zio=(rng.random() < 0.05),
                       clash=(made % 5 == 4))
        ok, err = legal(D)
        if not ok:
            skipped += 1
            skipped_by[err[0]] = skipped_by.get(err[0], 0) + 1
            if skipped > 20 * n_designs:
                break
            continue
        cases.append({"kind": "design", "d": D})
        made += 1
        if err is None and len(mut_pool) < n_mut_src and (made % 7 == 0):
            mut_pool.append(D)
    import re
    n_text = 0
    for D in mut_pool:
        _st, text, doc, ex, _err = analyse(D)
        lines = text.split("\n")
        cand = [i for i, l in enumerate(lines) if re.match(r"^\s+assign \S", l) and not l.rstrip().endswith("{  }")]
        if cand:
            i = rng.choice(cand)
            m = re.match(r"^(\s+assign )(\{.*?\}|\S+(?: \[[0-9:]+\])?) (.*)$", lines[i])
            if m:
                lines[i] = f"{m.group(1)}{m.group(2)} {{ 1'0 {m.group(3)} }}"
                cases.append({"kind": "neg", "why": "mut-text-assign-width", "text": "\n".join(lines), "ex": ex})
                n_text += 1
    for D in mut_pool:
        _st, _text, doc, ex, _err = analyse(D)
        muts = mutate(rng, doc, ex)
        seen = set()
        n_other = 0
        for why, d2, e2 in muts:
            if why in seen:
                continue
            seen.add(why)
            value_mut = why.endswith("-value") or why.startswith("mut-text-param")
            if not value_mut:
                n_other += 1
                if n_other > 4:
                    continue
            cases.append({"kind": "neg", "why": why, "doc": d2, "ex": e2})
    # names: batches of _add_name sequences
    import itertools
    alpha = ["a", "b", "a$1", "a$2"]
    seqs = []
    for n in range(0, 5):
        for ws in itertools.product(alpha, repeat=n):
            seqs.append([[], list(ws)])
    for _ in range(400 if not thorough else 3000):
        pool = ["a", "b", "c", "a$1", "a$2", "a$3", "a$4", "b$2", "b$3", "a$2$3", "clk", "rst", "", "$", "a$"]
        res = sorted(set(rng.choice(pool) for _ in range(rng.randrange(0, 4))))
        seqs.append([res, [rng.choice(pool) for _ in range(rng.randrange(1, 8))]])
    for i in range(0, len(seqs), 150):
        cases.append({"kind": "names", "items": seqs[i:i + 150]})
    GEN_STATS["skipped_illegal"] = skipped
    GEN_STATS["skipped_by"] = skipped_by
    return cases


GEN_STATS = {}

"""C14 — interface signatures, flipping and connect() preserve direction and data flow."""
import copy, itertools, random, re
from common import z, zlist, blit

ID = "C14"
LEVEL = "proof"
PROPS_FILE = "C14.v"
RUN_MODULE = "RunC14"
TRANSLATOR_UNITS = ["wiring"]
SHARD = 250
RULE = ("signature trees built with the real API: (1) exhaustive chains of nested interface members "
        "(every In/Out x FlippedSignature-wrapper combination, depth <= 3, sampled at depth 4) and all 1-member / sampled "
        "2-member signatures over a 45-member alphabet; (2) seeded random trees depth <= 4, <= 4 members per level, dims in "
        "{(),(1,),(2,),(2,3),(0,)}, shapes unsigned/signed/int/range/enum, inits incl. None and non-representable ones "
        "(also in the exhaustive alphabet and the input-only tuples; histogram tag +oor); "
        "for each: members.flatten of sig / sig.flip(), flatten(obj)+is_compliant for create / flip().create / flipped(), "
        "metadata, connect on tuples of 2-4 interfaces (statements added + simulation), every single-point corruption "
        "(drop/rename member, width, init, flip a leaf or an interface, port<->interface, dims, several outputs, constants, "
        "non-compliant attribute) compared on the error kind; (3) the same signatures against the SPEC answers "
        "(created interface complies and flattens to the specification leaves; connect assigns every input from the one output). "
        "(4) input-only leaves: tuples of 2-4 interfaces with one Out/In-paired data leaf next to a leaf that is In in every "
        "argument (flat / through In(sig), sig.flip() routes / arrayed), differing in width, signedness, init in one argument "
        "or not at all, both argument orders, with and without any output. "
        "(5) aggregate-shaped ports: StructLayout / ArrayLayout / Struct classes with dict, list, partial and absent inits "
        "(leaves are data.View objects), signed enums; keyword arguments to connect; flipped() applied 2 and 3 times; "
        "Member.flip(); annotated Signature subclasses in metadata; the str order behind the integer name ranks. "
        "After a successful connect the values read in simulation are predicted by the model from its assignment list. "
        "non-trivial = at least one port leaf and, for connect, at least 2 arguments; distinct by case hash")
MARK = -777777
MODELLED = ("wiring.py Member/Signature/FlippedSignature(+Members), flatten, create, is_compliant, FlippedInterface "
            "attribute access, flipped(), connect(), ComponentMetadata.as_json are modelled in coq/Model/Wiring.v; "
            "range / plain-Enum port shapes are cast by Model/Shape.v and layout inits packed by RunC14.pack inside Coq; "
            "shape casting of the other descriptions (C10), Signal naming, Module statement storage, the simulator (used as "
            "an oracle for data flow) and jschon validation against the published schema are validated only")
ASSUMPTIONS = ["member names are compared as integers ranked in Python str order",
               "dict keys are distinct (NoDup names) in theorem hypotheses"]

POOL = sorted(["a", "B", "a_b", "a0", "aB", "ab", "b", "Ba", "z9", "c_1"])
RANK = {n: i for i, n in enumerate(POOL)}
ERR = {"ENotCompliant": 1, "EMissing": 2, "ESigPort": 3, "EWidth": 4, "EInit": 5, "ESeveral": 6, "EConstVar": 7,
       "EConstDiff": 8, "EOnlyIn": 9, "ETypeErr": 10, "EAttr": 11, "EAssertDims": 12, "EIndex": 13}
ERRN = {v: k for k, v in ERR.items()}


# ------------------------------------------------------------------ helpers on JSON signatures
def bits_for(n, signed):
    if n >= 0:
        b = n.bit_length() if n > 0 else 0
        return b + 1 if signed else b
    return (-n - 1).bit_length() + 1 if n < -1 else 1


AGG = ("struct", "array", "structcls")
NAMES0 = ["a", "B", "a_b", "a0", "aB", "ab", "b", "Ba", "z9", "c_1"]    # POOL before sorting


def agg_fields(sd, init):
    """scalar fields (width, signed, value) of a data layout in layout order (least significant first);
    omitted fields: 0 for StructLayout/ArrayLayout, the declared default for a Struct class."""
    k = sd[0]
    out = []
    if k == "array":
        vals = init if init is not None else [0] * sd[3]
        return [(sd[1], sd[2], v) for v in vals]
    d = init or {}
    for f in sd[1]:
        if f[1] == "arr":
            vals = d.get(f[0], [0] * f[4])
            out += [(f[2], f[3], v) for v in vals]
        else:
            dflt = (f[3] if k == "structcls" and f[3] is not None else 0)
            out.append((f[1], f[2], d.get(f[0], dflt)))
    return out


def pack_py(fields):
    v, off = 0, 0
    for w, sg, x in fields:
        v |= (x & ((1 << w) - 1)) << off
        off += w
    return v


def leaf_init(sd, init):
    if sd[0] in AGG:
        return pack_py(agg_fields(sd, init))
    return init or 0


def cast_shape(sd):
    k = sd[0]
    if k in AGG:
        return (sum(f[0] for f in agg_fields(sd, None)), False)
    if k in ("u", "int"):
        return (sd[1], False)
    if k == "s":
        return (sd[1], True)
    if k == "range":
        a, b = sd[1], sd[2]
        sg = a < 0
        return (max(bits_for(a, sg), bits_for(b - 1, sg)), sg)
    if k in ("enum", "pyenum"):
        if k == "enum":
            return (sd[2], sd[3])
        return (max(max(1, bits_for(v, False)) for v in sd[1]), False)   # amaranth bits_for(0) == 1
    raise ValueError(sd)


def fits(sd, init):
    if sd[0] in AGG:
        return True
    w, sg = cast_shape(sd)
    v = init or 0
    return (-(1 << (w - 1)) <= v < (1 << (w - 1))) if sg else (0 <= v < (1 << w))


def walk_members(ms, f, path=()):
    for n, m in ms:
        f(path + (n,), m)
        if m[0] == "i":
            walk_members(m[3], f, path + (n,))


def has_oor_init(sig):
    bad = []
    walk_members(sig["ms"], lambda p, m: bad.append(1) if m[0] == "p" and not fits(m[2], m[3]) else None)
    return bool(bad)


def has_iface_dims(sig):
    bad = []
    walk_members(sig["ms"], lambda p, m: bad.append(1) if m[0] == "i" and m[4] else None)
    return bool(bad)


def idx_paths(dims):
    if not dims:
        return [()]
    return [(i,) + r for i in range(dims[0]) for r in idx_paths(dims[1:])]


def spec_leaves(sig):
    """(path, effective flow, (w, sg), raw init) by the parity rule (independent of model and code)."""
    out = []

    def rec(ms, par, pre):
        for n, m in ms:
            for idx in idx_paths(m[4] if m[0] == "i" else m[4]):
                p = pre + (n,) + idx
                if m[0] == "p":
                    out.append((p, (m[1] + par) % 2, cast_shape(m[2]), leaf_init(m[2], m[3])))
                else:
                    rec(m[3], (par + m[1] + int(m[2])) % 2, p)
    rec(sig["ms"], int(sig["w"]), ())
    return out


def walk_ports(sig, f):
    def rec(ms, par):
        for n, m in ms:
            if m[0] == "p":
                f((m[1] + par) % 2)
            else:
                rec(m[3], (par + m[1] + int(m[2])) % 2)
    rec(sig["ms"], int(sig["w"]))


def n_leaves(sig):
    return len(spec_leaves(sig))


# ------------------------------------------------------------------ generators
def rnd_shape(rng):
    r = rng.random()
    if r < 0.4:
        return ["u", rng.choice((0, 1, 1, 2, 3, 4, 8))]
    if r < 0.6:
        return ["s", rng.choice((1, 2, 3, 5, 8))]
    if r < 0.7:
        return ["int", rng.choice((1, 2, 4))]
    if r < 0.8:
        a = rng.choice((0, 0, -3, 2))
        return ["range", a, a + rng.randrange(1, 9)]
    if r < 0.86:
        vals = sorted(rng.sample(range(0, 8), rng.randrange(1, 4)))
        return ["enum", vals, 3, False]
    if r < 0.9:
        return ["enum", sorted(rng.sample(range(-4, 4), rng.randrange(1, 4))), 3, True]     # signed enum
    if r < 0.95:
        return ["pyenum", sorted(rng.sample(range(0, 6), rng.randrange(1, 4)))]
    return rnd_agg(rng)


def rnd_agg(rng):
    def sc():
        sg = rng.random() < 0.4
        return rng.randrange(1 if sg else 0, 5), sg
    r = rng.random()
    if r < 0.3:
        w, sg = sc()
        return ["array", w, sg, rng.randrange(0, 4)]
    fields = []
    for fn in rng.sample(["x", "y", "zz", "k9"], rng.randrange(1, 4)):
        w, sg = sc()
        if r < 0.65:
            if rng.random() < 0.3:
                fields.append([fn, "arr", w, sg, rng.randrange(1, 3)])
            else:
                fields.append([fn, w, sg])
        else:
            lo, hi = (-(1 << (w - 1)), 1 << (w - 1)) if sg else (0, 1 << w)
            fields.append([fn, w, sg, rng.randrange(lo, hi) if rng.random() < 0.5 and hi > lo else None])
    return ["struct" if r < 0.65 else "structcls", fields]


def rnd_val(rng, w, sg):
    lo, hi = (-(1 << (w - 1)), 1 << (w - 1)) if sg else (0, 1 << w)
    return rng.randrange(lo, hi) if hi > lo else 0


def rnd_init(rng, sd, oor=0.05):
    k = sd[0]
    if k == "array":
        return None if rng.random() < 0.3 else [rnd_val(rng, sd[1], sd[2]) for _ in range(sd[3])]
    if k in ("struct", "structcls"):
        if rng.random() < 0.25:
            return None
        d = {}
        for f in sd[1]:
            if rng.random() < 0.75:     # partial dict inits leave fields at 0 / their default
                d[f[0]] = [rnd_val(rng, f[2], f[3]) for _ in range(f[4])] if f[1] == "arr" else rnd_val(rng, f[1], f[2])
        return d
    w, sg = cast_shape(sd)
    if k == "range":
        return rng.randrange(sd[1], sd[2])
    if k in ("enum", "pyenum"):
        return rng.choice(sd[1])
    r = rng.random()
    if r < 0.45:
        return None
    lo, hi = (-(1 << (w - 1)), (1 << (w - 1))) if sg else (0, 1 << w)
    if r < 1 - oor:
        return rng.randrange(lo, hi)
    return rng.choice((hi, hi + 1, lo - 1, -1 if not sg else hi + 2))


def rnd_dims(rng, iface=False):
    r = rng.random()
    if iface:
        return [] if r < 0.9 else rng.choice(([2], [1], [0], [2, 3]))
    if r < 0.7:
        return []
    return rng.choice(([1], [2], [2], [2, 3], [0]))


def rnd_ms(rng, depth, maxm=4, oor=0.05, ifd=True):
    ms = []
    names = rng.sample(POOL, rng.randrange(1, maxm + 1))
    for n in names:
        if depth > 1 and rng.random() < 0.45:
            sub = rnd_ms(rng, depth - 1, maxm, oor, ifd)
            ms.append([n, ["i", rng.randrange(2), rng.random() < 0.3, sub, rnd_dims(rng, True) if ifd else []]])
        else:
            sd = rnd_shape(rng)
            ms.append([n, ["p", rng.randrange(2), sd, rnd_init(rng, sd, oor), rnd_dims(rng)]])
    return ms


def rnd_sig(rng, depth, oor=0.05, ifd=True):
    for _ in range(50):
        s = {"w": rng.random() < 0.3, "ms": rnd_ms(rng, depth, 4, oor, ifd)}
        if 1 <= n_leaves(s) <= 30:
            return s
    return {"w": False, "ms": [["a", ["p", 0, ["u", 1], None, []]]]}


def chain_sigs(depth):
    """a single port under `depth` nested interface members: every flow / wrapper combination."""
    out = []
    for flows in itertools.product((0, 1), repeat=depth + 1):
        for wraps in itertools.product((False, True), repeat=depth + 1):
            m = ["p", flows[0], ["u", 2], 1, []]
            for d in range(depth):
                m = ["i", flows[d + 1], wraps[d + 1], [[POOL[d % 3], m]], []]
            out.append({"w": wraps[0], "ms": [["ab", m]]})
    return out


def alphabet():
    ports = [["p", 0, ["u", 1], None, []], ["p", 1, ["u", 1], None, []], ["p", 0, ["s", 2], -1, []],
             ["p", 1, ["u", 2], 1, []], ["p", 0, ["u", 1], None, [2]], ["p", 1, ["u", 1], 0, [2]],
             ["p", 0, ["u", 3], None, [0]], ["p", 1, ["u", 1], None, [2, 3]]]
    inner = [[["a", ports[0]]], [["a", ports[1]]], [["a", ports[0]], ["b", ports[3]]]]
    # initial values that are not representable in the port's shape (brought into the shape like Signal(init=) does)
    ports += [["p", 0, ["u", 2], 5, []], ["p", 1, ["s", 2], 3, [2]], ["p", 0, ["u", 0], 1, []], ["p", 1, ["u", 3], -1, []],
              ["p", 0, ["s", 3], -13, []]]
    inner.append([["a", ports[8]], ["b", ports[9]]])
    ifs = [["i", f, w, s, d] for f in (0, 1) for w in (False, True) for s in inner for d in ([], [2])]
    return ports + ifs


def arg(sig=0, fs=False, fo=False, edits=()):
    return {"sig": sig, "fs": fs, "fo": fo, "edits": list(edits)}


VARIANTS = [(False, False), (True, False), (False, True), (True, True)]


def tuples_for(rng, sig, many):
    """argument tuples (all from signature 0) whose observable signatures are x / flip x."""
    out = [[arg(0, False, False), arg(0, True, False)], [arg(0, False, False), arg(0, False, True)]]
    if many:
        out += [[arg(0, True, True), arg(0, True, False)], [arg(0, True, False), arg(0, False, False)],
                [arg(0, False, False)], [arg(0, False, False), arg(0, False, False)],
                [arg(0, False, False), arg(0, True, False), arg(0, False, True)],
                [arg(0, False, 2), arg(0, True, 2)], [arg(0, True, 3), arg(0, False, 0)],
                [arg(0, True, False), arg(0, False, False), arg(0, True, True), arg(0, False, True)]]
    else:
        n = rng.randrange(2, 5)
        out.append([arg(0, *rng.choice(VARIANTS)) for _ in range(n)])
    return out


def mutate_sig(rng, sig):
    """single-point corruptions of a signature: list of (kind, sig')."""
    nodes = []
    walk_members(sig["ms"], lambda p, m: nodes.append(p))
    outs = []

    def at(s, p):
        ms = s["ms"]
        for i, n in enumerate(p):
            ent = next(e for e in ms if e[0] == n)
            if i == len(p) - 1:
                return ms, ent
            ms = ent[1][3]

    for p in nodes:
        s = copy.deepcopy(sig)
        ms, ent = at(s, p)
        m = ent[1]
        cand = ["drop", "rename", "flip"]
        if m[0] == "p":
            cand += ["width", "init", "toiface", "dims"]
        else:
            cand += ["wrap", "toport", "dims"]
        for k in cand:
            s = copy.deepcopy(sig)
            ms, ent = at(s, p)
            m = ent[1]
            if k == "drop":
                ms.remove(ent)
            elif k == "rename":
                free = [n for n in POOL if n not in [e[0] for e in ms]]
                if not free:
                    continue
                ent[0] = rng.choice(free)
            elif k == "flip":
                m[1] ^= 1
            elif k == "width":
                w, sg = cast_shape(m[2])
                if m[2][0] in AGG:
                    m[3] = leaf_init(m[2], m[3])
                m[2] = ["s" if sg else "u", w + 1]
            elif k == "init":
                w, sg = cast_shape(m[2])
                if w == 0 or m[2][0] not in ("u", "s", "int"):
                    continue
                m[3] = ((m[3] or 0) + 1) if fits(m[2], (m[3] or 0) + 1) else (m[3] or 0) - 1
            elif k == "toiface":
                ent[1] = ["i", m[1], False, [["a", ["p", 0, ["u", 1], None, []]]], []]
            elif k == "toport":
                ent[1] = ["p", m[1], ["u", 1], None, []]
            elif k == "wrap":
                m[2] = not m[2]
            elif k == "dims":
                m[4] = [2] if m[4] != [2] else [3]
            outs.append((k, s))
    return outs


def obj_corruptions(rng, sig, nl=1):
    """edits of one leaf attribute: (kind, edits for the arg where the leaf is an input, edits for the output arg)."""
    out = []
    lv = spec_leaves(sig)
    if not lv:
        return out
    for (p, fl, (w, sg), init) in rng.sample(lv, min(nl, len(lv))):
        if w == 0:
            continue
        v = init & ((1 << w) - 1)           # the init of the created Signal: brought into the shape
        if sg and v >> (w - 1):
            v -= 1 << w
        other = v + 1 if fits(["s" if sg else "u", w], v + 1) else v - 1
        P = list(p)
        out.append(("const_both", fl, [[P, ["const", w, sg, v]]], [[P, ["const", w, sg, v]]]))
        out.append(("const_diff", fl, [[P, ["const", w, sg, v]]], [[P, ["const", w, sg, other]]]))
        out.append(("const_in_only", fl, [[P, ["const", w, sg, v]]], []))
        out.append(("const_out_only", fl, [], [[P, ["const", w, sg, other]]]))
        out.append(("bad_width", fl, [[P, ["sig", w + 1, sg, v]]], []))
        out.append(("bad_sign", fl, [], [[P, ["sig", w + (0 if sg else 1), not sg, 0]]]))
        out.append(("bad_init", fl, [[P, ["sig", w, sg, other]]], []))
        out.append(("bad_obj", fl, [], [[P, ["bad"]]]))
        out.append(("del", fl, [[P, ["del"]]], []))
        out.append(("same_sig", fl, [[P, ["sig", w, sg, init]]], []))
    return out


def gen_cases(tier, seed):
    rng = random.Random(seed)
    thorough = tier == "thorough"
    cases = [{"k": "names", "sigs": []}]

    def add_all(sig, many, corrupt):
        cases.append({"k": "members", "sigs": [sig]})
        for fs, fo in VARIANTS:
            cases.append({"k": "obj", "sigs": [sig], "args": [arg(0, fs, fo)]})
        cases.append({"k": "meta", "sigs": [sig]})
        if many:
            cases.append({"k": "meta", "sigs": [sig], "annot": True})
        cases.append({"k": "spec_create", "sigs": [sig], "fs": False})
        cases.append({"k": "spec_create", "sigs": [sig], "fs": True})
        for t in tuples_for(rng, sig, many):
            cases.append({"k": "connect", "sigs": [sig], "args": t})
            if len(t) >= 2 and rng.random() < (0.5 if many else 0.2):      # the same tuple through keyword arguments
                cases.append({"k": "connect", "sigs": [sig], "args": t, "kw": rng.randrange(1, len(t) + 1)})
        if many:
            cases.append({"k": "obj", "sigs": [sig], "args": [arg(0, rng.random() < 0.5, 2)]})
        cases.append({"k": "spec_connect", "sigs": [sig], "bs": [False, True]})
        cases.append({"k": "spec_connect", "sigs": [sig], "bs": [True, False]})
        # the flipped side built as a fresh Signature of the flipped members (no FlippedSignature/FlippedInterface proxy)
        cases.append({"k": "spec_connect", "sigs": [sig], "bs": [False, True], "mirror": True})
        flows = set()   # effective flows of the port MEMBERS (connect classifies members, also zero-length arrays)
        walk_ports(sig, lambda fl: flows.add(fl))
        if len(flows) == 1:
            one = flows == {1}
            cases.append({"k": "spec_connect", "sigs": [sig], "bs": [one, not one, not one]})
            cases.append({"k": "spec_connect", "sigs": [sig], "bs": [not one, not one, one, not one]})
        if corrupt:
            muts = mutate_sig(rng, sig)
            if corrupt < 1 and len(muts) > 6:
                muts = rng.sample(muts, 6)
            for k, s2 in muts:
                which = rng.randrange(2)
                a = [arg(0, False, False), arg(1, True, False)] if which else [arg(1, False, False), arg(0, True, False)]
                if rng.random() < 0.3:
                    a.append(arg(0, True, rng.random() < 0.5))
                cases.append({"k": "connect", "sigs": [sig, s2], "args": a, "c": "sig_" + k})
            for k, fl, e_in, e_out in obj_corruptions(rng, sig, 2 if thorough else 1):
                # arg 0 = create(x): the leaf is an input there iff fl == 1
                a0, a1 = (e_in, e_out) if fl == 1 else (e_out, e_in)
                cases.append({"k": "connect", "sigs": [sig], "args": [arg(0, False, False, a0), arg(0, True, False, a1)],
                              "c": "obj_" + k})
                cases.append({"k": "compl", "sigs": [sig], "args": [arg(0, rng.random() < 0.5, rng.random() < 0.5, e_in or e_out)],
                              "c": "obj_" + k})

    # (1) exhaustive small scope
    for d in (0, 1):
        for s in chain_sigs(d):
            add_all(s, True, 1)
    for s in chain_sigs(2):
        add_all(s, False, 1 if thorough else 0)
    for d, nq in ((3, 16), (4, 8)):
        cs = chain_sigs(d)
        for s in (cs if thorough else rng.sample(cs, nq)):
            add_all(s, False, 0)
    A = alphabet()
    for i, m in enumerate(A):
        for w in (False, True):
            add_all({"w": w, "ms": [["a", m]]}, thorough or (i + int(w)) % 4 == 0, 1 if thorough else 0.5)
    pairs = [(m1, m2) for m1 in A for m2 in A]
    for m1, m2 in rng.sample(pairs, 500 if thorough else 16):
        n1, n2 = rng.sample(POOL, 2)
        add_all({"w": rng.random() < 0.5, "ms": [[n1, copy.deepcopy(m1)], [n2, copy.deepcopy(m2)]]}, False, 0.5)
    # (1b) aggregate-shaped ports: data layouts (dict / list / partial / absent inits, Struct defaults), signed enums
    for sgn in aggregate_sigs(rng, 40 if thorough else 6):
        add_all(sgn, True, 1 if thorough else 0.5)
    # (2) seeded random trees
    N = 1200 if thorough else 30
    for i in range(N):
        depth = rng.choice((1, 2, 2, 3, 3, 4))
        s = rnd_sig(rng, depth, oor=0.1, ifd=rng.random() < 0.4)
        add_all(s, False, 0.5 if i % 2 == 0 else 0)
    # (3) a leaf that is an input in EVERY argument (no output on it): widths / inits must still agree
    cases += in_only_cases(random.Random(seed * 7919 + 14), thorough)
    return cases


def aggregate_sigs(rng, nrand):
    SL = ["struct", [["x", 3, False], ["y", 2, True], ["zz", "arr", 2, False, 2]]]
    SC = ["structcls", [["x", 2, False, 3], ["y", 3, True, None]]]
    AR = ["array", 2, True, 3]
    SE = ["enum", [-2, 1], 3, True]
    P = lambda f, sd, init, dims=(): ["p", f, sd, init, list(dims)]
    out = [
        {"w": False, "ms": [["a", P(0, SL, {"x": 5, "y": -1, "zz": [1, 2]})], ["b", P(1, SC, None)]]},
        {"w": True, "ms": [["a", P(1, SL, {"x": 1})], ["ab", P(0, SC, {"y": -2})], ["z9", P(0, SE, -2)]]},
        {"w": False, "ms": [["B", P(0, AR, [-1, 1, 0], (2,))], ["a0", P(1, AR, None)], ["c_1", P(1, SE, 1, (2,))]]},
        {"w": False, "ms": [["ab", ["i", 1, False, [["a", P(0, SL, None)], ["b", P(1, SE, 1)]], []]],
                            ["Ba", ["i", 0, True, [["a", P(0, SC, {"x": 0, "y": 3}, (2, 3))]], []]]]},
        {"w": True, "ms": [["aB", ["i", 1, True, [["a_b", ["i", 0, False, [["a", P(1, AR, [1, -2, 0])]], []]]], []]],
                           ["b", P(0, ["array", 0, False, 2], None)], ["a", P(1, ["struct", [["k9", 0, False]]], {"k9": 0})]]},
    ]
    for _ in range(nrand):
        ms = []
        for n in rng.sample(POOL, rng.randrange(1, 4)):
            sd = rnd_agg(rng) if rng.random() < 0.8 else ["enum", sorted(rng.sample(range(-4, 4), rng.randrange(1, 4))), 3, True]
            mem = ["p", rng.randrange(2), sd, rnd_init(rng, sd), rnd_dims(rng)]
            if rng.random() < 0.3:
                mem = ["i", rng.randrange(2), rng.random() < 0.3, [[rng.choice(POOL), mem]], []]
            ms.append([n, mem])
        out.append({"w": rng.random() < 0.3, "ms": ms})
    return [x for x in out if 1 <= n_leaves(x) <= 30]


def _in_route(route, sd, init, dims):
    """a member named 'ab' whose single port ('ab' itself or 'ab.a' / 'ab.b.a') has effective direction In."""
    port = lambda f: ["p", f, sd, init, dims]
    if route == "flat":
        return ["p", 1, sd, init, dims]
    if route == "in_iface":        # In(Signature({a: Out}))
        return ["i", 1, False, [["a", port(0)]], []]
    if route == "out_flipped":     # Out(Signature({a: Out}).flip())
        return ["i", 0, True, [["a", port(0)]], []]
    if route == "in_flipped":      # In(Signature({a: In}).flip())
        return ["i", 1, True, [["a", port(1)]], []]
    if route == "out_plain":       # Out(Signature({a: In}))
        return ["i", 0, False, [["a", port(1)]], []]
    raise ValueError(route)


ROUTES_FLAT = ["flat"]
ROUTES_NESTED = ["in_iface", "out_flipped", "in_flipped", "out_plain"]


def in_only_cases(rng, thorough):
    """tuples of 2..4 interfaces with a data leaf (one Out, the rest In) next to a leaf that is In everywhere;
    the input-only leaf differs in width / signedness / init in exactly one argument, or not at all."""
    base_sd, base_init = ["u", 3], 2
    variants = [("equal", ["u", 3], 2), ("width", ["u", 4], 2), ("sign", ["s", 3], 2), ("init", ["u", 3], 3),
                ("oor_equal", ["u", 3], 10), ("oor_init", ["u", 3], 11), ("oor_sign_equal", ["s", 3], -6),
                ("width_sign", ["s", 4], 2), ("none_vs_0", ["u", 3], None),
                ("agg_equal", ["struct", [["x", 1, False], ["y", 2, False]]], {"y": 1}),       # unsigned(3), packed 2
                ("agg_init", ["struct", [["x", 1, False], ["y", 2, False]]], {"x": 1, "y": 1}),
                ("agg_width", ["array", 2, False, 2], [2, 0])]
    out = []
    dimss = ([], [2], [2, 3]) if thorough else ([], [2])
    ks = (2, 3, 4) if thorough else (2, 3)
    for nested in (False, True):
        routes = ROUTES_NESTED if nested else ROUTES_FLAT
        for dims in dimss:
            for vname, vsd, vinit in variants:
                for k in ks:
                    for with_data in (True, False) if (thorough or (k == 2 and not dims)) else (True,):
                        reps = 2 if (nested or thorough) else 1
                        for _ in range(reps):
                            bi = 0 if vname == "none_vs_0" else base_init
                            odd = rng.randrange(k)            # the argument that differs
                            dname = rng.choice(("B", "z9"))   # data leaf sorts before / after the input-only one
                            sigs = []
                            for h in range(k):
                                sd, init = (vsd, vinit) if h == odd else (base_sd, bi)
                                ms = [["ab", _in_route(rng.choice(routes), sd, init, dims)]]
                                if with_data:
                                    ms.append([dname, ["p", 0 if h == 0 else 1, ["u", 2], 1, []]])
                                    if rng.random() < 0.5:
                                        ms.reverse()
                                sigs.append({"w": False, "ms": ms})
                            order = list(range(k))
                            for rev in (False, True):
                                o = list(reversed(order)) if rev else order
                                out.append({"k": "connect", "sigs": sigs, "args": [arg(h, False, False) for h in o],
                                            "kw": rng.choice((0, 0, 1, k)),
                                            "c": "inonly_" + vname + ("" if with_data else "_nodata")})
    return out


# ------------------------------------------------------------------ classification
def has_agg(c):
    found = []
    for sg in c["sigs"]:
        walk_members(sg["ms"], lambda p, m: found.append(1) if m[0] == "p" and (
            m[2][0] in AGG or (m[2][0] == "enum" and m[2][3])) else None)
    return bool(found)


def classify(c):
    k = c["k"]
    tag = ("+agg" if has_agg(c) else "") + ("+kw" if c.get("kw") else "") + \
          ("+oor" if any(has_oor_init(sg) for sg in c["sigs"]) else "")
    if k in ("connect", "compl"):
        return k + ":" + c.get("c", "ok-tuple%d" % len(c["args"])) + tag
    return k + tag


def nontrivial(c, obs):
    if c["k"] == "names":
        return True
    if n_leaves(c["sigs"][0]) == 0:
        return False
    if c["k"] == "connect" and len(c["args"]) < 2:
        return False
    return True


def known_finding(c, obs, model):
    """a spec-level mismatch is a listed finding only if (a) the faithful model reproduces the implementation's
    observation exactly (second halves equal) and (b) the observation and the input are of that finding's class."""
    if not c["sigs"] or c["k"] not in ("spec_create", "spec_connect") or MARK not in obs or MARK not in model:
        return None
    io, im = obs.index(MARK), model.index(MARK)
    if obs[io + 1:] != model[im + 1:]:
        return None                      # the faithful model does not explain the observation: an ordinary violation
    obs = obs[:io]
    sig = c["sigs"][0]
    if c["k"] == "spec_create":
        if obs[:2] == [-1, ERR["ETypeErr"]] and has_iface_dims(sig):
            return "C14-flipped-array-of-interfaces"
    if c["k"] == "spec_connect":
        if obs[:2] == [0, ERR["ETypeErr"]] and has_iface_dims(sig):
            return "C14-flipped-array-of-interfaces"
        if obs[:2] == [0, ERR["EAttr"]] and has_iface_dims(sig):
            return "C14-connect-array-of-interfaces"
    return None


def explain(c):
    return ("names are ranks in %r; error kinds %r; connect answer = [1, n, (handle, path, handle, path)*, n_reads, values read in simulation*] "
            "or [0, kind]; paths = [len, (0,name)|(1,index)...]" % (POOL, ERR))


# ------------------------------------------------------------------ implementation side
_enum_cache = {}


def _shape(sd):
    from amaranth.hdl import unsigned, signed, Shape
    import enum as pyenum
    from amaranth.lib import enum as aenum
    k = sd[0]
    if k == "u":
        return unsigned(sd[1])
    if k == "s":
        return signed(sd[1])
    if k == "int":
        return sd[1]
    if k == "range":
        return range(sd[1], sd[2])
    key = repr(sd)
    if k in AGG and key not in _enum_cache:
        from amaranth.lib import data
        sh = lambda w, sg: Shape(w, sg)
        if k == "array":
            _enum_cache[key] = data.ArrayLayout(sh(sd[1], sd[2]), sd[3])
        elif k == "struct":
            _enum_cache[key] = data.StructLayout({f[0]: (data.ArrayLayout(sh(f[2], f[3]), f[4]) if f[1] == "arr"
                                                         else sh(f[1], f[2])) for f in sd[1]})
        else:
            ns = {"__annotations__": {f[0]: sh(f[1], f[2]) for f in sd[1]}}
            ns.update({f[0]: f[3] for f in sd[1] if f[3] is not None})
            _enum_cache[key] = type("St", (data.Struct,), ns)
    if key not in _enum_cache:
        if k == "enum":
            import types
            _enum_cache[key] = types.new_class("E", (aenum.Enum,), {"shape": Shape(sd[2], sd[3])},
                                               lambda ns: [ns.__setitem__(f"M{v}", v) for v in sd[1]])
        else:
            _enum_cache[key] = pyenum.Enum("Q", {f"M{v}": v for v in sd[1]})
    return _enum_cache[key]


def _init(sd, init):
    if sd[0] in ("enum", "pyenum") and init is not None:
        return _shape(sd)(init)
    return init


def build_members(ms):
    from amaranth.lib import wiring
    d = {}
    for n, m in ms:
        fl = wiring.In if m[1] else wiring.Out
        if m[0] == "p":
            mem = fl(_shape(m[2]), init=_init(m[2], m[3]))
        else:
            sub = wiring.Signature(build_members(m[3]))
            mem = fl(sub.flip() if m[2] else sub)
        if m[4]:
            mem = mem.array(*m[4])
        d[n] = mem
    return d


def build_sig(sj):
    from amaranth.lib import wiring
    s = wiring.Signature(build_members(sj["ms"]))
    return s.flip() if sj["w"] else s


class _Bad:
    def __repr__(self):
        return "<bad>"


def build_edit(e, name):
    from amaranth.hdl import Signal, Const, Shape
    if e[0] == "sig":
        return Signal(Shape(e[1], e[2]), init=e[3], name=name)
    if e[0] == "const":
        return Const(e[3], Shape(e[1], e[2]))
    if e[0] == "bad":
        return _Bad()
    raise ValueError(e)


def build_arg(k, a, sigs):
    from amaranth.lib import wiring
    x = sigs[a["sig"]]
    if a["fs"]:
        x = x.flip()
    o = x.create(path=(f"o{k}",))
    for p, e in a["edits"]:
        def raw(q):   # edits are made on the underlying objects (port attributes are not affected by the proxies)
            return wiring.flipped(q) if type(q) is wiring.FlippedInterface else q
        parent = raw(o)
        for it in p[:-1]:
            parent = raw(parent[it] if isinstance(it, int) else getattr(parent, it))
        last = p[-1]
        if e[0] == "del":
            if isinstance(last, int):
                del parent[last]
            else:
                delattr(parent, last)
        else:
            v = build_edit(e, "__".join([f"o{k}"] + [str(i) for i in p]))
            if isinstance(last, int):
                parent[last] = v
            else:
                setattr(parent, last, v)
    for i in range(int(a["fo"])):
        o2 = wiring.flipped(o)
        if type(o) is not wiring.FlippedInterface and wiring.flipped(o2) is not o:   # flipped(flipped(x)) is x
            raise AssertionError("flipped(flipped(o)) is not o")
        o = o2
    return o


def e_path(p):
    out = [len(p)]
    for it in p:
        out += [1, it] if isinstance(it, int) else [0, RANK[it]]
    return out


def e_name(name):
    toks = name.split("__")
    out = [len(toks), 0, int(toks[0][1:])]
    for t in toks[1:]:
        out += [1, int(t)] if t.isdigit() else [0, RANK[t]]
    return out


def e_member(m):
    from amaranth.hdl import Shape
    out_dims = [len(m.dimensions)] + list(m.dimensions)
    if m.is_port:
        sh = Shape.cast(m.shape)
        return [0, int(m.flow.name == "In"), sh.width, int(sh.signed), m._init_as_const.value] + out_dims
    return [1, int(m.flow.name == "In")] + out_dims


def e_leaf(path, mem, value):
    from amaranth.hdl import Shape, Value, Signal, Const
    sh = Shape.cast(mem.shape)
    out = e_path(path) + [int(mem.flow.name == "In"), sh.width, int(sh.signed), mem._init_as_const.value]
    try:
        v = Value.cast(value)
    except Exception:
        return out + [3]
    if isinstance(v, Signal):
        return out + [1] + e_name(v.name) + [len(v), int(v.shape().signed), v.init]
    if isinstance(v, Const):
        return out + [2, len(v), int(v.shape().signed), v.value]
    return out + [3]


def exc_code(e):
    n = type(e).__name__
    msg = str(e)
    if n == "ConnectionError":
        for pat, code in (("does not match its signature", 1), ("is present in", 2), ("Cannot connect signature member", 3),
                          ("shape widths", 4), ("initial values do not match", 5), ("several output members", 6),
                          ("varying value", 7), ("different constant value", 8), ("Only input to input", 9)):
            if pat in msg:
                return code
        return 99
    return {"TypeError": 10, "AttributeError": 11, "AssertionError": 12, "IndexError": 13}.get(n, 98)


def leaf_maps(objs):
    from amaranth.hdl import Value
    ident = {}
    per = []
    for k, o in enumerate(objs):
        lv = list(o.signature.flatten(o))
        per.append(lv)
        for pos, (p, mem, v) in enumerate(lv):
            ident[id(Value.cast(v))] = (k, p, pos)
    return ident, per


def sim_check(m, objs, per):
    """after connect: drive every output leaf with a distinct value, read every input leaf."""
    from amaranth.hdl import Value, Signal, Const
    from amaranth.sim import Simulator
    bypath = {}
    for k, lv in enumerate(per):
        for p, mem, v in lv:
            bypath.setdefault(p, []).append((mem.flow.name, Value.cast(v)))
    drives, expect = [], []
    cnt = 1
    for p, lst in bypath.items():
        outs = [v for f, v in lst if f == "Out"]
        val = {}
        for v in outs:
            if isinstance(v, Signal):
                cnt = (cnt * 37 + 11) % 1021
                val[id(v)] = Const(cnt, v.shape()).value
                drives.append((v, val[id(v)]))
        for f, v in lst:
            if f == "In" and isinstance(v, Signal):
                if len(outs) == 1:
                    src = outs[0]
                    sv = val[id(src)] if isinstance(src, Signal) else src.value
                    expect.append((v, Const(sv, v.shape()).value))
                elif len(outs) == 0:
                    expect.append((v, v.init))
                else:
                    return 0
    if not expect:
        return 1
    res = []

    async def tb(ctx):
        for s, v in drives:
            ctx.set(s, v)
        for s, v in expect:
            res.append(ctx.get(s) == v)
    sim = Simulator(m)
    sim.add_testbench(tb)
    sim.run()
    return int(all(res) and len(res) == len(expect))


def run_connect(objs, kw=0):
    """connect(m, *objs[:n-kw], k0=..., k1=...): the last `kw` arguments are passed by keyword."""
    from amaranth.hdl import Module, Signal
    from amaranth.lib import wiring
    m = Module()
    npos = len(objs) - kw
    try:
        wiring.connect(m, *objs[:npos], **{f"k{i}": o for i, o in enumerate(objs[npos:])})
    except Exception as e:
        return None, None, None, [0, exc_code(e)]
    ident, per = leaf_maps(objs)
    st = []
    for s in m._statements.get("comb", []):
        pair = (ident[id(s.lhs)], ident[id(s.rhs)])
        # cross-check the identity map (built with the implementation's flatten) against the signal names
        for v, (k, p, _) in zip((s.lhs, s.rhs), pair):
            if isinstance(v, Signal) and e_name(v.name) != [1 + len(p), 0, k] + e_path(p)[1:]:
                return None, None, None, [-7, k]
        st.append(pair)
    return m, st, per, None


def sim_values(m, objs, per):
    """drive the n-th output leaf that is a Signal (arguments in order, leaves in flatten order) with (37 n + 11) mod 1021,
    read every input leaf that is a Signal in the same order; the model predicts these values from its assignment list."""
    from amaranth.hdl import Value, Signal, Const
    from amaranth.sim import Simulator
    drives, reads, n = [], [], 0
    for lv in per:
        for p, mem, v in lv:
            vv = Value.cast(v)
            if isinstance(vv, Signal):
                if mem.flow.name == "Out":
                    n += 1
                    drives.append((vv, Const((37 * n + 11) % 1021, vv.shape()).value))
                else:
                    reads.append(vv)
    res = []
    if reads:
        async def tb(ctx):
            for s_, v in drives:
                ctx.set(s_, v)
            for s_ in reads:
                res.append(ctx.get(s_))
        sim = Simulator(m)
        sim.add_testbench(tb)
        sim.run()
    return [len(reads)] + res


def run_impl(c):
    from amaranth.lib import wiring
    k = c["k"]
    if k == "names":      # Python's order on member names (str) that the integer ranks stand for
        return [sorted(NAMES0).index(n) for n in NAMES0]
    sigs = [build_sig(s) for s in c["sigs"]]
    if k == "members":
        x = sigs[0]
        a = list(x.members.flatten())
        b = list(x.flip().members.flatten())
        out = [len(a)]
        for p, m in a + b:
            out += [len(p)] + [RANK[n] for n in p] + e_member(m)
        cc = list(x.flip().flip().members.flatten())
        mf = all(x.members[n].flip() == x.flip().members[n] and x.members[n].flip().flip() == x.members[n]
                 and x.members[n].flip().flow == x.members[n].flow.flip() for n in x.members)     # Member.flip
        out += [int(cc == a and x.flip().flip() == x and mf), int(x == x), int(x == x.flip())]
        return out
    if k in ("obj", "compl"):
        o = build_arg(0, c["args"][0], sigs)
        x = o.signature
        try:
            out = [int(x.is_compliant(o))]
        except TypeError:
            out = [-1, 10]
        if k == "compl":
            return out
        try:
            lv = list(x.flatten(o))
            out.append(len(lv))
            for p, mem, v in lv:
                out += e_leaf(p, mem, v)
        except Exception as e:
            out += [-1, exc_code(e)]
        return out
    if k == "connect":
        objs = [build_arg(i, a, sigs) for i, a in enumerate(c["args"])]
        m, st, per, err = run_connect(objs, c.get("kw", 0))
        if err:
            return err
        out = [1, len(st)]
        for (ki, pi, _), (ko, po, _) in st:
            out += [ki] + e_path(pi) + [ko] + e_path(po)
        return out + sim_values(m, objs, per)
    if k == "meta":
        x = sigs[0]
        annot = None
        if c.get("annot"):      # a Signature subclass with an annotation: must appear under "annotations" and validate
            from amaranth.lib import meta
            AID = "https://example.org/schema/verif/0.1/leaves.json"

            class Ann(meta.Annotation):
                schema = {"$schema": "https://json-schema.org/draft/2020-12/schema", "$id": AID, "type": "object",
                          "properties": {"n": {"type": "integer"}}, "required": ["n"], "additionalProperties": False}

                def __init__(self, origin):
                    self._origin = origin

                @property
                def origin(self):
                    return self._origin

                def as_json(self):
                    return {"n": n_leaves(c["sigs"][0])}

            class ASig(wiring.Signature):
                def annotations(self, obj):
                    return (Ann(obj),)
            x = ASig(build_members(c["sigs"][0]["ms"]))
            x = x.flip() if c["sigs"][0]["w"] else x
            annot = {AID: {"n": n_leaves(c["sigs"][0])}}

        class Comp(wiring.Component):
            def __init__(self):
                super().__init__(x)

            def elaborate(self, platform):
                from amaranth.hdl import Module
                return Module()
        try:
            j = Comp().metadata.as_json()
            wiring.ComponentMetadata.validate(j)
        except Exception as e:
            return [-1, exc_code(e)]
        if j["interface"]["annotations"] != (annot or {}):
            return [-8]

        def enc(v):
            if isinstance(v, list):
                return [2, len(v)] + [t for e in v for t in enc(e)]
            if v["type"] == "port":
                toks = v["name"].split("__")
                nm = [len(toks)] + [t for tk in toks for t in ([1, int(tk)] if tk.isdigit() else [0, RANK[tk]])]
                return [1] + nm + [int(v["dir"] == "in"), v["width"], int(v["signed"]), int(v["init"])]
            assert v["annotations"] == {}
            return [3, len(v["members"])] + [t for n, e in v["members"].items() for t in [RANK[n]] + enc(e)]
        return [t for n, e in j["interface"]["members"].items() for t in [RANK[n]] + enc(e)]
    if k == "spec_create":
        from amaranth.hdl import Shape
        x = sigs[0].flip() if c["fs"] else sigs[0]
        try:
            o = x.create(path=("o0",))
            out = [int(x.is_compliant(o))]
            lv = list(x.flatten(o))
            out.append(len(lv))
            for p, mem, v in lv:
                sh = Shape.cast(mem.shape)
                out += e_path(p) + [int(mem.flow.name == "In"), sh.width, int(sh.signed)]
        except Exception as e:
            out = [-1, exc_code(e)]
        # second half: the same input in the encoding of the faithful model (makes the finding filter exact)
        return out + [MARK] + run_impl({"k": "obj", "sigs": c["sigs"], "args": [arg(0, c["fs"], 0)]})
    if k == "spec_connect":
        return _spec_connect(c, sigs) + [MARK] + _faithful_connect(c, sigs)
    raise ValueError(k)


def _faithful_connect(c, sigs):
    from amaranth.lib import wiring
    fx = sigs[0].flip()
    if c.get("mirror"):
        fx = wiring.Signature(dict(fx.members.items()))
    objs = [(fx if b else sigs[0]).create(path=(f"o{i}",)) for i, b in enumerate(c["bs"])]
    try:
        m, st, per, err = run_connect(objs)
    except Exception as e:
        return [0, exc_code(e)]
    if err:
        return err
    out = [1, len(st)]
    for (ki, pi, _), (ko, po, _) in st:
        out += [ki] + e_path(pi) + [ko] + e_path(po)
    return out + sim_values(m, objs, per)


def _spec_connect(c, sigs):
    from amaranth.lib import wiring
    k = c["k"]
    if k == "spec_connect":
        fx = sigs[0].flip()
        if c.get("mirror"):
            fx = wiring.Signature(dict(fx.members.items()))
        objs = [(fx if b else sigs[0]).create(path=(f"o{i}",)) for i, b in enumerate(c["bs"])]
        try:
            m, st, per, err = run_connect(objs)
        except Exception as e:
            return [0, exc_code(e)]
        if err:
            return err
        rows = sorted((ki, pos, pi, ko) for (ki, pi, pos), (ko, po, _) in st if po == pi)
        if len(rows) != len(st):
            return [2]
        out = [1, len(rows)]
        for ki, pos, pi, ko in rows:
            out += [ki] + e_path(pi) + [ko]
        return out + [sim_check(m, objs, per)]
    raise ValueError(k)


# ------------------------------------------------------------------ model side
def t_port(n, m):
    """range / plain-Enum shapes are cast by the Gallina model (Model/Shape.v); layouts are packed by RunC14.pack."""
    sd, k = m[2], m[2][0]
    if k == "range":
        return f"MPR {RANK[n]} {m[1]} {z(sd[1])} {z(sd[2])} {z(m[3] or 0)} {zlist(m[4])}"
    if k == "pyenum":
        return f"MPE {RANK[n]} {m[1]} {zlist(sd[1])} {z(m[3] or 0)} {zlist(m[4])}"
    if k in AGG:
        fs = "[" + "; ".join(f"F {z(w)} {z(v)}" for w, sg, v in agg_fields(sd, m[3])) + "]"
        return f"MPA {RANK[n]} {m[1]} {fs} {zlist(m[4])}"
    w, sg = cast_shape(sd)
    return f"MP {RANK[n]} {m[1]} {z(w)} {blit(sg)} {z(m[3] or 0)} {zlist(m[4])}"


def t_ms(ms):
    rows = []
    for n, m in ms:
        if m[0] == "p":
            rows.append(t_port(n, m))
        else:
            rows.append(f"MI {RANK[n]} {m[1]} {blit(m[2])} {t_ms(m[3])} {zlist(m[4])}")
    return "[" + "; ".join(rows) + "]"


def t_sig(s):
    return f"Sg {blit(s['w'])} {t_ms(s['ms'])}"


def t_path(p):
    return "[" + "; ".join((f"X {it}" if isinstance(it, int) else f"N {RANK[it]}") for it in p) + "]"


def t_edit(k, p, e):
    if e[0] == "sig":
        nm = "[" + "; ".join([f"N {k}"] + [(f"X {it}" if isinstance(it, int) else f"N {RANK[it]}") for it in p]) + "]"
        return f"S_ {nm} {z(e[1])} {blit(e[2])} {z(e[3] or 0)}"
    if e[0] == "const":
        return f"C_ {z(e[1])} {blit(e[2])} {z(e[3])}"
    if e[0] == "bad":
        return "B_"
    if e[0] == "del":
        return "EDel"
    raise ValueError(e)


def t_arg(k, a):
    eds = "[" + "; ".join(f"Ed {t_path(p)} ({t_edit(k, p, e)})" for p, e in a["edits"]) + "]"
    return f"mk x{a['sig']} {k} {blit(a['fs'])} {int(a['fo'])} {eds}"


def coq_term(c):
    k = c["k"]
    lets = "".join(f"let x{i} := {t_sig(s)} in " for i, s in enumerate(c["sigs"]))
    if k == "names":
        return "(k_names [" + "; ".join(zlist([ord(ch) for ch in n]) for n in NAMES0) + "])"
    if k == "members":
        body = "k_members x0"
    elif k == "obj":
        body = f"k_obj ({t_arg(0, c['args'][0])})"
    elif k == "compl":
        body = f"k_compliant ({t_arg(0, c['args'][0])})"
    elif k == "connect":
        body = "k_connect [" + "; ".join(t_arg(i, a) for i, a in enumerate(c["args"])) + "]"
    elif k == "meta":
        body = "k_meta x0"
    elif k == "spec_create":
        body = ("k_spec_create (sig_flip x0)" if c["fs"] else "k_spec_create x0") + \
               f" ++ [{z(MARK)}] ++ k_obj (mk x0 0 {blit(c['fs'])} 0 [])"
    elif k == "spec_connect":
        fx = "mirror_sig x0" if c.get("mirror") else "sig_flip x0"
        objs = "; ".join(f"create ({fx if b else 'x0'}) [N {i}]" for i, b in enumerate(c["bs"]))
        body = "k_spec_connect x0 [" + "; ".join(blit(b) for b in c["bs"]) + "]" + \
               f" ++ [{z(MARK)}] ++ k_connect [{objs}]"
    else:
        raise ValueError(k)
    return f"({lets}{body})"

"""C04 — emitted RTLIL is behaviourally equivalent to the simulated design.

Layer B (translation validation): every generated design is (a) simulated with the real simulator under a stimulus
and (b) converted with the real back.rtlil; the text is read by the strict reader harness/rtlil_read.py into a
Gallina `doc`, which coq/Model/RtlilSem.v `run` flattens and executes by vm_compute under the same stimulus.
Compared after the initial settle and after every step: every top-level port wire and every named signal the
backend put in its name map (outputs, registers, internal wires).  Layer A (Props/C04.v): the per-construct
lowering theorems for all widths and values.
"""
import random, collections
from common import z, zlist, blit
import exprgen as G

ID = "C04"
LEVEL = "translation_validation"
PROPS_FILE = "C04.v"
RUN_MODULE = "RunC04"
TRANSLATOR_UNITS = ["ir"]
SHARD = 40
RULE = ("designs: Module-DSL programs over the C01 expression generator; per design 3-9 signals (width 0..6, signed/unsigned, "
        "random init, some reset_less), roles input / undriven / driven in 1-2 segments (whole, partial with undriven gaps, "
        "two owners in different modules or domains); module tree of depth <= 3 (1-5 modules), drivers placed in any module, "
        "readers anywhere (ancestors, descendants, siblings); submodules wrapped by ResetInserter / EnableInserter / "
        "DomainRenamer; 1-2 clock domains (pos or neg edge; sync reset, reset-less, async reset; declared in the top module "
        "or in the submodule whose subtree uses them); ResetSignal read as data; statements: assignments (whole / slice / "
        "slice of slice / part-select / concatenation / array-choice / sign-reinterpreted targets) under If/Elif/Else and "
        "Switch (patterns with don't-cares, default, empty case) nested <= 3; optionally one memory (lib.memory, 1-2 write "
        "ports on rows that never coincide, sync/transparent/comb read ports; every row observed); top-level ports as a dict "
        "(some renamed) or as a plain list. stimulus: 6-20 steps, each a data step (inputs / resets change), a clock step "
        "(one or both clocks rise, or fall) or, in async-reset domains, a step where clock and reset change in the same "
        "instant. arst: handwritten async-reset designs (pos/neg edge, reset-less + resettable registers, memory) with the "
        "reset rising alone, held over edges, rising/falling together with an active edge. op: one design per operator x "
        "small shapes, all operand values as stimulus. prio: a conditional assignment followed by an unconditional one "
        "(seeded b04). al: structural tie of emit_value / emit_assignment_list to the Gallina models on the real netlist "
        "data. cell: the cell type/signedness/widths emitted per operator (operand widths to 12, constant operands) vs the "
        "Gallina lowering model. non-trivial = some observed wire changes during the run; distinct by case hash")
MODELLED = ("RTLIL cell/process/flip-flop/memory/hierarchy semantics (coq/Model/RtlilSem.v, written from the Yosys manual as "
            "known: trusted); the lowering code (_ir.emit_rhs operand extension, rtlil.emit_operator/shorten_operand/emit_part) "
            "is modelled for Layer A; emit_assign, emit_drivers, net flow/port inference, naming, sigspec chunking are validated "
            "per design only (Layer B)")
ASSUMPTIONS = ["RTLIL semantics are the ones written in RtlilSem.v from the Yosys documentation as known (no Yosys offline)",
               "clock inputs change in steps of their own (no data input changes in the same step, except an async reset); "
               "clocks are top-level inputs and are never read as data (ClockSignal excluded)",
               "Print/Assert/Cover, instances, IO buffers and asynchronous memories with collisions are outside the generated class"]
TRUSTED_EXTRA = ["strict RTLIL reader harness/rtlil_read.py (text -> Gallina doc; fail-closed)"]

SHIFT_ID = "C04-part-select-signed-shift-zero-fill"


# =============================================================================================== generation
def remap(t, idx):
    k = t[0]
    if k == "c":
        return t
    if k == "s":
        return ["s", idx[t[1]]]
    if k == "o1":
        return ["o1", t[1], remap(t[2], idx)]
    if k == "o2":
        return ["o2", t[1], remap(t[2], idx), remap(t[3], idx)]
    if k == "sl":
        return ["sl", remap(t[1], idx), t[2], t[3]]
    if k == "pt":
        return ["pt", remap(t[1], idx), remap(t[2], idx), t[3], t[4]]
    if k == "cat":
        return ["cat", [remap(p, idx) for p in t[1]]]
    if k == "sw":
        return ["sw", remap(t[1], idx), [[ps, remap(e, idx)] for ps, e in t[2]]]
    raise ValueError(k)


def has_signed_part(t, shapes):
    """does the term contain a part-select of a SIGNED operand whose window can reach above max(len(operand), width)?
    (the only place where the two readings of $shift with A_SIGNED differ)"""
    k = t[0]
    if k in ("c", "s"):
        return False
    if k == "o1":
        return has_signed_part(t[2], shapes)
    if k == "o2":
        return has_signed_part(t[2], shapes) or has_signed_part(t[3], shapes)
    if k == "sl":
        return has_signed_part(t[1], shapes)
    if k == "pt":
        aw, asg = G.pyshape(t[1], shapes)
        ow = G.pyshape(t[2], shapes)[0]
        over = asg and ((1 << ow) - 1) * t[4] + t[3] > max(aw, t[3])
        return over or has_signed_part(t[1], shapes) or has_signed_part(t[2], shapes)
    if k == "cat":
        return any(has_signed_part(p, shapes) for p in t[1])
    if k == "sw":
        return has_signed_part(t[1], shapes) or any(has_signed_part(e, shapes) for _, e in t[2])
    raise ValueError(k)


def lhs_targets(t):
    """signals written through an assignment target"""
    k = t[0]
    if k == "s":
        return [t[1]]
    if k in ("pt", "sl"):
        return lhs_targets(t[1])
    if k == "o1":
        return lhs_targets(t[2])
    if k == "cat":
        return [i for p in t[1] for i in lhs_targets(p)]
    if k == "sw":
        return [i for _, e in t[2] for i in lhs_targets(e)]
    return []


def lhs_reads(t):
    """expressions read inside an assignment target (part-select offsets, selectors of choices)"""
    k = t[0]
    if k == "sw":
        return [t[1]] + [e for _, x in t[2] for e in lhs_reads(x)]
    if k == "pt":
        return [t[2]] + lhs_reads(t[1])
    if k in ("sl",):
        return lhs_reads(t[1])
    if k == "o1":
        return lhs_reads(t[2])
    if k == "cat":
        return [e for p in t[1] for e in lhs_reads(p)]
    return []


def stmts_have(stmts, pred):
    for s in stmts:
        if s[0] == "as":
            if pred(s[2]) or any(pred(e) for e in lhs_reads(s[1])):
                return True
        elif s[0] == "if":
            for c, body in s[1]:
                if pred(c) or stmts_have(body, pred):
                    return True
            if s[2] is not None and stmts_have(s[2], pred):
                return True
        elif s[0] == "swst":
            if pred(s[1]):
                return True
            for _, body in s[2]:
                if stmts_have(body, pred):
                    return True
    return False


def all_shapes(d):
    """shapes of everything an expression may name: the design signals, then one 1-bit pseudo-signal per domain with a
    synchronous reset (index len(sigs) + j = ResetSignal(domain))"""
    return [[x["w"], x["sg"]] for x in d["sigs"]] + [[1, False] for dd in d["doms"] if dd.get("rs")]


def signal_modules(d):
    """for every design signal, the set of modules (indices) whose statements / memory wiring / ports mention it;
    an inserter's control signal is mentioned in the modules of its subtree that have logic in the inserter's domain"""
    nsig = len(d["sigs"])
    acc = collections.defaultdict(set)

    def ex(t, k):
        for i_ in G.sig_ids(t):
            if i_ < nsig:
                acc[i_].add(k)

    def st(stmts, k):
        for s_ in stmts:
            if s_[0] == "as":
                ex(s_[1], k); ex(s_[2], k)
            elif s_[0] == "if":
                for c_, body in s_[1]:
                    ex(c_, k); st(body, k)
                if s_[2] is not None:
                    st(s_[2], k)
            else:
                ex(s_[1], k)
                for _, body in s_[2]:
                    st(body, k)
    for i_ in list(d["ins"]) + list(d["outs"]):
        acc[i_].add(0)
    mm = d.get("mem")
    memdoms = set()
    if mm:
        es = [mm["waddr"], mm["wdata"], mm["wen"]] + [x for r_ in mm["reads"] for x in (r_["addr"], r_["en"])]
        memdoms = {mm["wdom"]} | {r_["dom"] for r_ in mm["reads"] if r_["kind"] != "comb"}
        if mm.get("w2"):
            es += [mm["w2"]["addr"], mm["w2"]["data"], mm["w2"]["en"]]
            memdoms.add(mm["w2"]["dom"])
        for e in es:
            ex(e, mm["mod"])
    for k, md in enumerate(d["mods"]):
        for _, stmts in md["blocks"]:
            st(stmts, k)

    def subtree(k):
        out = [k]
        for j, md in enumerate(d["mods"]):
            if md["parent"] == k:
                out += subtree(j)
        return out
    for k, md in enumerate(d["mods"]):
        wr = md.get("wrap")
        if wr and wr[0] in ("reset", "enable"):
            for j in subtree(k):
                doms = {dom for dom, _ in d["mods"][j]["blocks"]}
                if mm and mm["mod"] == j:
                    doms |= memdoms
                if wr[1] in doms:
                    acc[wr[2]].add(j)
    return acc


def module_path(d, k):
    names = []
    while k is not None:
        names.append("top" if d["mods"][k]["parent"] is None else d["mods"][k]["name"])
        k = d["mods"][k]["parent"]
    return "\\" + ".".join(reversed(names))


def unnamed_ok(d, text):
    """design signals that may legitimately have no name in the emitted text: zero-width signals (no nets, nothing to
    name), signals nothing mentions, and signals mentioned only in modules the backend does not write at all (modules
    without cells — pure wiring — are dropped by EmptyModuleChecker; such a signal is neither an output nor a register)"""
    import re
    emitted = set(re.findall(r"^module (\S+)$", text, flags=re.M))
    sm = signal_modules(d)
    ok = set()
    for i_, sg in enumerate(d["sigs"]):
        if sg["w"] == 0 or all(module_path(d, k) not in emitted for k in sm.get(i_, ())):
            ok.add(i_)
    return ok


class DGen:
    def __init__(self, rng, opts):
        self.r = rng
        self.o = opts

    def design(self):
        r = self.r
        o = self.o
        nsig = r.randrange(3, o.get("maxsig", 9) + 1)
        sigs = []
        for i in range(nsig):
            w, sg = G.rand_shape(r, o.get("maxw", 6))
            if r.random() < 0.06:
                w, sg = 0, False
            sigs.append({"w": w, "sg": sg, "init": G.rand_value(r, w, sg) if r.random() < 0.6 else 0,
                         "rl": r.random() < 0.15})
        shapes = [[s["w"], s["sg"]] for s in sigs]
        # domains
        doms = [{"name": "sync", "rst": r.choice(["sync", "sync", "none"])}]
        if r.random() < 0.4:
            doms.append({"name": "d1", "rst": r.choice(["sync", "none"])})
        if o.get("async") and r.random() < o["async"]:
            r.choice(doms)["rst"] = "async"
        for dd in doms:
            dd["edge"] = "neg" if r.random() < 0.25 else "pos"
            dd["mod"] = 0
            # either ResetSignal(domain) is readable everywhere (domain declared in the top module), or the domain may
            # end up declared in a submodule (a domain is only visible in the subtree of the module declaring it)
            dd["rs"] = dd["rst"] == "sync" and r.random() < 0.6
            dd["local"] = (not dd["rs"]) and r.random() < 0.5
        # module tree
        nmod = r.choice([1, 2, 2, 3, 3, 4, 5])
        parent = [None]
        depth = [0]
        for k in range(1, nmod):
            cands = [j for j in range(k) if depth[j] < 2]
            p = r.choice(cands)
            parent.append(p)
            depth.append(depth[p] + 1)
        # roles
        roles = []
        for i in range(nsig):
            q = r.random()
            if q < 0.3:
                roles.append("in")
            elif q < 0.38:
                roles.append("und")
            else:
                roles.append("drv")
        if "in" not in roles:
            roles[0] = "in"
        if "drv" not in roles:
            roles[-1] = "drv"
        domnames = ["comb"] + [d["name"] for d in doms]
        segs = {}      # sig -> list of (lo, hi, mod, dom)
        for i in range(nsig):
            if roles[i] != "drv":
                continue
            w = sigs[i]["w"]
            q = r.random()
            if w >= 2 and q < 0.25:
                cut = r.randrange(1, w)
                a = (0, cut, r.randrange(nmod), r.choice(domnames))
                while True:
                    b_ = (cut, w, r.randrange(nmod), r.choice(domnames))
                    if (b_[2], b_[3]) != (a[2], a[3]):
                        break
                segs[i] = [a, b_]
            elif w >= 2 and q < 0.4:
                lo = r.randrange(0, w)
                hi = r.randrange(lo + 1, w + 1)
                segs[i] = [(lo, hi, r.randrange(nmod), r.choice(domnames))]
            else:
                segs[i] = [(0, w, r.randrange(nmod), r.choice(domnames))]
        comb_sigs = {i for i, ss in segs.items() if any(s[3] == "comb" for s in ss)}
        # blocks: (mod, dom) -> list of owned (sig, lo, hi, whole)
        blocks = collections.OrderedDict()
        for i, ss in segs.items():
            for lo, hi, mod, dom in ss:
                whole = (len(ss) == 1 and lo == 0 and hi == sigs[i]["w"])
                blocks.setdefault((mod, dom), []).append((i, lo, hi, whole))
        # ResetSignal(domain) of the sync-reset domains can be read like a 1-bit input
        pseudo = [nsig + j for j, dd in enumerate([x for x in doms if x["rs"]])]
        shapes = shapes + [[1, False] for _ in pseudo]
        self.sigs, self.shapes, self.comb_sigs = sigs, shapes, comb_sigs
        mods = [{"parent": parent[k], "name": f"m{k}", "blocks": [], "wrap": None} for k in range(nmod)]
        # control inserters / domain renamer around submodules
        ctl = [i for i in range(nsig) if roles[i] == "in" and sigs[i]["w"] >= 1]
        for k in range(1, nmod):
            q = r.random()
            if q < 0.12 and ctl:
                mods[k]["wrap"] = ["reset", r.choice(doms)["name"], r.choice(ctl)]
            elif q < 0.24 and ctl:
                mods[k]["wrap"] = ["enable", r.choice(doms)["name"], r.choice(ctl)]
            elif q < 0.34 and len(doms) == 2 and doms[1]["rst"] == doms[0]["rst"] == "sync":
                mods[k]["wrap"] = ["rename", {"sync": "d1"}]
                doms[0]["local"] = doms[1]["local"] = False
        for (mod, dom), owned in blocks.items():
            stmts = []
            for _ in range(r.randrange(1, 4)):
                tset = r.sample(owned, r.randrange(1, min(3, len(owned)) + 1))
                if dom == "comb":
                    kmin = min(t[0] for t in tset)
                    readable = [j for j in range(nsig) if j not in comb_sigs or j < kmin] + pseudo
                else:
                    readable = list(range(nsig)) + pseudo
                stmts += self.stmt_tree(tset, readable, r.randrange(0, 3))
            # make sure every owned segment is assigned at least once
            assigned = set()
            self.collect_targets(stmts, assigned)
            for t in owned:
                if t[0] not in assigned:
                    if dom == "comb":
                        readable = [j for j in range(nsig) if j not in comb_sigs or j < t[0]] + pseudo
                    else:
                        readable = list(range(nsig)) + pseudo
                    stmts += self.stmt_tree([t], readable, 0)
            mods[mod]["blocks"].append([dom, stmts])
        # memory
        mem = None
        if o.get("mem") and r.random() < o["mem"]:
            mem = self.memory(nmod, doms, roles)
        # declare a "local" domain in the deepest module whose subtree contains every user of the domain
        def ancestors(k):
            out = []
            while k is not None:
                out.append(k)
                k = parent[k]
            return out
        for dd in doms:
            users = {k for k in range(nmod) for dom, _ in mods[k]["blocks"] if dom == dd["name"]}
            users |= {k for k in range(nmod) if mods[k]["wrap"] and mods[k]["wrap"][0] != "rename"
                      and mods[k]["wrap"][1] == dd["name"]}
            if mem and dd["name"] in [mem["wdom"]] + [x["dom"] for x in mem["reads"]] + \
                    ([mem["w2"]["dom"]] if mem.get("w2") else []):
                users.add(mem["mod"])
            loc = dd.pop("local")
            if loc and users:
                common = None
                for k in users:
                    a = ancestors(k)
                    common = a if common is None else [x for x in common if x in a]
                dd["mod"] = common[0]          # deepest common ancestor (may be the top module)
        ins = [i for i in range(nsig) if roles[i] == "in"]
        outs = [i for i in segs if r.random() < 0.5]
        rename = r.random() < 0.25
        design = {"sigs": sigs, "doms": doms, "mods": mods, "ins": ins, "outs": outs, "rename": rename, "mem": mem,
                  "plist": (not rename) and r.random() < 0.25}
        design["stim"] = self.stimulus(design)
        return design

    def collect_targets(self, stmts, acc):
        for s in stmts:
            if s[0] == "as":
                acc.update(lhs_targets(s[1]))
            elif s[0] == "if":
                for _, body in s[1]:
                    self.collect_targets(body, acc)
                if s[2] is not None:
                    self.collect_targets(s[2], acc)
            else:
                for _, body in s[2]:
                    self.collect_targets(body, acc)

    def expr(self, readable, d, maxw=None):
        r = self.r
        if not readable:
            return ["c", r.randrange(0, 4), 2, False]
        g = G.Gen(r, [self.shapes[j] for j in readable], maxw=self.o.get("maxw", 6), maxtotal=self.o.get("maxtotal", 24))
        t = g.expr(d)
        return remap(t, readable)

    def small_unsigned(self, readable, maxw):
        r = self.r
        if not readable:
            return ["c", r.randrange(0, 1 << maxw), maxw, False]
        g = G.Gen(r, [self.shapes[j] for j in readable], maxw=self.o.get("maxw", 6), maxtotal=self.o.get("maxtotal", 24))
        return remap(g.unsigned_small(1, maxw), readable)

    def lhs(self, tset, readable):
        r = self.r
        i, lo, hi, whole = r.choice(tset)
        q = r.random()
        if whole and q < 0.15 and hi - lo >= 1:
            pw = r.randrange(0, 4)
            return ["pt", ["s", i], self.small_unsigned(readable, 2), pw, r.choice((1, 1, 2, pw if pw else 1))]
        if q < 0.45 and hi - lo >= 2:
            a = r.randrange(lo, hi)
            b_ = r.randrange(a + 1, hi + 1)
            return ["sl", ["s", i], a, b_]
        if q < 0.55 and len(tset) >= 2:
            (i1, lo1, hi1, w1), (i2, lo2, hi2, w2) = r.sample(tset, 2)
            if i1 != i2:
                return ["cat", [self.seg_lhs(i1, lo1, hi1, w1), self.seg_lhs(i2, lo2, hi2, w2)]]
        if q < 0.63 and len(tset) >= 2:
            # array-style target: a choice between two owned segments (SwitchValue on the left-hand side)
            (i1, lo1, hi1, w1), (i2, lo2, hi2, w2) = r.sample(tset, 2)
            test = self.small_unsigned(readable, 1)
            tw = G.pyshape(test, self.shapes)[0]
            return ["sw", test, [[["1" * tw] if tw else [""], self.seg_lhs(i1, lo1, hi1, w1)],
                                 [None, self.seg_lhs(i2, lo2, hi2, w2)]]]
        if q < 0.70 and hi - lo >= 1:
            return ["o1", r.choice("us"), self.seg_lhs(i, lo, hi, whole)]       # sign reinterpretation of a target
        if q < 0.76 and hi - lo >= 3:
            a = r.randrange(0, hi - lo - 1)                                     # slice of a slice
            return ["sl", ["sl", ["s", i], lo, hi], a, r.randrange(a + 1, hi - lo + 1)]
        return self.seg_lhs(i, lo, hi, whole)

    def seg_lhs(self, i, lo, hi, whole):
        if whole:
            return ["s", i]
        return ["sl", ["s", i], lo, hi]

    def stmt_tree(self, tset, readable, d):
        r = self.r
        q = r.random()
        if d <= 0 or q < 0.35:
            return [["as", self.lhs(tset, readable), self.expr(readable, r.randrange(0, 3))]
                    for _ in range(r.randrange(1, 3))]
        if q < 0.7:
            branches = []
            for _ in range(r.randrange(1, 4)):
                branches.append([self.expr(readable, r.randrange(0, 2)), self.stmt_tree(tset, readable, d - 1)])
            els = self.stmt_tree(tset, readable, d - 1) if r.random() < 0.5 else None
            return [["if", branches, els]]
        test = self.small_unsigned(readable, 3) if r.random() < 0.8 else self.expr(readable, 1)
        tw = G.pyshape(test, self.shapes)[0]
        if tw > 4:
            test = ["sl", test, 0, 3]
            tw = 3
        cases = []
        n = r.randrange(1, 4)
        for ci in range(n):
            qq = r.random()
            if qq < 0.08:
                ps = []
            else:
                ps = ["".join(r.choice("01-" if r.random() < 0.4 else "01") for _ in range(tw))
                      for _ in range(r.randrange(1, 3))]
            cases.append([ps, self.stmt_tree(tset, readable, d - 1)])
        if r.random() < 0.5:
            cases.append([None, self.stmt_tree(tset, readable, d - 1)])
        return [["swst", test, cases]]

    def memory(self, nmod, doms, roles):
        r = self.r
        nsig = len(self.sigs)
        # row width and write granularity: half of the memories have 2-4 enable lanes wider than one bit (row widths
        # that are not powers of two included); with lanes of 1 bit the lane expansion is the identity
        w, gran0 = r.choice([(1, None), (2, None), (3, None), (4, None), (2, 1), (3, 1),
                             (4, 2), (6, 2), (6, 3), (8, 4), (8, 2), (9, 3), (12, 4), (12, 3)])
        depth = r.choice([1, 2, 3, 4, 5])
        ab = max(1, (depth - 1).bit_length()) if depth > 1 else r.choice([0, 1])
        noncomb = [j for j in range(nsig) if j not in self.comb_sigs]
        wdom = r.choice(doms)["name"]
        gran = gran0
        mem = {"mod": r.randrange(nmod), "w": w, "depth": depth,
               "init": [r.randrange(0, 1 << w) for _ in range(r.randrange(0, depth + 1))],
               "wdom": wdom, "gran": gran,
               "waddr": self.small_unsigned(noncomb, 3), "wdata": self.expr(noncomb, 1),
               "wen": self.expr(noncomb, 1), "reads": []}
        if depth >= 2 and r.random() < 0.5:
            # second write port; the two ports never address the same row (address LSB 0 / 1): a same-row collision
            # of two ports is undefined in RTLIL (PRIORITY_MASK 0)
            mem["w2"] = {"dom": r.choice(doms)["name"], "addr": self.small_unsigned(noncomb, 2),
                         "data": self.expr(noncomb, 1), "en": self.expr(noncomb, 1),
                         "transp": r.random() < 0.5}
            mem["waddr"] = self.small_unsigned(noncomb, 2)
        for _ in range(r.randrange(1, 3)):
            kind = r.choice(["comb", "sync", "transp"])
            rdom = wdom if kind == "transp" else r.choice(doms)["name"]
            mem["reads"].append({"kind": kind, "dom": rdom, "addr": self.small_unsigned(noncomb, 3),
                                 "en": self.expr(noncomb, 0)})
        return mem

    def stimulus(self, design):
        r = self.r
        sigs = design["sigs"]
        ins = design["ins"]
        doms = design["doms"]
        steps = []
        clk = [0] * len(doms)
        n = r.randrange(6, self.o.get("maxsteps", 12) + 1) + (8 if design.get("mem") else 0)
        while len(steps) < n:
            q = r.random()
            if q < 0.45 or not any(clk) and q < 0.5:
                sets = []
                for i in r.sample(ins, r.randrange(1, min(3, len(ins)) + 1)) if ins else []:
                    sets.append([["s", i], G.rand_value(r, sigs[i]["w"], sigs[i]["sg"])])
                for di, d in enumerate(doms):
                    if d["rst"] != "none" and r.random() < 0.25:
                        sets.append([["rst", di], r.randrange(2)])
                if sets:
                    steps.append(["data", sets])
            elif any(clk):
                fall = [di for di in range(len(doms)) if clk[di]]
                mix = [di for di in fall if doms[di]["rst"] == "async" and r.random() < 0.3]
                if mix:     # an async reset changes in the same instant as its clock
                    steps.append(["cr", [[["clk", di], 0] for di in fall] + [[["rst", di], r.randrange(2)] for di in mix]])
                else:
                    steps.append(["clk", [[di, 0] for di in fall]])
                clk = [0] * len(doms)
            else:
                which = [di for di in range(len(doms)) if r.random() < 0.7] or [0]
                mix = [di for di in which if doms[di]["rst"] == "async" and r.random() < 0.3]
                if mix:
                    steps.append(["cr", [[["clk", di], 1] for di in which] + [[["rst", di], r.randrange(2)] for di in mix]])
                else:
                    steps.append(["clk", [[di, 1] for di in which]])
                for di in which:
                    clk[di] = 1
        return steps


QUICK_SHAPES = [[0, False], [2, False], [1, True], [3, True]]


def op_designs(thorough):
    """one single-operator design per operator x small shapes; stimulus enumerates all operand values"""
    shapes = [[0, False], [1, False], [2, False], [3, False], [1, True], [2, True], [3, True]]
    out = []
    for op in G.OP2:
        for sa in shapes:
            for sb in shapes:
                if op in ("<<", ">>") and sb[1]:
                    continue
                if not thorough and op not in ("//", "%") and not (sa in QUICK_SHAPES and sb in QUICK_SHAPES):
                    continue
                out.append(_op_design(["o2", op, ["s", 0], ["s", 1]], [sa, sb]))
    for op in G.OP1:
        for sa in shapes:
            if op == "s" and sa[0] == 0:
                continue
            out.append(_op_design(["o1", op, ["s", 0]], [sa]))
    # part-selects (word and bit) of signed and unsigned operands
    for sa in (shapes[1:] if thorough else [[1, False], [3, False], [1, True], [3, True]]):
        for pw in (1, 2, 4):
            for st in (1, 2, 3):
                out.append(_op_design(["pt", ["s", 0], ["s", 1], pw, st], [sa, [2, False]]))
    return out


def _vals(w, sg):
    if sg:
        return list(range(-(1 << (w - 1)), 1 << (w - 1)))
    return list(range(0, 1 << w))


def _op_design(term, inshapes):
    w, sg = G.pyshape(term, inshapes)
    sigs = [{"w": s[0], "sg": s[1], "init": 0, "rl": False} for s in inshapes]
    sigs.append({"w": w, "sg": sg, "init": 0, "rl": False})
    y = len(sigs) - 1
    stim = []
    if len(inshapes) == 1:
        for a in _vals(*inshapes[0]):
            stim.append(["data", [[["s", 0], a]]])
    else:
        for a in _vals(*inshapes[0]):
            for b_ in _vals(*inshapes[1]):
                stim.append(["data", [[["s", 0], a], [["s", 1], b_]]])
    return {"sigs": sigs, "doms": [], "mods": [{"parent": None, "name": "m0", "blocks": [["comb", [["as", ["s", y], term]]]]}],
            "ins": list(range(len(inshapes))), "outs": [y], "rename": False, "mem": None, "stim": stim, "opd": True}


_GEN_CACHE = {}


def gen_cases(tier, seed):
    key = (tier, seed)
    if key not in _GEN_CACHE:
        _GEN_CACHE[key] = _gen_cases(tier, seed)
    return _GEN_CACHE[key]


def _gen_cases(tier, seed):
    thorough = tier == "thorough"
    rng = random.Random(seed + 404)
    cases = []
    for d in op_designs(thorough):
        cases.append({"k": "op", "d": d})
    for d in arst_designs():
        cases.append({"k": "arst", "d": d})
    na = 0
    while na < (16 if not thorough else 120):
        d = DGen(rng, {"maxsig": 6, "maxw": 4, "maxtotal": 16, "maxsteps": 14, "async": 1.0, "mem": 0.4}).design()
        if validate(d)[0]:
            cases.append({"k": "rnd", "d": d})
            na += 1
    n = 300 + na if not thorough else 3000 + na
    tries = 0
    while sum(1 for c in cases if c["k"] == "rnd") < n and tries < 4 * n:
        tries += 1
        opts = {"maxsig": 9, "maxw": 6, "maxtotal": 24, "maxsteps": 12, "async": 0.04, "mem": 0.12}
        if thorough and rng.random() < 0.3:
            opts.update(maxw=12, maxtotal=40, maxsteps=16)
        d = DGen(rng, opts).design()
        ok, why = validate(d)
        if ok:
            cases.append({"k": "rnd", "d": d})
    for d in memlane_designs():
        cases.append({"k": "rnd", "d": d})
    for d in prio_designs():
        cases.append({"k": "rnd", "d": d})
    # structural tie of the AssignmentList lowering models (emit_value, emit_assignment_list) to the real code:
    # the same designs again, compared on the shape of every emitted process and on every emit_value result
    rnd = [c["d"] for c in cases if c["k"] == "rnd" and not c["d"].get("mem")]
    nal = 100 if not thorough else 1500
    for d in rnd[-len(prio_designs()):] + rnd[:nal]:
        cases.append({"k": "al", "d": d})
    # structural tie of the operator / part-select lowering models (ir_op2, choose_operands, emit_unary, emit_part)
    cases += cell_cases(thorough)
    # structural tie of the emit_assign model: the real NetlistEmitter.emit_assign on generated targets
    cases += ea_cases(seed, 360 if not thorough else 6000)
    # regression of /repo 961f42e (a slice / part-select of a choice between values of different widths)
    for d in eaw_designs():
        cases.append({"k": "eaw", "d": d})
    return cases


def eaw_designs():
    """Array([a, s[0:2]])[sel].bit_select(off, 3) <= 7 and Array([a, s[0:2]])[sel][1:3] <= 3, all sel / off values"""
    sigs = [{"w": 1, "sg": False, "init": 0, "rl": False}, {"w": 2, "sg": False, "init": 0, "rl": False},
            {"w": 4, "sg": False, "init": 0, "rl": False}, {"w": 8, "sg": False, "init": 0, "rl": False}]
    arr = ["sw", ["s", 0], [[["1"], ["s", 2]], [None, ["sl", ["s", 3], 0, 2]]]]
    stim = [["data", [[["s", 0], v], [["s", 1], o]]] for v in (0, 1) for o in range(4)]
    out = []
    for lhs, val in ((["pt", arr, ["s", 1], 3, 1], ["c", 7, 3, False]), (["sl", arr, 1, 3], ["c", 3, 2, False])):
        out.append({"sigs": sigs, "doms": [], "mods": [{"parent": None, "name": "m0", "blocks": [["comb", [["as", lhs, val]]]]}],
                    "ins": [0, 1], "outs": [2, 3], "rename": False, "mem": None, "stim": stim})
    return out


def memlane_designs():
    """a write port with several enable lanes (granularity < row width, 2-4 lanes, row widths 8 / 6 / 9 / 12), the lane
    enables driven by an input so that every unequal combination occurs; pos and neg edge; every row observed"""
    out = []
    for w, g, edge in ((8, 4, "pos"), (6, 2, "neg"), (9, 3, "pos"), (12, 3, "pos")):
        lanes = w // g
        sigs = [{"w": lanes, "sg": False, "init": 0, "rl": False}, {"w": w, "sg": False, "init": 0, "rl": False},
                {"w": 2, "sg": False, "init": 0, "rl": False}]
        mem = {"mod": 0, "w": w, "depth": 3, "init": [(1 << w) - 1, 0, 5], "wdom": "sync", "gran": g,
               "waddr": ["s", 2], "wdata": ["s", 1], "wen": ["s", 0],
               "reads": [{"kind": "transp", "dom": "sync", "addr": ["s", 2], "en": ["c", 1, 1, False]},
                         {"kind": "comb", "dom": "sync", "addr": ["s", 2], "en": ["c", 1, 1, False]}]}
        a, i_ = (1, 0) if edge == "pos" else (0, 1)
        stim = [["clk", [[0, i_]]]] if edge == "neg" else []
        k = 0
        for en in list(range(1, 1 << lanes)) + [0]:
            k += 1
            data = ((0x5A5 * k) ^ (en << 3)) & ((1 << w) - 1)
            stim.append(["data", [[["s", 0], en], [["s", 1], data], [["s", 2], k % 3]]])
            stim.append(["clk", [[0, a]]])
            stim.append(["clk", [[0, i_]]])
        out.append({"sigs": sigs, "doms": [{"name": "sync", "rst": "none", "edge": edge, "mod": 0}],
                    "mods": [{"parent": None, "name": "m0", "blocks": []}], "ins": [0, 1, 2], "outs": [],
                    "rename": False, "mem": mem, "stim": stim})
    return out


def prio_designs():
    """a signal assigned under an If / Switch and LATER unconditionally over its full width (the later one wins),
    comb and sync, in the top module and in a submodule; and the usual default-first style"""
    out = []
    for dom in ("comb", "sync"):
        for sub in (False, True):
            for later_first in (False, True):
                sigs = [{"w": 1, "sg": False, "init": 0, "rl": False}, {"w": 4, "sg": False, "init": 0, "rl": False},
                        {"w": 4, "sg": False, "init": 0, "rl": False}, {"w": 4, "sg": False, "init": 3, "rl": False},
                        {"w": 4, "sg": False, "init": 5, "rl": False}]
                cond = [["if", [[["s", 0], [["as", ["s", 3], ["s", 1]], ["as", ["sl", ["s", 4], 1, 3], ["sl", ["s", 1], 0, 2]]]]], None]]
                unc = [["as", ["s", 3], ["s", 2]], ["as", ["s", 4], ["s", 2]]]
                stmts = unc + cond if later_first else cond + unc
                mods = [{"parent": None, "name": "m0", "blocks": []}]
                if sub:
                    mods.append({"parent": 0, "name": "m1", "blocks": [[dom, stmts]]})
                else:
                    mods[0]["blocks"].append([dom, stmts])
                stim = []
                for cv, a, b_ in ((1, 9, 6), (0, 2, 7), (1, 1, 14), (1, 15, 0)):
                    stim.append(["data", [[["s", 0], cv], [["s", 1], a], [["s", 2], b_]]])
                    stim.append(["clk", [[0, 1]]])
                    stim.append(["clk", [[0, 0]]])
                out.append({"sigs": sigs, "doms": [{"name": "sync", "rst": "none"}], "mods": mods, "ins": [0, 1, 2],
                            "outs": [3, 4], "rename": False, "mem": None, "stim": stim})
    return out


# =============================================================================================== building
class Built:
    pass


def build(d):
    """JSON design -> real amaranth objects (fresh on every call)"""
    from amaranth.hdl import Signal, Shape, Module, ClockDomain, ResetSignal, ResetInserter, EnableInserter, \
        DomainRenamer, Cat, Const
    from amaranth.hdl._ir import PortDirection
    B = Built()
    B.sigs = [Signal(Shape(s["w"], bool(s["sg"])), name=f"s{i}", init=s["init"], reset_less=bool(s["rl"]))
              for i, s in enumerate(d["sigs"])]
    B.cds = []
    mods = [Module() for _ in d["mods"]]
    top = mods[0]
    for dd in d["doms"]:
        cd = ClockDomain(dd["name"], clk_edge=dd.get("edge", "pos"), reset_less=(dd["rst"] == "none"),
                         async_reset=(dd["rst"] == "async"))
        mods[dd.get("mod", 0)].domains += cd
        B.cds.append(cd)
    # what expressions may name: the signals, then ResetSignal(domain) for every sync-reset domain
    B.refs = B.sigs + [ResetSignal(dd["name"]) for dd in d["doms"] if dd.get("rs")]
    for k, md in enumerate(d["mods"]):
        m = mods[k]
        for dom, stmts in md["blocks"]:
            build_stmts(m, dom, stmts, B.refs)
    B.mem = None
    if d.get("mem"):
        from amaranth.lib.memory import Memory
        mm = d["mem"]
        mem = Memory(shape=mm["w"], depth=mm["depth"], init=mm["init"])
        wp = mem.write_port(domain=mm["wdom"], granularity=mm["gran"])
        m = mods[mm["mod"]]
        m.submodules.mem = mem
        w2 = mm.get("w2")
        waddr = G.build(mm["waddr"], B.refs)
        m.d.comb += [wp.addr.eq(Cat(Const(0, 1), waddr) if w2 else waddr), wp.data.eq(G.build(mm["wdata"], B.refs)),
                     wp.en.eq(G.build(mm["wen"], B.refs))]
        wps = [wp]
        if w2:
            wp2 = mem.write_port(domain=w2["dom"])
            m.d.comb += [wp2.addr.eq(Cat(Const(1, 1), G.build(w2["addr"], B.refs))),
                         wp2.data.eq(G.build(w2["data"], B.refs)), wp2.en.eq(G.build(w2["en"], B.refs).bool())]
            wps.append(wp2)
        B.rdata = []
        for j, rd in enumerate(mm["reads"]):
            if rd["kind"] == "comb":
                rp = mem.read_port(domain="comb")
            elif rd["kind"] == "sync":
                rp = mem.read_port(domain=rd["dom"])
            else:
                tf = [wp] + ([wps[1]] if w2 and w2["transp"] and w2["dom"] == rd["dom"] else [])
                rp = mem.read_port(domain=rd["dom"], transparent_for=tuple(tf))
            m.d.comb += rp.addr.eq(G.build(rd["addr"], B.refs))
            if rd["kind"] != "comb":
                m.d.comb += rp.en.eq(G.build(rd["en"], B.refs).bool())
            out = Signal(mm["w"], name=f"rd{j}")
            m.d.comb += out.eq(rp.data)
            B.rdata.append(out)
        B.mem = mem
    # the hierarchy, children wrapped by their control inserter / domain renamer
    for k in reversed(range(len(d["mods"]))):
        md = d["mods"][k]
        if md["parent"] is None:
            continue
        obj = mods[k]
        wr = md.get("wrap")
        if wr:
            if wr[0] == "reset":
                obj = ResetInserter({wr[1]: B.sigs[wr[2]][0]})(obj)
            elif wr[0] == "enable":
                obj = EnableInserter({wr[1]: B.sigs[wr[2]][0]})(obj)
            else:
                obj = DomainRenamer(dict(wr[1]))(obj)
        setattr(mods[md["parent"]].submodules, md["name"], obj)
    B.top = top
    ports = collections.OrderedDict()
    pre = "p_" if d.get("rename") else ""
    B.inports = []     # (stimulus key, port name, signal)
    for i in d["ins"]:
        ports[f"{pre}s{i}"] = (B.sigs[i], PortDirection.Input)
        B.inports.append((("s", i), f"{pre}s{i}", B.sigs[i]))
    for di, cd in enumerate(B.cds):
        ports[cd.clk.name] = (cd.clk, PortDirection.Input)
        B.inports.append((("clk", di), cd.clk.name, cd.clk))
        if cd.rst is not None:
            ports[cd.rst.name] = (cd.rst, PortDirection.Input)
            B.inports.append((("rst", di), cd.rst.name, cd.rst))
    B.outports = []
    for i in d["outs"]:
        ports[f"{pre}s{i}"] = (B.sigs[i], PortDirection.Output)
        B.outports.append((f"{pre}s{i}", B.sigs[i]))
    if B.mem is not None:
        for j, s in enumerate(B.rdata):
            ports[f"rd{j}"] = (s, PortDirection.Output)
            B.outports.append((f"rd{j}", s))
    B.ports = ports
    if d.get("plist"):
        # ports=[signals]: names are the signals' own, directions inferred by the backend
        B.ports = [sig for sig, _ in ports.values()]
    return B


def build_stmts(m, dom, stmts, sigs):
    for s in stmts:
        if s[0] == "as":
            m.d[dom] += G.build(s[1], sigs).eq(G.build(s[2], sigs))
        elif s[0] == "if":
            for bi, (c, body) in enumerate(s[1]):
                cond = G.build(c, sigs)
                with (m.If(cond) if bi == 0 else m.Elif(cond)):
                    build_stmts(m, dom, body, sigs)
            if s[2] is not None:
                with m.Else():
                    build_stmts(m, dom, s[2], sigs)
        elif s[0] == "swst":
            with m.Switch(G.build(s[1], sigs)):
                for ps, body in s[2]:
                    if ps is None:
                        with m.Default():
                            build_stmts(m, dom, body, sigs)
                    else:
                        with m.Case(*ps):
                            build_stmts(m, dom, body, sigs)
        else:
            raise ValueError(s[0])


def observed_signals(B):
    """signals observed on the simulator side, in a fixed order: design signals, clock/reset, read data"""
    out = list(B.sigs)
    if B.mem is not None:
        out += B.rdata
    return out


def u(v, w):
    return v & ((1 << w) - 1) if w else 0


def simulate(d, skip=()):
    """real simulator trace: after the initial settle and after each step, the unsigned values of all observed signals
    (-2 for the signals listed in skip), then of the signals behind the top-level output ports"""
    from amaranth.hdl import Cat
    from amaranth.sim import Simulator
    B = build(d)
    obs = observed_signals(B)
    outs = [sig for _, sig in B.outports]
    rows = []
    sim = Simulator(B.top)

    def sample(ctx):
        row = [(-2 if i in skip else u(ctx.get(s), len(s))) for i, s in enumerate(obs)]
        row += [u(ctx.get(s), len(s)) for s in outs]
        if B.mem is not None:       # every row of the memory
            row += [u(ctx.get(B.mem.data[k]), d["mem"]["w"]) for k in range(d["mem"]["depth"])]
        rows.append(row)

    async def tb(ctx):
        sample(ctx)
        for kind, sets in d["stim"]:
            if kind == "data":
                for tgt, v in sets:
                    sig = B.sigs[tgt[1]] if tgt[0] == "s" else B.cds[tgt[1]].rst
                    ctx.set(sig, v)
            elif kind == "clk":
                clks = [B.cds[di].clk for di, _ in sets]
                val = sum(v << k for k, (_, v) in enumerate(sets))
                ctx.set(Cat(*clks), val)
            else:       # "cr": clocks and (async) resets change in the same instant
                tg = [B.cds[t[1]].clk if t[0] == "clk" else B.cds[t[1]].rst for t, _ in sets]
                ctx.set(Cat(*tg), sum(v << k for k, (_, v) in enumerate(sets)))
            sample(ctx)
    sim.add_testbench(tb)
    sim.run()
    return rows


def convert(d):
    """real backend: RTLIL text, and for every observed signal where the backend put it"""
    from amaranth.back import rtlil
    from amaranth.hdl._ir import Fragment
    B = build(d)
    text, name_map = rtlil.convert_fragment(Fragment.get(B.top, None), ports=B.ports, name="top", emit_src=False)
    where = []
    for s in observed_signals(B):
        where.append(name_map.get(s))
    return B, text, where


# a generated design is discarded ONLY for these reasons (counted in the evidence): the DSL's own early driver check
# (amaranth SyntaxError while the Module is being written), a driver conflict / combinational cycle reported by the
# netlist builder (C06's subject), or a cell the RTLIL evaluator does not cover.  Any other exception of the
# implementation stays in the case list and is compared (exception class on both sides).
GEN_ERRORS = ("SyntaxError",)
DROPS = collections.Counter()


def validate(d):
    """the design must build with the DSL and have neither driver conflicts nor combinational cycles (generator
    mistakes); any other failure of the backend stays in the case list and shows up as a disagreement"""
    import rtlil_read as R
    try:
        build(d)
    except Exception as e:
        if type(e).__name__ in GEN_ERRORS:
            DROPS["build:" + type(e).__name__] += 1
            return False, type(e).__name__
        return True, "DSL raised " + type(e).__name__
    try:
        B, text, where = convert(d)
    except Exception as e:
        if type(e).__name__ in ("DriverConflict", "CombinationalCycle"):
            DROPS["convert:" + type(e).__name__] += 1
            return False, type(e).__name__
        return True, "backend raised " + type(e).__name__
    try:
        R.parse(text)
    except R.Unsupported as e:
        DROPS["reader:" + str(e)[:40]] += 1
        return False, str(e)
    return True, ""


# =============================================================================================== AssignmentList tie
class _Ids:
    """nets -> small numbers: constants 0 / 1, every other net 2 + order of first appearance"""
    def __init__(self):
        self.ids = {}

    def net(self, n):
        n = int(n)
        if n in (0, 1):
            return n
        if n not in self.ids:
            self.ids[n] = len(self.ids) + 2
        return self.ids[n]

    def nets(self, v):
        return [self.net(n) for n in v]


PATCODE = {"0": 0, "1": 1, "-": 2}


def al_extract(d):
    """run the real front half (_ir.NetlistEmitter) on the design and collect
       - the Match table and every AssignmentList cell (inputs of rtlil.emit_assignment_list), in module order,
       - for every driver chunk (and two shifted sub-chunks): the inputs and the REAL result of NetlistDriver.emit_value"""
    from amaranth.hdl import _ir, _nir, _ast
    from amaranth.hdl._ir import Fragment
    B = build(d)
    design = Fragment.get(B.top, None).prepare(ports=B.ports, hierarchy=("top",))
    netlist = _nir.Netlist()
    emitter = _ir.NetlistEmitter(netlist, design)
    emitter.emit_fragment(design.fragment, None)
    ids = _Ids()
    midx = {}
    tab = []
    for ci, cell in enumerate(netlist.cells):
        if isinstance(cell, _nir.Match):
            midx[ci] = len(tab)
            tab.append(cell)

    def cnd(net):
        net = _nir.Net.ensure(net)
        if net == _nir.Net.from_const(1):
            return (0, 0)
        if net.is_cell and net.cell in midx:
            return (midx[net.cell] + 1, net.bit)
        raise ValueError(f"condition net {net!r} is neither const 1 nor a Match output")

    def ser_assigns(assigns):
        return [(cnd(a.cond), a.start, ids.nets(a.value)) for a in assigns]

    tab_s = [(cnd(m.en), ids.nets(m.value), [[[PATCODE[ch] for ch in p] for p in pl] for pl in m.patterns]) for m in tab]
    cells = []
    for module in netlist.modules:
        for ci in module.cells:
            cell = netlist.cells[ci]
            if isinstance(cell, _nir.AssignmentList):
                cells.append((ids.nets(cell.default), ser_assigns(cell.assignments)))
    calls, results = [], []
    for sig, sig_drivers in emitter.drivers.items():
        w = len(sig)
        for driver in sig_drivers.values():
            mask = 0
            for a in driver.assignments:
                for bit in range(a.start, min(w, a.start + len(a.value))):
                    mask |= 1 << bit
            chunks = []
            pos = 0
            while pos < w:
                if mask >> pos & 1:
                    end = pos
                    while mask >> end & 1:
                        end += 1
                    chunks.append((pos, end))
                    pos = end
                else:
                    pos += 1
            if len(sig_drivers) == 1:
                chunks.append((0, w))
            if w >= 2:
                chunks += [(1, w), (0, w - 1)]
            if w >= 4:
                chunks.append((1, w - 1))
            if driver.domain is None:
                sigdef = [(sig.init >> bit) & 1 for bit in range(w)]
            else:
                sigdef = ids.nets(emitter.emit_signal(sig))
            for cs, ce in dict.fromkeys(chunks):
                n0 = len(netlist.cells)
                value = driver.emit_value(emitter, cs, ce)
                if len(netlist.cells) == n0:
                    res = (ids.nets(value), [])
                else:
                    cell = netlist.cells[-1]
                    assert isinstance(cell, _nir.AssignmentList) and len(netlist.cells) == n0 + 1
                    res = (ids.nets(cell.default), ser_assigns(cell.assignments))
                calls.append((cs, ce, sigdef, ser_assigns(driver.assignments)))
                results.append(res)
    return tab_s, cells, calls, results


def enc_proc_body(body):
    """shape of a process body read from the RTLIL text (the `switch {}` wrappers of _emit_process_contents spliced)"""
    out = []
    n = 0
    for s in body:
        if s[0] == "assign":
            lhs = s[1]
            if lhs == []:
                out += [0, 0, 0]          # zero-width assignment: the text does not show its offset
            elif len(lhs) != 1 or lhs[0][0] != "w":
                raise ValueError("assignment target is not one wire chunk")
            else:
                out += [0, lhs[0][2], lhs[0][3]]
            n += 1
        elif len(s) > 3 and s[3]:
            if len(s[2]) != 1 or s[2][0][0]:
                raise ValueError("malformed `switch {}` wrapper")
            k, enc = enc_proc_body(s[2][0][1])
            out += enc
            n += k
        else:
            out += [1, sum(c[1] if c[0] == "c" else c[3] for c in s[1]), len(s[2])]
            for pats, b2 in s[2]:
                out.append(len(pats))
                for p in pats:
                    out += [len(p)] + [PATCODE[ch] for ch in p]
                k, enc = enc_proc_body(b2)
                out += [k] + enc
            n += 1
    return n, out


def al_real(d):
    import rtlil_read as R
    B, text, where = convert(d)
    mods = R.parse(text)
    out = []
    for m in mods:
        for it in m.items:
            if isinstance(it, R.Process):
                out += enc_proc_body(it.body)[1] + [-5]
    out.append(-9)
    tab_s, cells, calls, results = al_extract(d)
    for dflt, kept in results:
        out += dflt + [-7]
        for (ck, cb), start, v in kept:
            out += [ck, cb, start, len(v)] + v
        out.append(-8)
    return out


def _zl(xs):
    return "[" + "; ".join(z(x) for x in xs) + "]"


def _assigns_t(l):
    return "[" + "; ".join(f"({z(c[0])}, {z(c[1])}, {z(st)}, {_zl(v)})" for c, st, v in l) + "]"


def al_term(d):
    tab_s, cells, calls, results = al_extract(d)
    tab_t = "[" + "; ".join(
        f"({z(en[0])}, {z(en[1])}, {_zl(sel)}, [" + "; ".join("[" + "; ".join(_zl(p) for p in pl) + "]" for pl in pats) + "])"
        for en, sel, pats in tab_s) + "]"
    cells_t = "[" + "; ".join(f"({_zl(dflt)}, {_assigns_t(l)})" for dflt, l in cells) + "]"
    calls_t = "[" + "; ".join(f"({z(cs)}, {z(ce)}, {_zl(sd)}, {_assigns_t(l)})" for cs, ce, sd, l in calls) + "]"
    return f"k_al\n {tab_t}\n {cells_t}\n {calls_t}"


# =============================================================================================== emit_assign tie
EA_TSIGS = [[4, False], [6, True], [3, False], [1, False], [8, False]]      # target signals 0..4
EA_SSIGS = [[0, False], [1, False], [2, False], [3, False]]                 # selector signals 5..8


def ea_target(r, depth):
    """a random assignment target over the EA signals: Signal / Slice / Part / Concat / choice (SwitchValue) / u, s
    nested up to `depth`; selectors are signals, slices of signals or constants (so their nets are known)"""
    shapes = EA_TSIGS + EA_SSIGS

    def sel(maxw):
        q = r.random()
        j = r.randrange(len(EA_SSIGS))
        w = EA_SSIGS[j][0]
        if q < 0.6:
            return ["s", len(EA_TSIGS) + j]
        if q < 0.8 and w >= 1:
            lo = r.randrange(0, w)
            return ["sl", ["s", len(EA_TSIGS) + j], lo, r.randrange(lo, w + 1)]
        cw = r.randrange(0, maxw + 1)
        return ["c", r.randrange(0, 1 << cw) if cw else 0, cw, False]

    def go(d_):
        q = r.random()
        if d_ <= 0 or q < 0.2:
            return ["s", r.randrange(len(EA_TSIGS))]
        if q < 0.4:
            a = go(d_ - 1)
            w = G.pyshape(a, shapes)[0]
            lo = r.randrange(0, w + 1)
            return ["sl", a, lo, r.randrange(lo, w + 1)]
        if q < 0.6:
            return ["pt", go(d_ - 1), sel(3), r.randrange(0, 5), r.choice((1, 1, 2, 3))]
        if q < 0.75:
            return ["cat", [go(d_ - 1) for _ in range(r.randrange(0, 4))]]
        if q < 0.9:
            t = sel(2)
            tw = G.pyshape(t, shapes)[0]
            cs = []
            n = r.randrange(1, 4)
            for ci in range(n):
                if ci == n - 1 and r.random() < 0.5:
                    ps = None
                else:
                    ps = ["".join(r.choice("01-" if r.random() < 0.3 else "01") for _ in range(tw)) for _ in range(r.randrange(0, 3))]
                cs.append([ps, go(d_ - 1)])
            return ["sw", t, cs]
        a = go(d_ - 1)
        if G.pyshape(a, shapes)[0] == 0:
            return a
        return ["o1", r.choice("us"), a]
    return go(depth)


def ea_cases(seed, n):
    r = random.Random(seed + 4041)
    out = []
    per = 12
    for k in range(0, n, per):
        out.append({"k": "ea", "targets": [ea_target(r, r.randrange(1, 4)) for _ in range(per)]})
    return out


def ea_real(c):
    """call the REAL NetlistEmitter.emit_assign(lhs, 0, rhs, const 1) on every target and read the drivers"""
    from amaranth.hdl import _ir, _nir, Signal, Shape
    shapes = EA_TSIGS + EA_SSIGS
    out, tabn_all, rhs_all = [], None, []
    for t in c["targets"]:
        sigs = [Signal(Shape(w, sg), name=f"x{k}") for k, (w, sg) in enumerate(shapes)]
        netlist = _nir.Netlist()
        netlist.add_module(None, ("top",), src_loc=None, cell_src_loc=None)
        em = _ir.NetlistEmitter(netlist, None)
        ids = _Ids()
        tabn = [ids.nets(em.emit_signal(sg_)) for sg_ in sigs]
        lhs = G.build(t, sigs)
        rhs = _nir.Value(_nir.Net.from_late(-5000 - k) for k in range(len(lhs)))
        rhs_ids = ids.nets(rhs)
        em.emit_assign(0, None, lhs, 0, rhs, _nir.Net.from_const(1), src_loc=None)

        def cond(net):
            net = _nir.Net.ensure(net)
            if net == _nir.Net.from_const(1):
                return [0]
            cell = netlist.cells[net.cell]
            assert isinstance(cell, _nir.Match)
            enc = [1] + cond(cell.en) + [len(cell.value)] + ids.nets(cell.value) + [len(cell.patterns)]
            for pl in cell.patterns:
                enc.append(len(pl))
                for p in pl:
                    enc += [len(p)] + [PATCODE[ch] for ch in p]
            return enc + [net.bit]
        for k, sg_ in enumerate(sigs):
            for drv in em.drivers.get(sg_, {}).values():
                for a in drv.assignments:
                    out += cond(a.cond) + [a.start, len(a.value)] + ids.nets(a.value) + [-4]
            out.append(-5)
        out.append(-8)
        tabn_all = tabn
        rhs_all.append(rhs_ids)
    return out, tabn_all, rhs_all


def ea_term(c):
    shapes = EA_TSIGS + EA_SSIGS
    _, tabn, rhs_all = ea_real(c)
    tg = "; ".join(f"({G.coq_expr(t, shapes)}, {_zl(rh)})" for t, rh in zip(c["targets"], rhs_all))
    return "k_emit_assign [" + "; ".join(_zl(x) for x in tabn) + "]\n [" + tg + "]"


# =============================================================================================== cell tie
CELL_KINDS = ["$not", "$neg", "$reduce_and", "$reduce_or", "$reduce_xor", "$reduce_bool", "$add", "$sub", "$mul",
              "$divfloor", "$modfloor", "$shl", "$shr", "$sshr", "$shift", "$and", "$or", "$xor", "$eq", "$ne", "$lt",
              "$le", "$gt", "$ge"]          # order = RtlilSem.ckind_code


def cell_entries(kind, op, thorough):
    """operand shapes (and constant operands) for which the emitted cell is compared with the model's choice"""
    ws = [0, 1, 2, 5, 12] if thorough else [0, 1, 5, 12]
    shapes = [[w, False] for w in ws] + [[w, True] for w in ws if w]
    if kind == "o1":
        ents = [[w, sg, None] for w, sg in shapes if not (op == "s" and w == 0)]
        ents += [[4, False, 5], [4, True, -3]]
        return ents
    if kind == "pt":
        return [[wv, sv, wo, w, st] for wv, sv in shapes if wv for wo in (0, 2, 3) for w in (0, 1, 4) for st in (1, 2, 5)]
    ents = []
    for wa, sa in shapes:
        for wb, sb in shapes:
            if op in ("<<", ">>") and sb:
                continue
            if op == "<<":
                wb = min(wb, 4)
            ents.append([[wa, sa, None], [wb, sb, None]])
    for ca, cb in (([4, False, 3], None), (None, [4, False, 12]), ([3, True, -2], None), (None, [5, True, -1]),
                   ([4, False, 3], [4, False, 9])):
        for w, sg in ([5, False], [5, True]):
            a = ca or [w, sg, None]
            b_ = cb or [w, sg, None]
            if op in ("<<", ">>") and b_[1]:
                continue
            ents.append([a, b_])
    seen, out = set(), []
    for e in ents:
        if repr(e) not in seen:
            seen.add(repr(e))
            out.append(e)
    return out


def cell_cases(thorough):
    out = [{"k": "cell", "kind": "o2", "op": op, "ents": cell_entries("o2", op, thorough)} for op in G.OP2]
    out += [{"k": "cell", "kind": "o1", "op": op, "ents": cell_entries("o1", op, thorough)} for op in G.OP1
            if op not in ("u", "s")]
    out.append({"k": "cell", "kind": "pt", "op": "pt", "ents": cell_entries("pt", "pt", thorough)})
    return out


def cell_real(c):
    """the cell the real backend emits for each entry: [type, A_SIGNED, (B_SIGNED,) A_WIDTH, (B_WIDTH,) Y_WIDTH, ...]"""
    import rtlil_read as R
    from amaranth.hdl import Signal, Shape, Module, Const
    from amaranth.back import rtlil
    out = []

    def opd(e, name):
        w, sg, cst = e
        return Const(cst, Shape(w, sg)) if cst is not None else Signal(Shape(w, sg), name=name)
    for e in c["ents"]:
        if c["kind"] == "o2":
            objs = [opd(e[0], "a"), opd(e[1], "b")]
            val = G.build(["o2", c["op"], ["s", 0], ["s", 1]], objs)
        elif c["kind"] == "o1":
            objs = [opd(e, "a")]
            val = G.build(["o1", c["op"], ["s", 0]], objs)
        else:
            wv, sv, wo, w, st = e
            objs = [Signal(Shape(wv, sv), name="a"), Signal(wo, name="b")]
            val = G.build(["pt", ["s", 0], ["s", 1], w, st], objs)
        y = Signal(val.shape(), name="y")
        m = Module()
        m.d.comb += y.eq(val)
        text = rtlil.convert(m, ports=[o for o in objs if isinstance(o, Signal)] + [y], emit_src=False)
        cells = [it for it in R.parse(text)[0].items if isinstance(it, R.Cell)]

        def pv(cell, name):
            v = cell.params[name]
            return v.value if isinstance(v, R.Const) else v
        if c["kind"] == "pt":
            sh = [x for x in cells if x.kind == "$shift"]
            if len(sh) != 1:
                out += [-1, len(sh), -5]
                continue
            mul = [x for x in cells if x.kind == "$mul"]
            out += [len(mul), pv(sh[0], "B_WIDTH"), pv(sh[0], "A_SIGNED"), pv(sh[0], "A_WIDTH"), pv(sh[0], "Y_WIDTH"), -5]
        elif not cells:
            out += [-1, 0, -5]
        else:
            x = cells[0]
            if c["kind"] == "o2":
                out += [CELL_KINDS.index(x.kind), pv(x, "A_SIGNED"), pv(x, "B_SIGNED"), pv(x, "A_WIDTH"), pv(x, "B_WIDTH"),
                        pv(x, "Y_WIDTH"), int(any(k.kind == "$mux" for k in cells[1:])), -5]
            else:
                out += [CELL_KINDS.index(x.kind), pv(x, "A_SIGNED"), pv(x, "A_WIDTH"), pv(x, "Y_WIDTH"), -5]
    return out


def cell_term(c):
    def opd_t(e):
        w, sg, cst = e
        return f"{z(w)}, {blit(sg)}, " + ("None" if cst is None else f"Some {z(cst)}")
    if c["kind"] == "o2":
        ents = "; ".join(f"({opd_t(a)}, ({opd_t(b_)}))" for a, b_ in c["ents"])
        return f"k_cell2 {G.OP2_COQ[c['op']]} [{ents}]"
    if c["kind"] == "o1":
        return f"k_cell1 {G.OP1_COQ[c['op']]} [" + "; ".join(f"({opd_t(e)})" for e in c["ents"]) + "]"
    return "k_cellpart [" + "; ".join(f"({z(wv)}, {blit(sv)}, {z(wo)}, {z(w)}, {z(st)})" for wv, sv, wo, w, st in c["ents"]) + "]"


# =============================================================================================== harness interface
def run_impl(c):
    if c["k"] == "print":          # replay of the Print observation: the simulator's texts
        return print_texts(c["specs"])[1]
    if c["k"] == "cell":
        return cell_real(c)
    if c["k"] == "ea":
        try:
            return ea_real(c)[0]
        except Exception as e:
            return [-1, sum(map(ord, type(e).__name__))]
    d = c["d"]
    if c["k"] == "al":
        try:
            return al_real(d)
        except Exception as e:
            return [-1, sum(map(ord, type(e).__name__))]
    try:
        B, text, where = convert(d)
        # a signal without a name in the emitted text is skipped only if that is legitimate (see unnamed_ok);
        # a signal mentioned in an emitted module that the backend lost is compared (the model answers -4 for it)
        okset = unnamed_ok(d, text)
        nsig = len(d["sigs"])
        skip = {i for i, wh in enumerate(where) if wh is None and (i >= nsig or i in okset)}
    except Exception as e:
        skip = set()
    try:
        rows = simulate(d, skip)
    except Exception as e:
        return [-1, sum(map(ord, type(e).__name__))]
    out = []
    for r in rows:
        out.append(0)
        out.extend(r)
    if shift_alt(d):
        out = out + [-6] + out
    return out


def coq_term(c):
    import rtlil_read as R
    if c["k"] == "cell":
        return cell_term(c)
    if c["k"] == "ea":
        return ea_term(c)
    d = c["d"]
    if c["k"] == "al":
        try:
            return al_term(d)
        except Exception as e:
            return f"[-1; {sum(map(ord, type(e).__name__))}]"
    try:
        B, text, where = convert(d)
    except Exception as e:
        return f"[-1; {sum(map(ord, type(e).__name__))}]"
    mods = R.parse(text)
    doc = R.coq_doc(mods)
    top = mods[0]
    MOD_COUNT[0] += len(mods)
    for m_ in mods:
        for it in m_.items:
            CELL_HIST["process" if isinstance(it, R.Process) else (it.kind if it.kind.startswith("$") else "submodule")] += 1
    obs = []
    okset = unnamed_ok(d, text)
    for si, (s, wh) in enumerate(zip(observed_signals(B), where)):
        if wh is None and (si >= len(d["sigs"]) or si in okset):
            # the design does not use the signal and the backend did not name it: compare nothing for it
            obs.append(None)
        elif wh is None:
            obs.append(([99], 0, len(s)))         # used but lost by the backend: unresolvable -> -4
        else:
            path, wi, ww = R.resolve_path(mods, wh[:-1], wh[-1])
            if ww != len(s):
                raise R.RtlilError(f"wire {wh} has width {ww}, signal {s.name} has {len(s)}")
            obs.append((path, wi, ww))
    obs_t = "[" + "; ".join(
        "None" if o is None else
        "Some ([" + "; ".join(f"{k}%nat" for k in o[0]) + f"], {o[1]}%nat, {o[2]})" for o in obs) + "]"
    inw = {}
    for key, pname, sig in B.inports:
        wn = "\\" + pname
        if wn not in top.windex or top.wires[top.windex[wn]].kind != "input":
            raise R.RtlilError(f"top module has no input port {pname}")
        inw[key] = (top.windex[wn], len(sig), sig.init)
    init_ins = "[" + "; ".join(f"({wi}%nat, {z(u(init, w))})" for (wi, w, init) in inw.values()) + "]"
    def sstep(prs):
        return "(true, [" + "; ".join(f"({wi}%nat, {z(v)})" for wi, v in prs) + "], [])"
    steps = []
    for kind, sets in d["stim"]:
        if kind == "data":
            prs = [(inw[tuple(tgt)][0], u(v, inw[tuple(tgt)][1])) for tgt, v in sets]
        elif kind == "clk":
            prs = [(inw[("clk", di)][0], v) for di, v in sets]
        else:       # "cr": clocks and resets change in the same instant
            prs = [(inw[(tgt[0], tgt[1])][0], v) for tgt, v in sets]
        steps.append(sstep(prs))
    # output ports of the top module: checked against the simulator value of the port's signal as extra observations
    extra_obs = []
    for pname, sig in B.outports:
        wn = "\\" + pname
        if wn not in top.windex or (top.wires[top.windex[wn]].kind != "output" and len(sig) > 0):
            # (a zero-width signal has no nets: with ports=[...] the backend cannot see it driven and makes it an input)
            raise R.RtlilError(f"top module has no output port {pname}")
        extra_obs.append((top.windex[wn], len(sig)))
    port_t = "[" + "; ".join(f"([], {wi}%nat, {ww})" for wi, ww in extra_obs) + "]"
    return (f"k_run {blit(shift_alt(d))} {blit(bool(d.get('mem')))}\n {doc}\n {obs_t}\n {port_t}\n {init_ins}\n ["
            + ";\n  ".join(steps) + "]")


def classify(c):
    if c["k"] == "cell":
        return "cell:" + c["op"]
    if c["k"] == "ea":
        return "ea:targets"
    d = c["d"]
    if c["k"] == "op":
        t = d["mods"][0]["blocks"][0][1][0][2]
        return "op:" + (t[1] if t[0] in ("o1", "o2") else t[0])
    if c["k"] == "arst":
        return "arst:handwritten"
    if c["k"] == "eaw":
        return "eaw:witness"
    if c["k"] == "al":
        return "al:mods%d" % len(d["mods"])
    nm = len(d["mods"])
    dep = 0
    for md in d["mods"]:
        k, dd = md, 0
        while k["parent"] is not None:
            k = d["mods"][k["parent"]]
            dd += 1
        dep = max(dep, dd)
    tags = [f"mods{nm}", f"depth{dep}", f"doms{len(d['doms'])}"]
    if any(x.get("edge") == "neg" for x in d["doms"]):
        tags.append("negedge")
    if any(x.get("mod", 0) for x in d["doms"]):
        tags.append("subdomain")
    for md in d["mods"]:
        if md.get("wrap"):
            tags.append(md["wrap"][0])
    if d.get("plist"):
        tags.append("portlist")
    if d.get("mem") and d["mem"].get("w2"):
        tags.append("2wports")
    if d.get("mem") and d["mem"].get("gran") and d["mem"]["w"] // d["mem"]["gran"] >= 2 and d["mem"]["gran"] >= 2:
        tags.append("lanes")
    if any(x["rst"] == "async" for x in d["doms"]):
        tags.append("async")
    if d.get("mem"):
        tags.append("mem")
    return "rnd:" + ",".join(tags)


def nontrivial(c, obs):
    if c["k"] == "cell":
        return bool(obs) and -1 not in obs
    if c["k"] == "ea":
        return 1 in obs
    if not obs or obs[0] == -1:
        return False
    if c["k"] == "al":
        return 1 in obs[:obs.index(-9)] if -9 in obs else False      # some process has a switch
    d = c["d"]
    so = split_answers(d, obs)
    if so is None:
        return False
    obs = so["base"]
    n = len(d["stim"]) + 1
    if len(obs) % n:
        return False
    k = len(obs) // n
    rows = [obs[i * k:(i + 1) * k] for i in range(n)]
    return any(r != rows[0] for r in rows)


def shift_alt(d):
    """does the design contain a part-select of a signed value that can reach above the operand?  Then the model
    answers twice: under the reading of $shift in force, and (after -6) under the other one"""
    shapes = all_shapes(d)
    pred = lambda t: has_signed_part(t, shapes)
    if any(stmts_have(st, pred) for md in d["mods"] for _, st in md["blocks"]):
        return True
    mm = d.get("mem")
    if not mm:
        return False
    es = [mm["waddr"], mm["wdata"], mm["wen"]] + [x for r in mm["reads"] for x in (r["addr"], r["en"])]
    if mm.get("w2"):
        es += [mm["w2"]["addr"], mm["w2"]["data"], mm["w2"]["en"]]
    return any(pred(e) for e in es)


def has_async(d):
    return any(x["rst"] == "async" for x in d["doms"])


def split_answers(d, l):
    """the runs inside one answer: base [, -6, the other reading of $shift]"""
    if not shift_alt(d):
        return {"base": l}
    if len(l) % 2 == 0 or l[len(l) // 2] != -6:
        return None
    return {"base": l[:len(l) // 2], "shift": l[len(l) // 2 + 1:]}


def known_finding(c, obs, model):
    """A disagreement of the first run (RTLIL as published vs simulator) is the listed finding only if the model run
    under the OTHER reading of $shift with A_SIGNED reproduces the simulator EXACTLY, on every row and column."""
    if c["k"] in ("al", "cell", "ea"):
        return None
    d = c["d"]
    so, sm = split_answers(d, obs), split_answers(d, model)
    if so is None or sm is None or so.keys() != sm.keys():
        return None
    if any(v != so["base"] for v in so.values()):
        return None
    if sm["base"] == so["base"]:
        return None              # the published semantics agree; something else differs: not a known finding
    if "shift" in sm and sm["shift"] == so["base"]:
        return SHIFT_ID
    return None


def arst_designs():
    """async-reset domain (pos and neg clock edge): a reset-less and a resettable counter, a register fed by both, and
    a memory written and read in that domain; the reset rises alone, is held over clock edges, falls, rises together
    with an active clock edge, and falls together with one"""
    out = []
    for edge in ("pos", "neg"):
        sigs = [{"w": 4, "sg": False, "init": 3, "rl": True}, {"w": 4, "sg": False, "init": 5, "rl": False},
                {"w": 5, "sg": False, "init": 9, "rl": False}, {"w": 2, "sg": False, "init": 0, "rl": False}]
        stmts = [["as", ["s", 0], ["o2", "+", ["s", 0], ["c", 1, 1, False]]],
                 ["as", ["s", 1], ["o2", "+", ["s", 1], ["c", 1, 1, False]]],
                 ["as", ["s", 2], ["o2", "+", ["s", 0], ["s", 1]]]]
        mem = {"mod": 0, "w": 4, "depth": 4, "init": [1, 2, 3], "wdom": "sync", "gran": None,
               "waddr": ["sl", ["s", 0], 0, 2], "wdata": ["s", 1], "wen": ["c", 1, 1, False],
               "reads": [{"kind": "sync", "dom": "sync", "addr": ["s", 3], "en": ["c", 1, 1, False]},
                         {"kind": "transp", "dom": "sync", "addr": ["sl", ["s", 0], 0, 2], "en": ["c", 1, 1, False]},
                         {"kind": "comb", "dom": "sync", "addr": ["s", 3], "en": ["c", 1, 1, False]}]}
        a, i_ = (1, 0) if edge == "pos" else (0, 1)          # active / inactive clock level
        clk = lambda v: ["clk", [[0, v]]]
        rst = lambda v: ["data", [[["rst", 0], v]]]
        both = lambda c_, r_: ["cr", [[["clk", 0], c_], [["rst", 0], r_]]]
        stim = [clk(a), clk(i_), ["data", [[["s", 3], 2]]], rst(1), clk(a), clk(i_), clk(a), rst(0), clk(i_), clk(a), clk(i_),
                both(a, 1), clk(i_), clk(a), both(i_, 0), clk(a), both(i_, 1), both(a, 0), clk(i_), clk(a)]
        if edge == "neg":
            stim = [clk(1)] + stim
        for with_mem in (False, True):
            out.append({"sigs": sigs, "doms": [{"name": "sync", "rst": "async", "edge": edge, "mod": 0}],
                        "mods": [{"parent": None, "name": "m0", "blocks": [["sync", stmts]]}],
                        "ins": [3], "outs": [0, 1, 2], "rename": False, "mem": mem if with_mem else None, "stim": stim})
    return out


_FMT_RE = None


def render_rtlil_format(fmt, value):
    """the text a $print cell with this FORMAT prints for one unsigned decimal argument, read from the documented
    grammar {width:justify padding [width] base [options] signedness}: justify < > =, padding = the literal pad
    character; only what the observation below needs (base d, option +, u)"""
    import re
    out, pos = [], 0
    for m in re.finditer(r"\{(\d+):([<>=])(.)(\d*)d(\+?)u\}|\{\{|\}\}", fmt):
        out.append(fmt[pos:m.start()])
        pos = m.end()
        if m.group(0) in ("{{", "}}"):
            out.append(m.group(0)[0])
            continue
        just, pad, width, plus = m.group(2), m.group(3), int(m.group(4) or 0), m.group(5)
        sign, digits = ("+" if plus else ""), str(value)
        fill = pad * max(0, width - len(sign) - len(digits))
        out.append({"<": sign + digits + fill, ">": fill + sign + digits, "=": sign + fill + digits}[just])
    out.append(fmt[pos:])
    return "".join(out)


def print_texts(specs):
    """Print(Format('[{:SPEC}]', a)), a = 42, for every spec: (text of the emitted $print FORMAT, simulator text)"""
    import io, contextlib, re
    from amaranth.hdl import Signal, Module, Print, Format
    from amaranth.back import rtlil
    from amaranth.sim import Simulator

    def mk():
        a = Signal(8, init=42)
        m = Module()
        for sp in specs:
            m.d.comb += Print(Format("[{:" + sp + "}]", a))
        return m, a
    m, a = mk()
    text = rtlil.convert(m, ports=[a], emit_src=False)
    fmts = [bytes(f, "ascii").decode("unicode_escape") for f in re.findall(r'parameter \\FORMAT "(.*)"', text)]
    m, a = mk()
    sim = Simulator(m)

    async def tb(ctx):
        pass
    sim.add_testbench(tb)
    buf = io.StringIO()
    with contextlib.redirect_stdout(buf):
        sim.run()
    lines = buf.getvalue().splitlines()
    if len(fmts) != len(specs) or len(lines) != len(specs):
        raise ValueError(f"{len(specs)} specs, {len(fmts)} FORMAT strings, {len(lines)} printed lines")
    return [render_rtlil_format(f, 42).rstrip("\n") for f in fmts], lines, fmts


def print_observation():
    """a grid of decimal format specs: simulator text vs the text of the emitted $print FORMAT string;
    returns the specs on which they differ"""
    specs = [al + z0 + "5" for al in ("", "<", ">", "=", "x<", "x>", "x=", "0<", "0>") for z0 in ("", "0")] + \
            ["+5", "+05", "<+5", ""]
    rt, si, fm = print_texts(specs)
    return [(sp, r, o, f) for sp, r, o, f in zip(specs, rt, si, fm) if r != o]


def extra(tier, seed, findings):
    # OBSERVATION only (coordinator's decision: C04 is about values of outputs and named registers, not Print texts):
    # recorded in the evidence and printed as a NOTE, never a violation / known finding / non-zero exit
    try:
        diffs = print_observation()
    except Exception as e:
        diffs = [("<error>", type(e).__name__, str(e)[:200], "")]
    for sp, r, o, f in diffs:
        print(f"NOTE: property={ID} observation (not a verdict): Print(Format('[{{:{sp}}}]', a)), a=42: simulator prints "
              f"{o!r}, the emitted $print FORMAT {f.rstrip(chr(10))!r} reads as {r!r}")
    cases = gen_cases(tier, seed)
    comparisons = 0
    steps = 0
    n_al = sum(1 for c in cases if c["k"] == "al")
    n_cell = sum(len(c["ents"]) for c in cases if c["k"] == "cell")
    for c in cases:
        if c["k"] in ("al", "cell", "ea"):
            continue
        d = c["d"]
        nobs = len(d["sigs"]) + len(d["outs"]) + (2 * len(d["mem"]["reads"]) if d.get("mem") else 0)
        comparisons += (len(d["stim"]) + 1) * nobs
        steps += len(d["stim"])
    cov = {"programs": len([c for c in cases if c["k"] not in ("al", "cell", "ea")]), "cell_tie_entries": n_cell,
           "emit_assign_tie_targets": sum(len(c["targets"]) for c in cases if c["k"] == "ea"), "disagreements_checked": comparisons, "stimulus_steps": steps,
           "assignment_list_tie_designs": n_al,
           "generator_dropped_designs": dict(DROPS),
           "print_format_observations": [{"spec": sp, "simulator_text": o, "format_string": f.rstrip("\n"),
                                          "format_text_as_read": r} for sp, r, o, f in diffs],
           "rtlil_cell_histogram": dict(CELL_HIST), "rtlil_modules": MOD_COUNT[0],
           "layer": "B = per-design translation validation (vm_compute of RtlilSem.run on the emitted text); "
                    "A = the theorems of Props/C04.v"}
    return [], cov


CELL_HIST = collections.Counter()
MOD_COUNT = [0]


def explain(c):
    return ("answers: per row (initial settle, then each stimulus step) a status (0) followed by the unsigned values of "
            "every design signal [and memory read data], then of every top-level output port; model = the emitted RTLIL "
            "run by RtlilSem.run in Coq (-1 = wire undefined, -2 = wire not found), observed = real simulator; designs with "
            "a part-select of a signed value answer twice (separator -6: second half = the other reading of $shift); "
            "k=al: shapes of every emitted process (-5 after each), -9, then every emit_value result (-8 after each): "
            "model = Gallina emit_assignment_list / emit_value on the real netlist data, observed = real emitter")
